//! `sender` (C04) and `sender_async` (C11) streams: the real `Controller` / `r#async::Controller`
//! driven over a **scripted link** (one type implementing both `Link` and `AsyncLink`), against the
//! Lean model `Model/Ctl.lean`.
//!
//! The link answers the k-th call of each kind (`update`, `is_open`, `send`, `receive`, `close`)
//! with the k-th scripted answer of that kind and records every call; it knows nothing about the
//! controller's control flow.  Time: `wait_msg_processed` reads the wall clock, so a poll scripted
//! as *late* makes the link sleep until the timeout has certainly expired for the sender, and after
//! every poll scripted as *not late* the link checks (at the next call) that the timeout had
//! certainly not expired; a case where that check fails is discarded and re-run on a fresh
//! controller (never compared).
//!
//! The oracle states C04 on the implementation's observables only (the returned `Result`, the
//! recorded call sequence and the devices' `enable` flags read back from the geometry): "all devices"
//! means all *enabled* devices.  Cases run under enable masks (`enable <bits>` lines) with a disabled
//! device below, between and above enabled ones; in the `sender` stream those chunks are run a second
//! time on a twin controller whose scripted link answers *different* acknowledgement bytes for the
//! disabled devices — result and calls (up to those bytes) must be identical.
//!
//! `stale` lines run `open` + one datagram against real `CPUEmulator`s left with every message id.
//! `sender_async` additionally runs every case through the synchronous controller in lock-step and
//! random programs (send / group_send / firmware_version / fpga_state / enable flags / close, real
//! datagrams, real emulators) through both controllers, comparing results, frames, acknowledgements
//! and enable flags (oracle only, no model lines).
//!
//! C11 dimensions (coverage review C11 1-4), and how each reaches the verdict:
//!  * **runtime flavour** — model-visible: chunks that start with a `flavor mt` line run the async controller on a
//!    multi-thread tokio runtime, where `Drop` must close a link that says open (failed `open`; `close <CLOSE> o<CLOSE>`
//!    = the link still says open when `close(self)` drops the controller); the model (`dropAsyncOn`) and the
//!    lock-step comparison (no exemption on that flavour) both look at the calls `Drop` makes;
//!  * **sleeper calls** — oracle only: the no-op sleeper counts `sleep_until` calls, compared between the copies;
//!  * **boxed link** — invisible to the model (same lines): every eighth chunk converts the controller with
//!    `into_boxed_link()` after `open` (and back with `from_boxed_link` before every other `close`);
//!  * **real sleepers / default-option shortcuts** — oracle only, program phase: `Controller::send`,
//!    `Controller::group_send` and `SenderOption { sleeper: StdSleeper | SpinSleeper | AsyncSleeper }` with multi-frame
//!    datagrams; besides equality of everything recorded, the link holds the async sender to its send slots
//!    (one-sided bound, see `RecLink::rec`).
use crate::common::*;
use autd3::controller::{ParallelMode, SenderOption, Sleep};
use autd3::prelude::*;
use autd3::r#async::controller::AsyncSleep;
use autd3_core::datagram::{Datagram, DatagramOption, NullOp, Operation};
use autd3_core::geometry::{Device, Geometry};
use autd3_core::link::{AsyncLink, Link, LinkError, RxMessage, TxMessage};
use autd3_driver::error::AUTDDriverError;
use autd3_driver::firmware::operation::OperationGenerator;
use autd3_firmware_emulator::CPUEmulator;
use std::collections::VecDeque;
use std::sync::atomic::{AtomicUsize, Ordering};
use std::sync::{Arc, Mutex};
use std::time::{Duration, Instant};

const SHORT_MS: u64 = 20;
const LONG_MS: u64 = 60_000;
const DEFAULT_MS: u64 = 200;

// ------------------------------------------------------------------------------------------------
// scripts
// ------------------------------------------------------------------------------------------------

#[derive(Clone, Copy, PartialEq, Eq, Debug)]
enum T {
    Z,
    S,
    L,
    N,
}
impl T {
    fn ch(self) -> char {
        match self {
            T::Z => 'Z',
            T::S => 'S',
            T::L => 'L',
            T::N => 'N',
        }
    }
    fn dur(self) -> Option<Duration> {
        match self {
            T::Z => Some(Duration::ZERO),
            T::S => Some(Duration::from_millis(SHORT_MS)),
            T::L => Some(Duration::from_millis(LONG_MS)),
            T::N => None,
        }
    }
}

#[derive(Clone, Copy, PartialEq, Eq, Debug)]
enum Kind {
    R,
    P,
    G,
    E(u8),
}

#[derive(Clone, Debug)]
enum Recv {
    Err,
    Rx { kinds: Vec<Kind>, base: u8 },
}
impl Recv {
    fn text(&self) -> String {
        match self {
            Recv::Err => "X".into(),
            Recv::Rx { kinds, base } => {
                let mut s = String::new();
                for k in kinds {
                    match k {
                        Kind::R => s.push('R'),
                        Kind::P => s.push('P'),
                        Kind::G => s.push('G'),
                        Kind::E(c) => s.push_str(&format!("E{c:02x}")),
                    }
                }
                s.push_str(&format!(":{base:02x}"));
                s
            }
        }
    }
    fn all_right(&self) -> bool {
        matches!(self, Recv::Rx { kinds, .. } if kinds.iter().all(|k| *k == Kind::R))
    }
}

#[derive(Clone, Debug)]
enum PollS {
    Closed,
    Poll { recv: Recv, late: bool },
}

#[derive(Clone, Debug)]
struct FrameS {
    open: bool,
    send_ok: bool,
    polls: Vec<PollS>,
}

#[derive(Clone, Debug)]
struct SendS {
    update_ok: bool,
    frames: Vec<FrameS>,
}
impl SendS {
    fn text(&self) -> String {
        let mut s = String::from(if self.update_ok { "u" } else { "U" });
        for f in &self.frames {
            s.push('/');
            s.push(if f.open { 'o' } else { 'c' });
            s.push(if f.send_ok { 's' } else { 'S' });
            for p in &f.polls {
                s.push('+');
                match p {
                    PollS::Closed => s.push('c'),
                    PollS::Poll { recv, late } => {
                        s.push('o');
                        s.push_str(&recv.text());
                        if *late {
                            s.push('!');
                        }
                    }
                }
            }
        }
        s
    }
    fn has_late(&self) -> bool {
        self.frames.iter().any(|f| f.polls.iter().any(|p| matches!(p, PollS::Poll { late: true, .. })))
    }
}

#[derive(Clone, Debug)]
enum CloseS {
    Closed,
    Open { sends: [SendS; 3], close_ok: bool },
}
impl CloseS {
    fn text(&self) -> String {
        match self {
            CloseS::Closed => "c".into(),
            CloseS::Open { sends, close_ok } => format!(
                "o~{}~{}~{}~{}",
                sends[0].text(),
                sends[1].text(),
                sends[2].text(),
                if *close_ok { "k" } else { "K" }
            ),
        }
    }
}

#[derive(Clone, Debug)]
enum Case {
    Open { n: usize, t: T, open_ok: bool, ff: SendS, cs: SendS, drop: CloseS },
    Send { t: T, td: T, par: u8, frames: Vec<u8>, sc: SendS },
    SendX { t: T, td: T },
    FwVer { scs: Vec<SendS> },
    Fpga { open: bool, recv: Recv },
    /// `drop`: what the link answers when the controller is dropped at the end of `close(self)` (`Closed` = it says
    /// closed, as a link does after `close`)
    Close { c: CloseS, drop: CloseS },
    /// (`sender_async` only) the tokio runtime the controllers of the rest of the chunk live on: multi-thread
    /// (`Drop` of the async controller closes a link that says open) or current-thread.  `sync_dup`: the chunk is a
    /// copy of another one that differs in nothing else, so the `sender` stream skips it
    Flavor { mt: bool, sync_dup: bool },
    /// `geometry_mut()`: set `Device::enable` of every device
    Enable { mask: Vec<bool> },
    /// real `CPUEmulator`s with a left-over message id (not scripted; own link)
    Stale { ids: Vec<u8> },
}

fn bits(mask: &[bool]) -> String {
    mask.iter().map(|b| if *b { '1' } else { '0' }).collect()
}
impl Case {
    fn text(&self) -> String {
        match self {
            Case::Open { n, t, open_ok, ff, cs, drop } => format!(
                "open {n} {} {} {} {} {}",
                t.ch(),
                if *open_ok { "n" } else { "N" },
                ff.text(),
                cs.text(),
                match drop {
                    CloseS::Closed => "c".to_string(),
                    d => format!("o{}", d.text()),
                }
            ),
            Case::Send { t, td, frames, sc, .. } => format!(
                "send {} {} {} {}",
                t.ch(),
                td.ch(),
                frames.iter().map(|f| f.to_string()).collect::<Vec<_>>().join(","),
                sc.text()
            ),
            Case::SendX { t, td } => format!("sendx {} {}", t.ch(), td.ch()),
            Case::FwVer { scs } => format!("fwver {}", scs.iter().map(|s| s.text()).collect::<Vec<_>>().join(" ")),
            Case::Fpga { open, recv } => format!("fpga {} {}", if *open { "o" } else { "c" }, recv.text()),
            Case::Close { c, drop } => format!(
                "close {} {}",
                c.text(),
                match drop {
                    CloseS::Closed => "c".to_string(),
                    d => format!("o{}", d.text()),
                }
            ),
            Case::Flavor { mt, .. } => format!("flavor {}", if *mt { "mt" } else { "ct" }),
            Case::Enable { mask } => format!("enable {}", bits(mask)),
            Case::Stale { ids } => format!("stale {}", ids.iter().map(|f| f.to_string()).collect::<Vec<_>>().join(" ")),
        }
    }
}

// ------------------------------------------------------------------------------------------------
// the scripted link
// ------------------------------------------------------------------------------------------------

#[derive(Clone, Debug, PartialEq, Eq)]
enum Call {
    Open(bool),
    Close(bool),
    Update(bool),
    IsOpen(bool),
    Send(Vec<(u8, u8)>, bool),
    Recv(Option<Vec<(u8, u8)>>, bool), // (ack, data) per device; late flag as scripted
    Overrun(&'static str),
}

fn show_calls(cs: &[Call]) -> String {
    cs.iter()
        .map(|c| match c {
            Call::Open(ok) => (if *ok { "n" } else { "N" }).to_string(),
            Call::Close(ok) => (if *ok { "k" } else { "K" }).to_string(),
            Call::Update(ok) => (if *ok { "u" } else { "U" }).to_string(),
            Call::IsOpen(b) => (if *b { "o" } else { "c" }).to_string(),
            Call::Send(tx, ok) => format!(
                "{}{}",
                if *ok { "s" } else { "S" },
                tx.iter().map(|(i, t)| format!("{i:02x}.{t:02x}")).collect::<Vec<_>>().join(",")
            ),
            Call::Recv(None, _) => "R".to_string(),
            Call::Recv(Some(rx), _) => {
                format!("r{}", rx.iter().map(|(a, d)| format!("{a:02x}{d:02x}")).collect::<Vec<_>>().join(","))
            }
            Call::Overrun(w) => format!("?{w}"),
        })
        .collect::<Vec<_>>()
        .join(" ")
}

#[derive(Default)]
struct LinkState {
    q_open: VecDeque<bool>,
    q_close: VecDeque<bool>,
    q_update: VecDeque<bool>,
    q_is_open: VecDeque<bool>,
    q_send: VecDeque<bool>,
    q_recv: VecDeque<(Recv, bool)>,
    calls: Vec<Call>,
    /// ids of the frame seen by the last `send`
    cur_ids: Vec<u8>,
    /// `Device::enable` at the start of the API call (timing bookkeeping only: which polls end the wait)
    enabled: Vec<bool>,
    /// the timeout in force for the API call being run (None = no lateness can be scripted)
    timeout: Option<Duration>,
    t_send_end: Option<Instant>,
    delta1: Option<Duration>,
    watch: bool,
    compromised: bool,
    overrun: bool,
    /// not scripted any more: `is_open` answers false silently (used to dispose of a controller)
    dead: bool,
    n_calls: u64,
    why: &'static str,
}

impl LinkState {
    /// called on entry of every link call: settle the timing bookkeeping of the previous poll
    fn enter(&mut self) {
        self.n_calls += 1;
        if let Some(t0) = self.t_send_end {
            let el = t0.elapsed();
            if self.delta1.is_none() {
                self.delta1 = Some(el);
            }
            if self.watch {
                self.watch = false;
                if let Some(to) = self.timeout {
                    if el > to {
                        self.compromised = true;
                        self.why = "slow-nonlate-poll";
                    }
                }
            }
        }
    }
    fn settle(&mut self) {
        self.enter();
        self.n_calls -= 1;
    }
    fn do_open(&mut self) -> Result<(), LinkError> {
        self.enter();
        let ok = self.q_open.pop_front().unwrap_or_else(|| {
            self.overrun = true;
            false
        });
        self.calls.push(Call::Open(ok));
        if ok { Ok(()) } else { Err(LinkError::new("open")) }
    }
    fn do_close(&mut self) -> Result<(), LinkError> {
        self.enter();
        match self.q_close.pop_front() {
            Some(ok) => {
                self.calls.push(Call::Close(ok));
                if ok { Ok(()) } else { Err(LinkError::new("close")) }
            }
            None => {
                self.overrun = true;
                self.calls.push(Call::Overrun("close"));
                Err(LinkError::new("overrun"))
            }
        }
    }
    fn do_update(&mut self) -> Result<(), LinkError> {
        self.enter();
        self.t_send_end = None;
        self.delta1 = None;
        match self.q_update.pop_front() {
            Some(ok) => {
                self.calls.push(Call::Update(ok));
                if ok { Ok(()) } else { Err(LinkError::new("update")) }
            }
            None => {
                self.overrun = true;
                self.calls.push(Call::Overrun("update"));
                Err(LinkError::new("overrun"))
            }
        }
    }
    fn do_is_open(&mut self) -> bool {
        if self.dead {
            return false;
        }
        self.enter();
        match self.q_is_open.pop_front() {
            Some(b) => {
                self.calls.push(Call::IsOpen(b));
                b
            }
            None => {
                // the script is exhausted: the link is closed (this is also what `Drop` sees after
                // a `close`, where it is part of the expected trace)
                self.calls.push(Call::IsOpen(false));
                false
            }
        }
    }
    fn do_send(&mut self, tx: &[TxMessage]) -> Result<(), LinkError> {
        self.enter();
        let frame: Vec<(u8, u8)> = tx.iter().map(|t| (t.header.msg_id, t.payload()[0])).collect();
        let r = match self.q_send.pop_front() {
            Some(ok) => {
                self.calls.push(Call::Send(frame.clone(), ok));
                if ok { Ok(()) } else { Err(LinkError::new("send")) }
            }
            None => {
                self.overrun = true;
                self.calls.push(Call::Overrun("send"));
                Err(LinkError::new("overrun"))
            }
        };
        self.cur_ids = frame.iter().map(|f| f.0).collect();
        self.delta1 = None;
        self.t_send_end = Some(Instant::now());
        r
    }
    fn resolve(&self, kinds: &[Kind], base: u8, rx: &mut [RxMessage]) {
        for (i, (r, k)) in rx.iter_mut().zip(kinds.iter()).enumerate() {
            let id = self.cur_ids.get(i).copied().unwrap_or(0);
            let ack = match k {
                Kind::R => id,
                Kind::P => ((id as u32 + 127) % 128) as u8,
                Kind::G => ((id as u32 + 64) % 128) as u8,
                Kind::E(c) => *c,
            };
            *r = RxMessage::new(base.wrapping_add(i as u8), ack);
        }
    }
    fn do_receive(&mut self, rx: &mut [RxMessage]) -> Result<(), LinkError> {
        self.enter();
        if self.n_calls > 200_000 {
            self.overrun = true;
            return Err(LinkError::new("runaway"));
        }
        match self.q_recv.pop_front() {
            Some((recv, late)) => {
                let r = match &recv {
                    Recv::Err => {
                        self.calls.push(Call::Recv(None, late));
                        Err(LinkError::new("receive"))
                    }
                    Recv::Rx { kinds, base } => {
                        self.resolve(kinds, *base, rx);
                        self.calls.push(Call::Recv(Some(rx.iter().map(|r| (r.ack(), r.data())).collect()), late));
                        Ok(())
                    }
                };
                if late {
                    // make `start.elapsed() > timeout` certainly true for the sender: its `start`
                    // lies between the end of `send` and the first call after it (delta1 later)
                    if let (Some(to), Some(t0)) = (self.timeout, self.t_send_end) {
                        let until = to + self.delta1.unwrap_or_default() + Duration::from_micros(300);
                        loop {
                            let el = t0.elapsed();
                            if el > until {
                                break;
                            }
                            let rest = until - el;
                            if rest > Duration::from_micros(200) {
                                std::thread::sleep(rest);
                            } else {
                                std::hint::spin_loop();
                            }
                        }
                    } else {
                        // lateness scripted where the harness cannot realise it
                        self.compromised = true;
                        self.why = "late-unrealisable";
                    }
                } else if r.is_ok()
                    && !(rx.len() == self.cur_ids.len()
                        && rx.iter().zip(self.cur_ids.iter()).enumerate().all(|(i, (r, id))| !self.enabled.get(i).copied().unwrap_or(true) || r.ack() == *id))
                {
                    // the sender will now consult the clock and must find the timeout not expired
                    self.watch = true;
                }
                r
            }
            None => {
                self.overrun = true;
                self.calls.push(Call::Overrun("receive"));
                Err(LinkError::new("overrun"))
            }
        }
    }
    fn load_send(&mut self, s: &SendS) {
        self.q_update.push_back(s.update_ok);
        for f in &s.frames {
            self.q_is_open.push_back(f.open);
            if !f.open {
                continue; // nothing else of this frame is asked
            }
            self.q_send.push_back(f.send_ok);
            for p in &f.polls {
                match p {
                    PollS::Closed => self.q_is_open.push_back(false),
                    PollS::Poll { recv, late } => {
                        self.q_is_open.push_back(true);
                        self.q_recv.push_back((recv.clone(), *late));
                    }
                }
            }
        }
    }
    fn load_close(&mut self, c: &CloseS) {
        match c {
            CloseS::Closed => self.q_is_open.push_back(false),
            CloseS::Open { sends, close_ok } => {
                self.q_is_open.push_back(true);
                for s in sends {
                    self.load_send(s);
                }
                self.q_close.push_back(*close_ok);
            }
        }
    }
    fn reset_script(&mut self, timeout: Option<Duration>) {
        self.q_open.clear();
        self.q_close.clear();
        self.q_update.clear();
        self.q_is_open.clear();
        self.q_send.clear();
        self.q_recv.clear();
        self.calls.clear();
        self.timeout = timeout;
        self.t_send_end = None;
        self.delta1 = None;
        self.watch = false;
        self.overrun = false;
        self.n_calls = 0;
    }
    fn leftover(&self) -> usize {
        self.q_open.len() + self.q_close.len() + self.q_update.len() + self.q_is_open.len() + self.q_send.len() + self.q_recv.len()
    }
}

#[derive(Clone)]
struct ScriptLink(Arc<Mutex<LinkState>>);

impl Link for ScriptLink {
    fn open(&mut self, _: &Geometry) -> Result<(), LinkError> {
        self.0.lock().unwrap().do_open()
    }
    fn close(&mut self) -> Result<(), LinkError> {
        self.0.lock().unwrap().do_close()
    }
    fn update(&mut self, _: &Geometry) -> Result<(), LinkError> {
        self.0.lock().unwrap().do_update()
    }
    fn send(&mut self, tx: &[TxMessage]) -> Result<(), LinkError> {
        self.0.lock().unwrap().do_send(tx)
    }
    fn receive(&mut self, rx: &mut [RxMessage]) -> Result<(), LinkError> {
        self.0.lock().unwrap().do_receive(rx)
    }
    fn is_open(&self) -> bool {
        self.0.lock().unwrap().do_is_open()
    }
}

#[autd3_core::async_trait]
impl AsyncLink for ScriptLink {
    async fn open(&mut self, _: &Geometry) -> Result<(), LinkError> {
        tokio::task::yield_now().await;
        self.0.lock().unwrap().do_open()
    }
    async fn close(&mut self) -> Result<(), LinkError> {
        tokio::task::yield_now().await;
        self.0.lock().unwrap().do_close()
    }
    async fn update(&mut self, _: &Geometry) -> Result<(), LinkError> {
        tokio::task::yield_now().await;
        self.0.lock().unwrap().do_update()
    }
    async fn send(&mut self, tx: &[TxMessage]) -> Result<(), LinkError> {
        tokio::task::yield_now().await;
        self.0.lock().unwrap().do_send(tx)
    }
    async fn receive(&mut self, rx: &mut [RxMessage]) -> Result<(), LinkError> {
        tokio::task::yield_now().await;
        self.0.lock().unwrap().do_receive(rx)
    }
    fn is_open(&self) -> bool {
        self.0.lock().unwrap().do_is_open()
    }
}

// ------------------------------------------------------------------------------------------------
// a datagram that takes a chosen number of frames per device
// ------------------------------------------------------------------------------------------------

#[derive(Debug)]
struct Frames {
    per_dev: Vec<u8>,
    timeout: Duration,
    gen_fail: bool,
}
struct FramesGen {
    per_dev: Vec<u8>,
}
struct FramesOp {
    rem: u8,
    seq: u8,
}
impl Operation for FramesOp {
    type Error = AUTDDriverError;
    fn required_size(&self, _: &Device) -> usize {
        2
    }
    fn pack(&mut self, _: &Device, tx: &mut [u8]) -> Result<usize, AUTDDriverError> {
        tx[0] = 0xEE;
        tx[1] = self.seq;
        self.seq = self.seq.wrapping_add(1);
        self.rem -= 1;
        Ok(2)
    }
    fn is_done(&self) -> bool {
        self.rem == 0
    }
}
impl OperationGenerator for FramesGen {
    type O1 = FramesOp;
    type O2 = NullOp;
    fn generate(&mut self, dev: &Device) -> (FramesOp, NullOp) {
        (FramesOp { rem: self.per_dev[dev.idx()], seq: 0 }, NullOp)
    }
}
impl Datagram for Frames {
    type G = FramesGen;
    type Error = AUTDDriverError;
    fn operation_generator(self, _: &Geometry, _: bool) -> Result<FramesGen, AUTDDriverError> {
        if self.gen_fail {
            return Err(AUTDDriverError::InvalidDateTime);
        }
        Ok(FramesGen { per_dev: self.per_dev })
    }
    fn option(&self) -> DatagramOption {
        DatagramOption { timeout: self.timeout, parallel_threshold: usize::MAX }
    }
}

/// The sleeper of every scripted case: it does not sleep, it **counts** how often the sender asked it to (once
/// after every receive that neither ended the wait nor timed out, once between two frames of a datagram).  The
/// count is compared between the two controllers (C11: an `.await` lost on a `sleep_until` call leaves the
/// future un-polled, the async sender busy-polls and this count stays behind) and with the number the link's
/// own record of the call implies; it is not part of the model line.
#[derive(Debug, Clone, Default)]
struct NoSleep {
    n: Arc<AtomicUsize>,
}
impl Sleep for NoSleep {
    fn sleep_until(&self, _: Instant) {
        self.n.fetch_add(1, Ordering::SeqCst);
    }
}
#[autd3_core::async_trait]
impl AsyncSleep for NoSleep {
    async fn sleep_until(&self, _: Instant) {
        self.n.fetch_add(1, Ordering::SeqCst);
        tokio::task::yield_now().await
    }
}

// ------------------------------------------------------------------------------------------------
// canonical results
// ------------------------------------------------------------------------------------------------

fn show_driver_err(e: &AUTDDriverError, generator_err: bool) -> String {
    match e {
        AUTDDriverError::Link(l) => format!("Link({l})"),
        AUTDDriverError::InvalidDateTime if generator_err => "Generator".into(),
        e => format!("{e:?}"),
    }
}
fn show_autd_err(e: &AUTDError) -> String {
    match e {
        AUTDError::Driver(d) => show_driver_err(d, false),
        AUTDError::ReadFirmwareVersionFailed(v) => {
            format!("ReadFirmwareVersionFailed[{}]", v.iter().map(|b| if *b { "t" } else { "f" }).collect::<Vec<_>>().join(","))
        }
        e => format!("{e:?}"),
    }
}

// ------------------------------------------------------------------------------------------------
// running cases on the real controllers
// ------------------------------------------------------------------------------------------------

enum Ctl {
    Sync(Controller<ScriptLink>),
    Async(autd3::r#async::Controller<ScriptLink>),
    /// the same controller after `into_boxed_link()`: every link call goes through `impl AsyncLink for Box<dyn AsyncLink>`
    AsyncBoxed(autd3::r#async::Controller<Box<dyn AsyncLink>>),
    /// the sync controller after `into_boxed_link()` (tx/rx buffers, message ids and geometry must move over unchanged)
    SyncBoxed(Controller<Box<dyn Link>>),
}

/// run `$s` on the sync controller or `$a` (inside `block_on` of runtime `$rt`) on the async one, plain or boxed
macro_rules! on_ctl {
    ($ctl:expr, $rt:expr, |$c:ident| sync $s:expr, async $a:expr) => {
        match $ctl {
            Ctl::Sync($c) => $s,
            Ctl::SyncBoxed($c) => $s,
            Ctl::Async($c) => $rt.block_on(async { $a }),
            Ctl::AsyncBoxed($c) => $rt.block_on(async { $a }),
        }
    };
}

struct Worker {
    is_async: bool,
    rt: tokio::runtime::Runtime,
    /// async workers: a multi-thread runtime (one worker thread) for the chunks that start with `flavor mt`
    rt_mt: Option<tokio::runtime::Runtime>,
    /// the controllers of the current chunk live on `rt_mt`
    mt: bool,
    /// async workers: the controllers of the current chunk are converted with `into_boxed_link()` after `open`
    /// (same op lines, same model; set per chunk by the driver loop)
    boxed: bool,
    /// how often the sender called `sleep_until` during the current call
    sleeps: Arc<AtomicUsize>,
    link: Arc<Mutex<LinkState>>,
    ctl: Option<Ctl>,
    n: usize,
    tick: u64,
}

struct Ran {
    answer: String,
    result: String,
    calls: Vec<Call>,
    /// `Device::enable` of every device when the call started (read back from the geometry)
    en: Vec<bool>,
    compromised: bool,
    why: &'static str,
    overrun: bool,
    leftover: usize,
    /// calls of `sleep_until` on the harness sleeper during the call (`open`, `send`, `sendx`: the other calls use
    /// the crate's default sleepers)
    sleeps: usize,
    /// the controller lived on the multi-thread runtime / behind `Box<dyn AsyncLink>`
    mt: bool,
    boxed: bool,
    /// the controller was dropped in this call while the scripted link said it was open, by a copy/flavour whose
    /// `Drop` closes (sync; async on a multi-thread runtime)
    drop_must_close: bool,
}

fn devices(n: usize) -> Vec<Device> {
    (0..n).map(|_| AUTD3 { pos: Point3::origin(), ..Default::default() }.into()).collect()
}

/// `zero_iv`: every other case runs with zero send/receive intervals (legal back-to-back polling). With the
/// no-op sleeper the intervals only feed `sleep_until`, so the answers (and the model) do not depend on them.
fn option(t: T, par: u8, zero_iv: bool, sleeps: &Arc<AtomicUsize>) -> SenderOption<NoSleep> {
    let iv = if zero_iv { Duration::ZERO } else { Duration::from_millis(1) };
    SenderOption {
        send_interval: iv,
        receive_interval: iv,
        timeout: t.dur(),
        parallel: match par {
            1 => ParallelMode::On,
            2 => ParallelMode::Off,
            _ => ParallelMode::Auto,
        },
        sleeper: NoSleep { n: sleeps.clone() },
    }
}

impl Worker {
    fn new(is_async: bool) -> Self {
        Worker {
            is_async,
            rt: tokio::runtime::Builder::new_current_thread().enable_time().build().unwrap(),
            rt_mt: if is_async { Some(tokio::runtime::Builder::new_multi_thread().worker_threads(1).enable_time().build().unwrap()) } else { None },
            mt: false,
            boxed: false,
            sleeps: Arc::new(AtomicUsize::new(0)),
            link: Arc::new(Mutex::new(LinkState::default())),
            ctl: None,
            n: 0,
            tick: 0,
        }
    }

    /// get rid of the current controller without its `Drop` talking to the (scripted) link
    fn dispose(&mut self) {
        self.link.lock().unwrap().dead = true;
        if let Some(c) = self.ctl.take() {
            let _g = self.rt.enter();
            drop(c);
        }
        self.link = Arc::new(Mutex::new(LinkState::default()));
    }

    /// does dropping this worker's controller close a link that says it is open?
    fn drop_closes(&self) -> bool {
        !self.is_async || self.mt
    }

    fn finish(&mut self, result: String) -> Ran {
        let mut l = self.link.lock().unwrap();
        l.settle();
        let calls = l.calls.clone();
        Ran {
            answer: format!("{result} | {}", show_calls(&calls)),
            result,
            calls,
            en: l.enabled.clone(),
            compromised: l.compromised,
            why: l.why,
            overrun: l.overrun,
            leftover: l.leftover(),
            sleeps: self.sleeps.load(Ordering::SeqCst),
            mt: self.mt,
            boxed: matches!(self.ctl, Some(Ctl::AsyncBoxed(_)) | Some(Ctl::SyncBoxed(_))),
            drop_must_close: false,
        }
    }

    fn run(&mut self, case: &Case) -> Ran {
        self.tick += 1;
        let zero_iv = self.tick % 2 == 0;
        watch(format!(
            "{} [{} controller{}{}, send/receive interval {}]",
            case.text(),
            if self.is_async { "async" } else { "sync" },
            if self.mt { " on a multi-thread runtime" } else { "" },
            if self.boxed { ", link boxed after open" } else { "" },
            if zero_iv { "0" } else { "1 ms" }
        ));
        let r = self.run_inner(case, zero_iv);
        unwatch();
        r
    }

    /// `Device::enable` of every device, read back from the controller's geometry
    fn enable_now(&self) -> Vec<bool> {
        match &self.ctl {
            Some(Ctl::Sync(c)) => c.geometry().iter().map(|d| d.enable).collect(),
            Some(Ctl::SyncBoxed(c)) => c.geometry().iter().map(|d| d.enable).collect(),
            Some(Ctl::Async(c)) => c.geometry().iter().map(|d| d.enable).collect(),
            Some(Ctl::AsyncBoxed(c)) => c.geometry().iter().map(|d| d.enable).collect(),
            None => vec![true; self.n],
        }
    }

    fn run_inner(&mut self, case: &Case, zero_iv: bool) -> Ran {
        if !matches!(case, Case::Open { .. } | Case::Stale { .. } | Case::Flavor { .. }) {
            let en = self.enable_now();
            self.link.lock().unwrap().enabled = en;
        }
        self.sleeps.store(0, Ordering::SeqCst);
        let sleeps = self.sleeps.clone();
        match case {
            Case::Flavor { mt, .. } => {
                // between controllers only (the driver loop puts it in front of an `open`)
                self.dispose();
                self.mt = *mt && self.is_async;
                let result = case.text();
                Ran { answer: result.clone(), result, calls: vec![], en: vec![], compromised: false, why: "", overrun: false, leftover: 0, sleeps: 0, mt: self.mt, boxed: false, drop_must_close: false }
            }
            Case::Enable { mask } => {
                self.link.lock().unwrap().reset_script(None);
                match self.ctl.as_mut().unwrap() {
                    Ctl::Sync(c) => c.geometry_mut().iter_mut().zip(mask.iter()).for_each(|(d, b)| d.enable = *b),
                    Ctl::SyncBoxed(c) => c.geometry_mut().iter_mut().zip(mask.iter()).for_each(|(d, b)| d.enable = *b),
                    Ctl::Async(c) => c.geometry_mut().iter_mut().zip(mask.iter()).for_each(|(d, b)| d.enable = *b),
                    Ctl::AsyncBoxed(c) => c.geometry_mut().iter_mut().zip(mask.iter()).for_each(|(d, b)| d.enable = *b),
                }
                let now = self.enable_now();
                let mut l = self.link.lock().unwrap();
                let result = format!("set {}", bits(&now));
                Ran { answer: result.clone(), result, calls: vec![], en: l.enabled.clone(), compromised: false, why: "", overrun: false, leftover: { l.settle(); 0 }, sleeps: 0, mt: self.mt, boxed: matches!(self.ctl, Some(Ctl::AsyncBoxed(_)) | Some(Ctl::SyncBoxed(_))), drop_must_close: false }
            }
            Case::Open { n, t, open_ok, ff, cs, drop } => {
                self.dispose();
                self.n = *n;
                self.link.lock().unwrap().enabled = vec![true; *n];
                let mut drop_entries;
                {
                    let mut l = self.link.lock().unwrap();
                    l.reset_script(Some(t.dur().unwrap_or(Duration::from_millis(DEFAULT_MS))));
                    l.compromised = false;
                    l.q_open.push_back(*open_ok);
                    l.load_send(ff);
                    l.load_send(cs);
                    drop_entries = l.leftover();
                    // Drop asks `is_open`; the sync copy's `close_impl` then asks again
                    if matches!(drop, CloseS::Open { .. }) {
                        l.q_is_open.push_back(true);
                    }
                    if !(!self.drop_closes() && matches!(drop, CloseS::Open { .. })) {
                        l.load_close(drop);
                    }
                    drop_entries = l.leftover() - drop_entries;
                }
                let link = ScriptLink(self.link.clone());
                let opt = option(*t, 0, zero_iv, &sleeps);
                let r = if self.is_async {
                    let rt = if self.mt { self.rt_mt.as_ref().unwrap() } else { &self.rt };
                    let r = rt.block_on(async { autd3::r#async::Controller::open_with_option(devices(*n), link, opt).await });
                    // same op line, same model: all further link calls go through the `Box<dyn AsyncLink>` forwarder
                    r.map(|c| if self.boxed { Ctl::AsyncBoxed(c.into_boxed_link()) } else { Ctl::Async(c) })
                } else {
                    // same op line, same model: the boxed controller must carry on with the same buffers and message ids
                    Controller::open_with_option(devices(*n), link, opt).map(|c| if self.boxed { Ctl::SyncBoxed(c.into_boxed_link()) } else { Ctl::Sync(c) })
                };
                let res = match r {
                    Ok(c) => {
                        self.ctl = Some(c);
                        "ok".to_string()
                    }
                    Err(e) => format!("err:{}", show_autd_err(&e)),
                };
                let mut ran = self.finish(res);
                if !*open_ok {
                    ran.leftover = 0;
                }
                if self.ctl.is_some() || !*open_ok {
                    // nothing was dropped: the drop script is not a leftover
                    ran.leftover = ran.leftover.saturating_sub(drop_entries);
                } else {
                    ran.drop_must_close = self.drop_closes() && matches!(drop, CloseS::Open { .. });
                }
                ran
            }
            Case::Send { t, td, par, frames, sc } => {
                let eff = t.dur().or(td.dur()).unwrap();
                {
                    let mut l = self.link.lock().unwrap();
                    l.reset_script(Some(eff));
                    l.load_send(sc);
                }
                let d = Frames { per_dev: frames.clone(), timeout: td.dur().unwrap(), gen_fail: false };
                let opt = option(*t, *par, zero_iv, &sleeps);
                let rt = if self.mt { self.rt_mt.as_ref().unwrap() } else { &self.rt };
                let r = on_ctl!(self.ctl.as_mut().unwrap(), rt, |c| sync c.sender(opt).send(d), async c.sender(opt).send(d).await);
                let res = match r {
                    Ok(()) => "ok".to_string(),
                    Err(e) => format!("err:{}", show_driver_err(&e, false)),
                };
                self.finish(res)
            }
            Case::SendX { t, td } => {
                self.link.lock().unwrap().reset_script(None);
                let d = Frames { per_dev: vec![1; self.n], timeout: td.dur().unwrap(), gen_fail: true };
                let opt = option(*t, 0, zero_iv, &sleeps);
                let rt = if self.mt { self.rt_mt.as_ref().unwrap() } else { &self.rt };
                let r = on_ctl!(self.ctl.as_mut().unwrap(), rt, |c| sync c.sender(opt).send(d), async c.sender(opt).send(d).await);
                let res = match r {
                    Ok(()) => "ok".to_string(),
                    Err(e) => format!("err:{}", show_driver_err(&e, true)),
                };
                self.finish(res)
            }
            Case::FwVer { scs } => {
                {
                    let mut l = self.link.lock().unwrap();
                    l.reset_script(Some(Duration::from_millis(DEFAULT_MS)));
                    for s in scs {
                        // `u` alone is the placeholder for a fetch that is never reached
                        if !(s.update_ok && s.frames.is_empty()) {
                            l.load_send(s);
                        }
                    }
                }
                let rt = if self.mt { self.rt_mt.as_ref().unwrap() } else { &self.rt };
                let r = on_ctl!(self.ctl.as_mut().unwrap(), rt, |c| sync c.firmware_version(), async c.firmware_version().await);
                let res = match r {
                    Ok(v) => format!(
                        "ok:[{}]",
                        v.iter()
                            .map(|f| format!(
                                "{}:{}.{}.{}.{}.{}",
                                f.idx, f.cpu.major.0, f.cpu.minor.0, f.fpga.major.0, f.fpga.minor.0, f.fpga.function_bits
                            ))
                            .collect::<Vec<_>>()
                            .join(",")
                    ),
                    Err(e) => format!("err:{}", show_autd_err(&e)),
                };
                self.finish(res)
            }
            Case::Fpga { open, recv } => {
                {
                    let mut l = self.link.lock().unwrap();
                    l.reset_script(None);
                    l.q_is_open.push_back(*open);
                    l.q_recv.push_back((recv.clone(), false));
                }
                let rt = if self.mt { self.rt_mt.as_ref().unwrap() } else { &self.rt };
                let r = on_ctl!(self.ctl.as_mut().unwrap(), rt, |c| sync c.fpga_state(), async c.fpga_state().await);
                let res = match r {
                    Ok(v) => format!(
                        "ok:[{}]",
                        v.iter()
                            .map(|s| match s {
                                Some(s) => format!("some({:02x})", s.state()),
                                None => "none".to_string(),
                            })
                            .collect::<Vec<_>>()
                            .join(",")
                    ),
                    Err(e) => format!("err:{}", show_autd_err(&e)),
                };
                let mut ran = self.finish(res);
                // the unused scripted receive of a closed link is not a leftover
                ran.leftover = 0;
                ran
            }
            Case::Close { c, drop } => {
                let drop_entries;
                {
                    let mut l = self.link.lock().unwrap();
                    l.reset_script(Some(Duration::from_millis(DEFAULT_MS)));
                    l.load_close(c);
                    // close_impl enables every device before it sends (timing bookkeeping of the link only;
                    // `Ran::en` keeps the flags as they were before the call)
                    if matches!(c, CloseS::Open { .. }) {
                        l.enabled = vec![true; self.n];
                    }
                    // `close(self)` ends with `Drop`: it asks `is_open` (an exhausted script answers "closed");
                    // a copy whose `Drop` closes then runs `close_impl`, which asks again
                    let before = l.leftover();
                    if matches!(drop, CloseS::Open { .. }) {
                        l.q_is_open.push_back(true);
                        l.enabled = vec![true; self.n];
                        if self.drop_closes() {
                            l.load_close(drop);
                        }
                    }
                    drop_entries = l.leftover() - before;
                }
                let _ = drop_entries;
                let en_before = self.enable_now();
                let rt = if self.mt { self.rt_mt.as_ref().unwrap() } else { &self.rt };
                let was_boxed = matches!(self.ctl, Some(Ctl::AsyncBoxed(_)) | Some(Ctl::SyncBoxed(_)));
                let r = match self.ctl.take().unwrap() {
                    Ctl::Sync(c) => c.close(),
                    Ctl::SyncBoxed(c) if self.tick % 4 < 2 => {
                        let c = unsafe { Controller::<ScriptLink>::from_boxed_link(c) };
                        c.close()
                    }
                    Ctl::SyncBoxed(c) => c.close(),
                    Ctl::Async(c) => rt.block_on(async { c.close().await }),
                    // every other time: back through `from_boxed_link` first
                    Ctl::AsyncBoxed(c) if self.tick % 4 < 2 => {
                        let c = unsafe { autd3::r#async::Controller::<ScriptLink>::from_boxed_link(c) };
                        rt.block_on(async { c.close().await })
                    }
                    Ctl::AsyncBoxed(c) => rt.block_on(async { c.close().await }),
                };
                let res = match r {
                    Ok(()) => "ok".to_string(),
                    Err(e) => format!("err:{}", show_driver_err(&e, false)),
                };
                let mut ran = self.finish(res);
                ran.en = en_before;
                ran.boxed = was_boxed;
                ran.drop_must_close = self.drop_closes() && matches!(drop, CloseS::Open { .. });
                ran
            }
            Case::Stale { ids } => {
                self.dispose();
                run_stale(self, ids)
            }
        }
    }
}

/// a panic inside the crates is an answer (`panic`); the worker starts over with a fresh link
fn run_guarded(w: &mut Worker, case: &Case) -> Ran {
    match guarded(|| w.run(case)) {
        Ok(r) => r,
        Err(msg) => {
            let calls = w.link.lock().map(|l| l.calls.clone()).unwrap_or_default();
            if let Some(c) = w.ctl.take() {
                std::mem::forget(c);
            }
            w.link = Arc::new(Mutex::new(LinkState::default()));
            let first = msg.lines().next().unwrap_or("").chars().take(80).collect::<String>();
            Ran { answer: format!("panic | {}", show_calls(&calls)), result: format!("panic({first})"), calls, en: vec![], compromised: false, why: "", overrun: false, leftover: 0, sleeps: 0, mt: w.mt, boxed: w.boxed, drop_must_close: false }
        }
    }
}

// ------------------------------------------------------------------------------------------------
// left-over message ids on real emulators
// ------------------------------------------------------------------------------------------------

struct EmuLink {
    cpus: Arc<Mutex<Vec<CPUEmulator>>>,
    open: bool,
    acks: Arc<Mutex<Vec<String>>>,
    /// the first `fail_sends` calls of `send` answer `Err` without delivering anything
    fail_sends: usize,
}
impl EmuLink {
    fn do_send(&mut self, tx: &[TxMessage]) {
        for c in self.cpus.lock().unwrap().iter_mut() {
            c.send(tx);
        }
    }
    fn do_recv(&mut self, rx: &mut [RxMessage]) {
        let cpus = self.cpus.lock().unwrap();
        for (r, c) in rx.iter_mut().zip(cpus.iter()) {
            *r = c.rx();
        }
        self.acks.lock().unwrap().push(rx.iter().map(|r| format!("{:02x}", r.ack())).collect::<Vec<_>>().join(","));
    }
}
impl Link for EmuLink {
    fn open(&mut self, _: &Geometry) -> Result<(), LinkError> {
        self.open = true;
        Ok(())
    }
    fn close(&mut self) -> Result<(), LinkError> {
        self.open = false;
        Ok(())
    }
    fn send(&mut self, tx: &[TxMessage]) -> Result<(), LinkError> {
        if self.fail_sends > 0 {
            self.fail_sends -= 1;
            return Err(LinkError::new("send"));
        }
        self.do_send(tx);
        Ok(())
    }
    fn receive(&mut self, rx: &mut [RxMessage]) -> Result<(), LinkError> {
        self.do_recv(rx);
        Ok(())
    }
    fn is_open(&self) -> bool {
        self.open
    }
}
#[autd3_core::async_trait]
impl AsyncLink for EmuLink {
    async fn open(&mut self, _: &Geometry) -> Result<(), LinkError> {
        self.open = true;
        Ok(())
    }
    async fn close(&mut self) -> Result<(), LinkError> {
        self.open = false;
        Ok(())
    }
    async fn send(&mut self, tx: &[TxMessage]) -> Result<(), LinkError> {
        tokio::task::yield_now().await;
        self.do_send(tx);
        Ok(())
    }
    async fn receive(&mut self, rx: &mut [RxMessage]) -> Result<(), LinkError> {
        tokio::task::yield_now().await;
        self.do_recv(rx);
        Ok(())
    }
    fn is_open(&self) -> bool {
        self.open
    }
}

/// devices left by a previous session with `last_msg_id = ack = id` and with read-back of the FPGA
/// state enabled (a setting `Clear` resets); open a controller; send one real datagram.
/// Answer: `<open result> clear=<per device 0/1> sync=<…> first=<…>` (first = the datagram after
/// open took effect), with the acknowledgements every poll returned.
fn run_stale(w: &mut Worker, ids: &[u8]) -> Ran {
    let n = ids.len();
    let mut cpus: Vec<CPUEmulator> = (0..n).map(|i| CPUEmulator::new(i, 249)).collect();
    {
        // previous session: enable reads_fpga_state on every device
        let g = crate::dev::create_geometry(n);
        let mut tx = crate::dev::new_tx(n);
        crate::dev::send_with(&mut cpus, ReadsFPGAState::new(|_| true), &g, &mut tx, |_, _| {}).unwrap();
    }
    for (c, id) in cpus.iter_mut().zip(ids) {
        assert!(c.reads_fpga_state());
        c.set_last_msg_id(*id);
    }
    let cpus = Arc::new(Mutex::new(cpus));
    let acks = Arc::new(Mutex::new(vec![]));
    let link = EmuLink { cpus: cpus.clone(), open: false, acks: acks.clone(), fail_sends: 0 };
    let opt = option(T::S, 0, false, &w.sleeps);
    let mut clear = vec![false; n];
    let mut sync = vec![false; n];
    let mut first = vec![false; n];
    let snapshot = |clear: &mut Vec<bool>, sync: &mut Vec<bool>| {
        for (i, c) in cpus.lock().unwrap().iter().enumerate() {
            clear[i] = !c.reads_fpga_state();
            sync[i] = c.synchronized();
        }
    };
    let res = if w.is_async {
        w.rt.block_on(async {
            match autd3::r#async::Controller::open_with_option(devices(n), link, opt.clone()).await {
                Ok(mut c) => {
                    snapshot(&mut clear, &mut sync);
                    let r = c.sender(opt).send(ReadsFPGAState::new(|_| true)).await;
                    for (i, cpu) in cpus.lock().unwrap().iter().enumerate() {
                        first[i] = cpu.reads_fpga_state();
                    }
                    let s = match r {
                        Ok(()) => "ok/ok".to_string(),
                        Err(e) => format!("ok/err:{}", show_driver_err(&e, false)),
                    };
                    let _ = c.close().await;
                    s
                }
                Err(e) => {
                    snapshot(&mut clear, &mut sync);
                    format!("err:{}", show_autd_err(&e))
                }
            }
        })
    } else {
        match Controller::open_with_option(devices(n), link, opt.clone()) {
            Ok(mut c) => {
                snapshot(&mut clear, &mut sync);
                let r = c.sender(opt).send(ReadsFPGAState::new(|_| true));
                for (i, cpu) in cpus.lock().unwrap().iter().enumerate() {
                    first[i] = cpu.reads_fpga_state();
                }
                let s = match r {
                    Ok(()) => "ok/ok".to_string(),
                    Err(e) => format!("ok/err:{}", show_driver_err(&e, false)),
                };
                let _ = c.close();
                s
            }
            Err(e) => {
                snapshot(&mut clear, &mut sync);
                format!("err:{}", show_autd_err(&e))
            }
        }
    };
    let bits = |v: &[bool]| v.iter().map(|b| if *b { '1' } else { '0' }).collect::<String>();
    // only the polls of open and of the first datagram are compared (close follows)
    let acks = acks.lock().unwrap();
    let shown = acks.iter().take(3).cloned().collect::<Vec<_>>().join(" ");
    let result = format!("{res} clear={} sync={} first={}", bits(&clear), bits(&sync), bits(&first));
    Ran { answer: format!("{result} | {shown}"), result, calls: vec![], en: vec![true; n], compromised: false, why: "", overrun: false, leftover: 0, sleeps: 0, mt: false, boxed: false, drop_must_close: false }
}


// ------------------------------------------------------------------------------------------------
// C11, oracle only: programs over the whole controller API with real datagrams and real emulators,
// run through both controllers; everything observable must be equal
// ------------------------------------------------------------------------------------------------

#[derive(Clone, Debug)]
enum DG {
    Clear,
    Sync,
    Silencer,
    Static(u8),
    Sine(u32),
    Uniform(u8, u8),
    Null,
    StaticNull(u8),
    SineGainStm(u32, u8),
    GainStm(u8, u8),
    FociStm(u8),
    ReadsFpga(bool),
    ForceFan(bool),
    /// fails in `operation_generator`
    Bad,
}

fn build(d: &DG) -> autd3_driver::datagram::BoxedDatagram {
    use autd3_driver::datagram::IntoBoxedDatagram;
    let uni = |i: u8, p: u8| Uniform { intensity: EmitIntensity(i), phase: Phase(p) };
    match d.clone() {
        DG::Clear => Clear::new().into_boxed(),
        DG::Sync => autd3_driver::datagram::Synchronize::new().into_boxed(),
        DG::Silencer => Silencer::default().into_boxed(),
        DG::Static(i) => Static { intensity: i }.into_boxed(),
        DG::Sine(f) => Sine { freq: f * Hz, option: Default::default() }.into_boxed(),
        DG::Uniform(i, p) => uni(i, p).into_boxed(),
        DG::Null => Null {}.into_boxed(),
        DG::StaticNull(i) => (Static { intensity: i }, Null {}).into_boxed(),
        DG::SineGainStm(f, n) => (
            Sine { freq: f * Hz, option: Default::default() },
            GainSTM { gains: (0..n.max(2)).map(|k| uni(0x80 + k, k)).collect::<Vec<_>>(), config: 1. * Hz, option: Default::default() },
        )
            .into_boxed(),
        DG::GainStm(n, i) => GainSTM { gains: (0..n.max(2)).map(|k| uni(i, k)).collect::<Vec<_>>(), config: 1. * Hz, option: Default::default() }.into_boxed(),
        DG::FociStm(n) => FociSTM { foci: (0..n.max(2)).map(|k| Point3::new(k as f32, 0., 150.)).collect::<Vec<_>>(), config: 1. * Hz }.into_boxed(),
        DG::ReadsFpga(b) => ReadsFPGAState::new(move |_| b).into_boxed(),
        DG::ForceFan(b) => ForceFan::new(move |_| b).into_boxed(),
        DG::Bad => Frames { per_dev: vec![], timeout: Duration::from_millis(1), gen_fail: true }.into_boxed(),
    }
}

/// which real sleeper a program step hands to the sender
#[derive(Clone, Copy, Debug, PartialEq, Eq)]
enum Slp {
    /// `StdSleeper` (both copies)
    Std,
    /// `SpinSleeper` (both copies)
    Spin,
    /// `AsyncSleeper` (tokio timer) in the async copy, `SpinSleeper` (the sync default) in the sync copy
    Tokio,
}

/// send/receive interval of the steps that use a real sleeper
const PACE_MS: u64 = 2;

#[derive(Clone, Debug)]
enum POp {
    Send(DG),
    /// key = idx % modulus, devices with idx % modulus == none_rem get no key; datagram per key
    Group { modulus: usize, none_rem: Option<usize>, dgs: Vec<(usize, DG)>, par: u8 },
    FwVer,
    Fpga,
    Enable(usize, bool),
    /// `Controller::send`: the default-option shortcut (1 ms intervals, the datagram's own timeout, the crate's
    /// default sleeper: `AsyncSleeper` / `SpinSleeper`)
    SendDefault(DG),
    /// `Controller::group_send`: the same shortcut
    GroupDefault { modulus: usize, none_rem: Option<usize>, dgs: Vec<(usize, DG)> },
    /// `sender(SenderOption { sleeper, send_interval: PACE_MS, receive_interval: PACE_MS, .. }).send(..)`
    SendSlp(Slp, DG),
    /// … `.group_send(..)`
    GroupSlp { slp: Slp, modulus: usize, none_rem: Option<usize>, dgs: Vec<(usize, DG)> },
}

/// where a program runs (the async copy; the sync copy ignores `mt`/`boxed`)
#[derive(Clone, Copy, Debug, PartialEq, Eq)]
struct ProgEnv {
    /// multi-thread tokio runtime (one worker thread) instead of a current-thread one
    mt: bool,
    /// `into_boxed_link()` right after open: every link call goes through `impl AsyncLink for Box<dyn AsyncLink>`
    boxed: bool,
    /// the program ends by dropping the controller instead of closing it (multi-thread runtime only: there the
    /// async `Drop` must close like the sync one; on a current-thread runtime it intentionally does nothing)
    end_drop: bool,
}

struct ProgLog {
    lines: Vec<String>,
    /// frames (2nd, 3rd, … of a datagram) that the link saw earlier than `k x send_interval` after the datagram's
    /// `link.update`: the sender did not wait for its slot
    early: Vec<String>,
    /// frames to which that bound applied
    paced: usize,
}

fn rand_dg(rng: &mut Rng) -> DG {
    match rng.below(14) {
        0 => DG::Clear,
        1 => DG::Sync,
        2 => DG::Silencer,
        3 => DG::Static(rng.below(256) as u8),
        4 => DG::Sine(*rng.pick(&[50u32, 100, 150, 200])),
        5 => DG::Uniform(rng.below(256) as u8, rng.below(256) as u8),
        6 => DG::Null,
        7 => DG::StaticNull(rng.below(256) as u8),
        // sizes whose sampling frequency (size x 1 Hz) is invalid fail at *pack* time (3, 7, 11)
        8 => DG::SineGainStm(*rng.pick(&[100u32, 150]), *rng.pick(&[2u8, 4, 5, 2, 4, 3])),
        9 => DG::GainStm(*rng.pick(&[2u8, 4, 5, 8, 2, 4, 7]), rng.below(256) as u8),
        10 => DG::FociStm(*rng.pick(&[2u8, 4, 5, 8, 10, 16, 20, 25, 11, 3])),
        11 => DG::ReadsFpga(rng.chance(1, 2)),
        12 => DG::ForceFan(rng.chance(1, 2)),
        _ => DG::Uniform(0xFF, 0),
    }
}

/// datagrams that take several frames (so that `send_interval` and the sleeper matter), mixed with the others
fn rand_dg_paced(rng: &mut Rng) -> DG {
    match rng.below(6) {
        0 => DG::GainStm(*rng.pick(&[5u8, 8, 4]), rng.below(256) as u8),
        1 => DG::FociStm(*rng.pick(&[25u8, 20, 16])),
        2 => DG::SineGainStm(*rng.pick(&[100u32, 150]), *rng.pick(&[4u8, 5])),
        3 => DG::GainStm(2, rng.below(256) as u8),
        _ => rand_dg(rng),
    }
}

fn rand_group(rng: &mut Rng, n: usize, paced: bool) -> (usize, Option<usize>, Vec<(usize, DG)>, u8) {
    let modulus = 1 + rng.below(n.min(3) as u64) as usize;
    let none_rem = if rng.chance(1, 3) { Some(rng.below(modulus as u64 + 1) as usize) } else { None };
    let mut dgs: Vec<(usize, DG)> = (0..modulus).filter(|k| Some(*k) != none_rem).map(|k| (k, if paced { rand_dg_paced(rng) } else { rand_dg(rng) })).collect();
    // at most one anomaly per call, so that HashMap iteration order cannot matter. A datagram whose
    // STM size gives an invalid sampling frequency is an anomaly too (it is refused when its
    // operation generator is built): keep at most one of those and plant nothing else next to it
    let fails = |d: &DG| matches!(d, DG::SineGainStm(_, 3) | DG::GainStm(7, _) | DG::FociStm(11 | 3) | DG::Bad);
    let mut seen_failing = false;
    for (_, d) in dgs.iter_mut() {
        if fails(d) {
            if seen_failing {
                *d = DG::Null;
            }
            seen_failing = true;
        }
    }
    match if seen_failing { 7 } else { rng.below(8) } {
        0 if !dgs.is_empty() => {
            dgs.remove(0); // unknown key
        }
        1 => dgs.push((7, DG::Null)), // unused key
        2 if !dgs.is_empty() => dgs[0].1 = DG::Bad,
        _ => {}
    }
    // a pack-time failure under parallel packing leaves schedule-dependent message ids
    // (DESIGN observation O4): such calls are made with serial packing only
    let pack_fails = dgs.iter().any(|(_, d)| matches!(d, DG::SineGainStm(_, 3) | DG::GainStm(7, _) | DG::FociStm(11 | 3)));
    let par = if pack_fails { 2 } else { rng.below(3) as u8 };
    (modulus, none_rem, dgs, par)
}

fn rand_slp(rng: &mut Rng) -> Slp {
    *rng.pick(&[Slp::Tokio, Slp::Tokio, Slp::Std, Slp::Spin])
}

fn rand_program(rng: &mut Rng, n: usize) -> Vec<POp> {
    let len = 3 + rng.below(8) as usize;
    let mut ops = vec![];
    for _ in 0..len {
        ops.push(match rng.below(13) {
            0 | 1 | 2 => POp::Send(if rng.chance(1, 12) { DG::Bad } else { rand_dg(rng) }),
            3 | 4 | 5 | 6 => {
                let (modulus, none_rem, dgs, par) = rand_group(rng, n, false);
                POp::Group { modulus, none_rem, dgs, par }
            }
            7 => POp::FwVer,
            8 => POp::Fpga,
            9 => POp::Enable(rng.below(n as u64) as usize, rng.chance(1, 2)),
            10 => POp::SendDefault(rand_dg_paced(rng)),
            11 => {
                // the shortcuts pack with `ParallelMode::Auto`: keep pack-time failures out (observation O4)
                let (modulus, none_rem, mut dgs, _) = rand_group(rng, n, true);
                for (_, d) in dgs.iter_mut() {
                    if matches!(d, DG::SineGainStm(_, 3) | DG::GainStm(7, _) | DG::FociStm(11 | 3)) {
                        *d = DG::GainStm(4, 9);
                    }
                }
                if rng.chance(1, 2) { POp::GroupDefault { modulus, none_rem, dgs } } else { POp::GroupSlp { slp: rand_slp(rng), modulus, none_rem, dgs } }
            }
            _ => POp::SendSlp(rand_slp(rng), rand_dg_paced(rng)),
        });
    }
    ops
}

/// corpus: every new kind of step with datagrams of several frames (the send-interval path of the real sleepers)
fn corpus_programs() -> Vec<(usize, Vec<POp>)> {
    let g = |dgs: Vec<(usize, DG)>| (2usize, None::<usize>, dgs);
    let (m, nr, dgs) = g(vec![(0, DG::GainStm(8, 0x55)), (1, DG::FociStm(25))]);
    vec![
        (2, vec![POp::SendSlp(Slp::Tokio, DG::GainStm(8, 0x80)), POp::SendSlp(Slp::Std, DG::GainStm(5, 1)), POp::SendSlp(Slp::Spin, DG::FociStm(25)), POp::SendDefault(DG::GainStm(8, 3)), POp::Fpga]),
        (3, vec![POp::GroupDefault { modulus: m, none_rem: nr, dgs: dgs.clone() }, POp::GroupSlp { slp: Slp::Tokio, modulus: m, none_rem: nr, dgs: dgs.clone() }, POp::Enable(1, false), POp::GroupSlp { slp: Slp::Std, modulus: 3, none_rem: Some(1), dgs: vec![(0, DG::GainStm(5, 7)), (2, DG::SineGainStm(150, 4))] }, POp::FwVer]),
        (1, vec![POp::Send(DG::GainStm(8, 1)), POp::SendDefault(DG::SineGainStm(100, 5)), POp::SendSlp(Slp::Tokio, DG::FociStm(20)), POp::SendSlp(Slp::Tokio, DG::Bad), POp::SendDefault(DG::Clear)]),
    ]
}

#[derive(Default)]
struct Pace {
    /// `send_interval` of the step being run; zero = no bound applies (no-op sleeper, single-frame calls)
    interval: Duration,
    t_update: Option<Instant>,
    k: u32,
    early: Vec<String>,
    paced: usize,
}

struct RecLink {
    inner: EmuLink,
    frames: Arc<Mutex<Vec<String>>>,
    pace: Arc<Mutex<Pace>>,
}
impl RecLink {
    fn rec_update(&self) {
        // part of the compared record: a wrapper that swallows `link.update` shows here
        self.frames.lock().unwrap().push("u".into());
        let mut p = self.pace.lock().unwrap();
        p.t_update = Some(Instant::now());
        p.k = 0;
    }
    fn rec(&self, tx: &[TxMessage]) {
        use zerocopy::IntoBytes;
        {
            // One-sided and load-proof: `send_impl` takes `send_timing = Instant::now()` after `link.update`
            // returned and lets frame k (k >= 1) out only after `sleep_until(send_timing + k x send_interval)`;
            // a busy machine can only make a frame later, never earlier.  Never compared between runs.
            let mut p = self.pace.lock().unwrap();
            if let Some(t0) = p.t_update {
                let el = t0.elapsed();
                let k = p.k;
                if k >= 1 && !p.interval.is_zero() {
                    p.paced += 1;
                    if el < p.interval * k {
                        let iv = p.interval;
                        p.early.push(format!("frame {k} of a datagram left {} us after link.update (send_interval {} us: not before {} us)", el.as_micros(), iv.as_micros(), (iv * k).as_micros()));
                    }
                }
                p.k += 1;
            }
        }
        let mut h = vec![];
        for t in tx {
            h.push(format!("{:02x}:{:016x}", t.header.msg_id, fnv64(t.as_bytes())));
        }
        self.frames.lock().unwrap().push(h.join(","));
    }
}
impl Link for RecLink {
    fn open(&mut self, g: &Geometry) -> Result<(), LinkError> {
        Link::open(&mut self.inner, g)
    }
    fn close(&mut self) -> Result<(), LinkError> {
        self.frames.lock().unwrap().push("k".into());
        Link::close(&mut self.inner)
    }
    fn update(&mut self, _: &Geometry) -> Result<(), LinkError> {
        self.rec_update();
        Ok(())
    }
    fn send(&mut self, tx: &[TxMessage]) -> Result<(), LinkError> {
        self.rec(tx);
        Link::send(&mut self.inner, tx)
    }
    fn receive(&mut self, rx: &mut [RxMessage]) -> Result<(), LinkError> {
        Link::receive(&mut self.inner, rx)
    }
    fn is_open(&self) -> bool {
        Link::is_open(&self.inner)
    }
}
#[autd3_core::async_trait]
impl AsyncLink for RecLink {
    async fn open(&mut self, g: &Geometry) -> Result<(), LinkError> {
        AsyncLink::open(&mut self.inner, g).await
    }
    async fn close(&mut self) -> Result<(), LinkError> {
        self.frames.lock().unwrap().push("k".into());
        AsyncLink::close(&mut self.inner).await
    }
    async fn update(&mut self, _: &Geometry) -> Result<(), LinkError> {
        self.rec_update();
        Ok(())
    }
    async fn send(&mut self, tx: &[TxMessage]) -> Result<(), LinkError> {
        self.rec(tx);
        AsyncLink::send(&mut self.inner, tx).await
    }
    async fn receive(&mut self, rx: &mut [RxMessage]) -> Result<(), LinkError> {
        AsyncLink::receive(&mut self.inner, rx).await
    }
    fn is_open(&self) -> bool {
        AsyncLink::is_open(&self.inner)
    }
}

fn group_args(modulus: usize, none_rem: Option<usize>, dgs: &[(usize, DG)]) -> (impl Fn(&Device) -> Option<usize>, std::collections::HashMap<usize, autd3_driver::datagram::BoxedDatagram>) {
    let km = move |dev: &Device| {
        let k = dev.idx() % modulus;
        if Some(k) == none_rem { None } else { Some(k) }
    };
    (km, dgs.iter().map(|(k, d)| (*k, build(d))).collect())
}

/// `UnusedKey("7, 1")` lists the keys in `HashMap` order: sort them
fn canon_keys(r: &str) -> String {
    if let Some(i) = r.find("UnusedKey(\"") {
        let start = i + "UnusedKey(\"".len();
        if let Some(len) = r[start..].find('"') {
            let mut ks: Vec<&str> = r[start..start + len].split(", ").collect();
            ks.sort();
            return format!("{}{}{}", &r[..start], ks.join(", "), &r[start + len..]);
        }
    }
    r.to_string()
}

fn paced_option<S: std::fmt::Debug>(sleeper: S) -> SenderOption<S> {
    SenderOption {
        send_interval: Duration::from_millis(PACE_MS),
        receive_interval: Duration::from_millis(PACE_MS),
        timeout: Some(Duration::from_millis(SHORT_MS)),
        parallel: ParallelMode::Auto,
        sleeper,
    }
}

/// the `send_interval` whose pacing the link can hold the step to (zero: none)
fn pace_of(op: &POp) -> Duration {
    match op {
        POp::SendDefault(_) | POp::GroupDefault { .. } => Duration::from_millis(1),
        POp::SendSlp(..) | POp::GroupSlp { .. } => Duration::from_millis(PACE_MS),
        _ => Duration::ZERO,
    }
}

/// the steps of a program on the async controller (plain or boxed link)
async fn run_ops_async<L: AsyncLink>(c: &mut autd3::r#async::Controller<L>, prog: &[POp], pace: &Arc<Mutex<Pace>>, sleeps: &Arc<AtomicUsize>, lines: &mut Vec<String>) {
    use autd3::controller::{SpinSleeper, StdSleeper};
    use autd3::r#async::controller::AsyncSleeper;
    for op in prog {
        {
            let mut p = pace.lock().unwrap();
            p.interval = pace_of(op);
            p.t_update = None;
        }
        sleeps.store(0, Ordering::SeqCst);
        let r = match op {
            POp::Send(d) => format!("{:?}", c.sender(option(T::S, 0, false, sleeps)).send(build(d)).await),
            POp::Group { modulus, none_rem, dgs, par } => {
                let (km, dm) = group_args(*modulus, *none_rem, dgs);
                format!("{:?}", c.sender(option(T::S, *par, false, sleeps)).group_send(km, dm).await)
            }
            POp::FwVer => format!("{:?}", c.firmware_version().await),
            POp::Fpga => format!("{:?}", c.fpga_state().await),
            POp::Enable(i, b) => {
                c.geometry_mut().iter_mut().nth(*i).unwrap().enable = *b;
                "set".into()
            }
            POp::SendDefault(d) => format!("{:?}", c.send(build(d)).await),
            POp::GroupDefault { modulus, none_rem, dgs } => {
                let (km, dm) = group_args(*modulus, *none_rem, dgs);
                format!("{:?}", c.group_send(km, dm).await)
            }
            POp::SendSlp(slp, d) => match slp {
                Slp::Std => format!("{:?}", c.sender(paced_option(StdSleeper::default())).send(build(d)).await),
                Slp::Spin => format!("{:?}", c.sender(paced_option(SpinSleeper::default())).send(build(d)).await),
                Slp::Tokio => format!("{:?}", c.sender(paced_option(AsyncSleeper::default())).send(build(d)).await),
            },
            POp::GroupSlp { slp, modulus, none_rem, dgs } => {
                let (km, dm) = group_args(*modulus, *none_rem, dgs);
                match slp {
                    Slp::Std => format!("{:?}", c.sender(paced_option(StdSleeper::default())).group_send(km, dm).await),
                    Slp::Spin => format!("{:?}", c.sender(paced_option(SpinSleeper::default())).group_send(km, dm).await),
                    Slp::Tokio => format!("{:?}", c.sender(paced_option(AsyncSleeper::default())).group_send(km, dm).await),
                }
            }
        };
        // `sleeps`: calls of `sleep_until` on the counting no-op sleeper (steps that use it)
        lines.push(format!("{} enable={:?} sleeps={}", canon_keys(&r), c.geometry().iter().map(|d| d.enable).collect::<Vec<_>>(), sleeps.load(Ordering::SeqCst)));
    }
    pace.lock().unwrap().interval = Duration::ZERO;
}

fn run_ops_sync(c: &mut Controller<RecLink>, prog: &[POp], pace: &Arc<Mutex<Pace>>, sleeps: &Arc<AtomicUsize>, lines: &mut Vec<String>) {
    use autd3::controller::{SpinSleeper, StdSleeper};
    for op in prog {
        {
            let mut p = pace.lock().unwrap();
            p.interval = pace_of(op);
            p.t_update = None;
        }
        sleeps.store(0, Ordering::SeqCst);
        let r = match op {
            POp::Send(d) => format!("{:?}", c.sender(option(T::S, 0, false, sleeps)).send(build(d))),
            POp::Group { modulus, none_rem, dgs, par } => {
                let (km, dm) = group_args(*modulus, *none_rem, dgs);
                format!("{:?}", c.sender(option(T::S, *par, false, sleeps)).group_send(km, dm))
            }
            POp::FwVer => format!("{:?}", c.firmware_version()),
            POp::Fpga => format!("{:?}", c.fpga_state()),
            POp::Enable(i, b) => {
                c.geometry_mut().iter_mut().nth(*i).unwrap().enable = *b;
                "set".into()
            }
            POp::SendDefault(d) => format!("{:?}", c.send(build(d))),
            POp::GroupDefault { modulus, none_rem, dgs } => {
                let (km, dm) = group_args(*modulus, *none_rem, dgs);
                format!("{:?}", c.group_send(km, dm))
            }
            POp::SendSlp(slp, d) => match slp {
                Slp::Std => format!("{:?}", c.sender(paced_option(StdSleeper::default())).send(build(d))),
                Slp::Spin | Slp::Tokio => format!("{:?}", c.sender(paced_option(SpinSleeper::default())).send(build(d))),
            },
            POp::GroupSlp { slp, modulus, none_rem, dgs } => {
                let (km, dm) = group_args(*modulus, *none_rem, dgs);
                match slp {
                    Slp::Std => format!("{:?}", c.sender(paced_option(StdSleeper::default())).group_send(km, dm)),
                    Slp::Spin | Slp::Tokio => format!("{:?}", c.sender(paced_option(SpinSleeper::default())).group_send(km, dm)),
                }
            }
        };
        lines.push(format!("{} enable={:?} sleeps={}", canon_keys(&r), c.geometry().iter().map(|d| d.enable).collect::<Vec<_>>(), sleeps.load(Ordering::SeqCst)));
    }
    pace.lock().unwrap().interval = Duration::ZERO;
}

fn run_program(is_async: bool, rt: &tokio::runtime::Runtime, env: ProgEnv, n: usize, prog: &[POp]) -> ProgLog {
    let cpus = Arc::new(Mutex::new((0..n).map(|i| CPUEmulator::new(i, 249)).collect::<Vec<_>>()));
    let frames = Arc::new(Mutex::new(vec![]));
    let acks = Arc::new(Mutex::new(vec![]));
    let pace: Arc<Mutex<Pace>> = Default::default();
    let sleeps = Arc::new(AtomicUsize::new(0));
    let link = RecLink { inner: EmuLink { cpus: cpus.clone(), open: false, acks: acks.clone(), fail_sends: 0 }, frames: frames.clone(), pace: pace.clone() };
    let mut lines = vec![];
    let res = guarded(|| {
        let mut lines = vec![];
        if is_async {
            rt.block_on(async {
                let c = match autd3::r#async::Controller::open_with_option(devices(n), link, option(T::S, 0, false, &sleeps)).await {
                    Ok(c) => c,
                    Err(e) => {
                        lines.push(format!("open: {e:?}"));
                        return;
                    }
                };
                if env.boxed {
                    let mut c = c.into_boxed_link();
                    run_ops_async(&mut c, prog, &pace, &sleeps, &mut lines).await;
                    if env.end_drop {
                        drop(c);
                        lines.push("drop".into());
                    } else if prog.len() % 2 == 0 {
                        // back through `from_boxed_link`
                        let c = unsafe { autd3::r#async::Controller::<RecLink>::from_boxed_link(c) };
                        lines.push(format!("close: {:?}", c.close().await));
                    } else {
                        lines.push(format!("close: {:?}", c.close().await));
                    }
                } else {
                    let mut c = c;
                    run_ops_async(&mut c, prog, &pace, &sleeps, &mut lines).await;
                    if env.end_drop {
                        drop(c);
                        lines.push("drop".into());
                    } else {
                        lines.push(format!("close: {:?}", c.close().await));
                    }
                }
            });
        } else {
            let mut c = match Controller::open_with_option(devices(n), link, option(T::S, 0, false, &sleeps)) {
                Ok(c) => c,
                Err(e) => {
                    lines.push(format!("open: {e:?}"));
                    return lines;
                }
            };
            run_ops_sync(&mut c, prog, &pace, &sleeps, &mut lines);
            if env.end_drop {
                drop(c);
                lines.push("drop".into());
            } else {
                lines.push(format!("close: {:?}", c.close()));
            }
        }
        lines
    });
    match res {
        Ok(l) => lines.extend(l),
        Err(m) => lines.push(format!("panic: {}", m.lines().next().unwrap_or(""))),
    }
    lines.push(format!("frames: {}", frames.lock().unwrap().join(" ")));
    lines.push(format!("acks: {}", acks.lock().unwrap().join(" ")));
    lines.push(format!(
        "devices after: {}",
        cpus.lock().unwrap().iter().map(|c| format!("{:02x}/{}", c.rx().ack(), if c.reads_fpga_state() { "r" } else { "-" })).collect::<Vec<_>>().join(" ")
    ));
    let p = pace.lock().unwrap();
    ProgLog { lines, early: p.early.clone(), paced: p.paced }
}

fn program_phase(out: &mut Out, thorough: bool, seed: u64) {
    let rt_ct = tokio::runtime::Builder::new_current_thread().enable_time().build().unwrap();
    let rt_mt = tokio::runtime::Builder::new_multi_thread().worker_threads(1).enable_time().build().unwrap();
    let mut rng = Rng::new(seed ^ 0xC11);
    let nprog = if thorough { 1500 } else { 250 };
    // corpus first: every new kind of step under every environment (runtime flavour x boxed link), closing and dropping
    let mut progs: Vec<(usize, Vec<POp>, ProgEnv)> = vec![];
    for (n, p) in corpus_programs() {
        for (mt, boxed, end_drop) in [(false, false, false), (false, true, false), (true, false, false), (true, true, false), (true, false, true), (true, true, true)] {
            progs.push((n, p.clone(), ProgEnv { mt, boxed, end_drop }));
        }
    }
    for pi in 0..nprog {
        let n = 1 + rng.below(4) as usize;
        let prog = rand_program(&mut rng, n);
        // the environment is a function of the index (no generator draws)
        let mt = pi % 3 == 1;
        let env = ProgEnv { mt, boxed: pi % 4 >= 2, end_drop: mt && pi % 5 == 0 };
        progs.push((n, prog, env));
    }
    for (pi, (n, prog, env)) in progs.iter().enumerate() {
        let (n, env) = (*n, *env);
        let a = run_program(true, if env.mt { &rt_mt } else { &rt_ct }, env, n, prog);
        let s = run_program(false, &rt_ct, env, n, prog);
        let text = format!("prog n={n} {env:?} {prog:?}");
        out.case(Some(fnv64(text.as_bytes())));
        out.count("programs(sync-vs-async)");
        out.count(if env.mt { "prog-runtime:multi-thread" } else { "prog-runtime:current-thread" });
        if env.boxed {
            out.count("prog-link:boxed(Box<dyn AsyncLink>)");
        }
        out.count(if env.end_drop { "prog-end:drop-while-open" } else { "prog-end:close" });
        for op in prog {
            out.count(match op {
                POp::Send(_) => "prog-op:send",
                POp::Group { .. } => "prog-op:group_send",
                POp::FwVer => "prog-op:firmware_version",
                POp::Fpga => "prog-op:fpga_state",
                POp::Enable(..) => "prog-op:enable",
                POp::SendDefault(_) => "prog-op:Controller::send(default option, default sleeper)",
                POp::GroupDefault { .. } => "prog-op:Controller::group_send(default option, default sleeper)",
                POp::SendSlp(Slp::Std, _) | POp::GroupSlp { slp: Slp::Std, .. } => "prog-op:paced(StdSleeper)",
                POp::SendSlp(Slp::Spin, _) | POp::GroupSlp { slp: Slp::Spin, .. } => "prog-op:paced(SpinSleeper)",
                POp::SendSlp(Slp::Tokio, _) | POp::GroupSlp { slp: Slp::Tokio, .. } => "prog-op:paced(AsyncSleeper|sync default)",
            });
        }
        out.count_n("prog-paced-frames(async)", a.paced as u64);
        if a.lines.iter().any(|l| l.contains("sleeps=") && !l.contains("sleeps=0")) {
            out.count("prog-with-counted-sleeps");
        }
        for l in a.lines.iter() {
            for k in ["UnkownKey", "UnusedKey", "Generator", "InvalidDateTime", "panic"] {
                if l.contains(k) {
                    out.count(&format!("prog-outcome:{k}"));
                }
            }
        }
        if a.lines != s.lines {
            let i = a.lines.iter().zip(s.lines.iter()).position(|(x, y)| x != y).unwrap_or(a.lines.len().min(s.lines.len()));
            let cut = |l: Option<&String>| l.map(|x| x.chars().take(300).collect::<String>()).unwrap_or_else(|| "<missing>".into());
            out.violation(
                format!("async-vs-sync-prog:{:016x}", fnv64(text.as_bytes())),
                format!("program {pi} ({n} devices, {env:?}): step {i}: async `{}` / sync `{}`", cut(a.lines.get(i)), cut(s.lines.get(i))),
                vec![text.clone()],
            );
        } else if !a.early.is_empty() && s.early.is_empty() {
            // the sync copy kept to its send slots, the async copy did not: its sleeper did not sleep
            out.violation(
                format!("async-send-interval-ignored:{:016x}", fnv64(text.as_bytes())),
                format!("program {pi} ({n} devices, {env:?}): the async sender let a frame out before its send slot ({} of {} paced frames; the sync sender none of {}): {}", a.early.len(), a.paced, s.paced, a.early[0]),
                vec![text.clone()],
            );
        } else if !a.early.is_empty() {
            out.count("prog-early-frames-in-both-copies");
        }
    }
}

// ------------------------------------------------------------------------------------------------
// the oracle: C04 on the observables of one `Sender::send`
// ------------------------------------------------------------------------------------------------

/// The property on one `Sender::send`: `calls` = what the link saw (starting with `update`), `en` = the
/// devices' enable flags.  `Ok(acceptable results)` (empty = the link was never asked) or `Err(what is wrong
/// with the calls themselves)`.  "All devices" = all **enabled** devices: a frame counts as acknowledged when
/// every enabled device answered its id; only an enabled device's error acknowledgement is an error.
fn verdict(tz: bool, en: &[bool], calls: &[Call]) -> Result<Vec<String>, String> {
    let enabled = |i: usize| en.get(i).copied().unwrap_or(true);
    let mut pending: Option<Vec<u8>> = None; // frame sent and not yet acknowledged by all enabled devices
    let mut polls_since_send = 0usize;
    for (i, c) in calls.iter().enumerate() {
        match c {
            Call::Overrun(w) => return Err(format!("the sender kept calling {w} after the scripted behaviour had to end the call")),
            Call::Send(frame, ok) => {
                if let Some(p) = &pending {
                    if !tz {
                        return Err(format!("call {i}: next frame sent while frame {p:?} was not acknowledged by all enabled devices (enable {}; timeout > 0)", bits(en)));
                    }
                }
                if tz && pending.is_some() && polls_since_send != 1 {
                    return Err(format!("zero timeout: {polls_since_send} receives for one frame (expected exactly one)"));
                }
                if *ok {
                    pending = Some(frame.iter().map(|f| f.0).collect());
                    polls_since_send = 0;
                }
            }
            Call::Recv(Some(rx), _) => {
                polls_since_send += 1;
                if let Some(p) = &pending {
                    if rx.len() == p.len() && rx.iter().zip(p.iter()).enumerate().all(|(i, (r, id))| !enabled(i) || r.0 == *id) {
                        pending = None;
                    }
                }
            }
            Call::Recv(None, _) => polls_since_send += 1,
            _ => {}
        }
    }
    match calls.last() {
        None => Ok(vec![]),
        Some(Call::IsOpen(false)) => Ok(vec!["err:LinkClosed".into()]),
        Some(Call::Update(false)) => Ok(vec!["err:Link(update)".into()]),
        Some(Call::Send(_, false)) => Ok(vec!["err:Link(send)".into()]),
        Some(Call::Recv(None, _)) => Ok(vec!["err:Link(receive)".into()]),
        Some(Call::Recv(Some(rx), late)) => {
            if pending.is_none() {
                Ok(vec!["ok".into()])
            } else if !*late {
                Err("the sender stopped waiting for a frame that was neither acknowledged by all enabled devices, nor failed, nor timed out".into())
            } else {
                // any reporting *enabled* device's own error is accepted; the first one is what the code returns
                let errs: Vec<String> = rx.iter().enumerate().filter(|(i, r)| enabled(*i) && r.0 & 0x80 != 0).map(|(_, r)| format!("err:{}", fw_name(r.0))).collect();
                if !errs.is_empty() {
                    Ok(errs)
                } else if tz {
                    Ok(vec!["ok".into()])
                } else {
                    Ok(vec!["err:ConfirmResponseFailed".into()])
                }
            }
        }
        Some(c) => Err(format!("send ended after {c:?}")),
    }
}

fn oracle_send(tz: bool, en: &[bool], calls: &[Call], result: &str) -> Option<String> {
    match verdict(tz, en, calls) {
        Err(w) => {
            if result == "ok" && w.starts_with("the sender stopped") {
                return Some(format!("Ok although the last frame was not acknowledged by all enabled devices (enable {}) and the timeout (> 0) had not expired", bits(en)));
            }
            Some(w)
        }
        Ok(acc) if acc.is_empty() => {
            if result != "err:Generator" {
                Some(format!("returned `{result}` without talking to the link"))
            } else {
                None
            }
        }
        Ok(acc) => {
            if acc.iter().any(|a| a == result) {
                None
            } else {
                Some(format!("returned `{result}` where the property requires `{}` (enable {})", acc[0], bits(en)))
            }
        }
    }
}

/// the calls of consecutive sends: a new segment starts at every `update`
fn segments(calls: &[Call]) -> Vec<Vec<Call>> {
    let mut segs: Vec<Vec<Call>> = vec![];
    for c in calls {
        if matches!(c, Call::Update(_)) {
            segs.push(vec![]);
        }
        if let Some(s) = segs.last_mut() {
            s.push(c.clone());
        }
    }
    segs
}

/// `firmware_version` (default option: the datagram's 200 ms): six sends, stopping at the first failure;
/// `Ok` lists exactly the enabled devices
fn oracle_fwver(en: &[bool], calls: &[Call], result: &str) -> Option<String> {
    let segs = segments(calls);
    let ok = result.starts_with("ok:");
    for (k, seg) in segs.iter().enumerate() {
        let last = k + 1 == segs.len();
        if !last || ok {
            if let Some(w) = oracle_send(false, en, seg, "ok") {
                return Some(format!("firmware_version went on after fetch {k}: {w}"));
            }
        } else if oracle_send(false, en, seg, "ok").is_none() {
            return Some(format!("firmware_version failed (`{result}`) although every frame of fetch {k} was acknowledged by every enabled device (enable {})", bits(en)));
        }
    }
    if ok {
        if segs.len() != 6 {
            return Some(format!("firmware_version returned Ok after {} fetches", segs.len()));
        }
        let listed: Vec<String> = result.trim_start_matches("ok:[").trim_end_matches(']').split(',').filter(|x| !x.is_empty()).map(|x| x.split(':').next().unwrap_or("").to_string()).collect();
        let want: Vec<String> = en.iter().enumerate().filter(|(_, e)| **e).map(|(i, _)| i.to_string()).collect();
        if listed != want {
            return Some(format!("firmware_version lists devices {listed:?}, the enabled ones are {want:?}"));
        }
    }
    None
}

/// `close` on a link that says open: every device is enabled, three sends (each judged on all devices) and
/// `link.close`; a failing `link.close` wins, otherwise the first failing send
fn oracle_close(n: usize, calls: &[Call], result: &str) -> Option<String> {
    if !matches!(calls.first(), Some(Call::IsOpen(true))) {
        return if result == "ok" { None } else { Some(format!("close on a closed link returned `{result}`")) };
    }
    let all = vec![true; n];
    // cut at the `close` call (Drop's `is_open` follows it)
    let end = calls.iter().position(|c| matches!(c, Call::Close(_))).map(|i| i + 1).unwrap_or(calls.len());
    let body = &calls[..end];
    let close_ok = match body.last() {
        Some(Call::Close(ok)) => *ok,
        _ => return Some("close did not call link.close".into()),
    };
    let segs = segments(&body[..body.len() - 1]);
    if segs.len() != 3 {
        return Some(format!("close made {} sends (expected 3)", segs.len()));
    }
    let mut first_fail: Option<Vec<String>> = None;
    for (k, seg) in segs.iter().enumerate() {
        match verdict(false, &all, seg) {
            Err(w) => return Some(format!("close, send {k}: {w}")),
            Ok(acc) => {
                if first_fail.is_none() && !acc.iter().any(|a| a == "ok") {
                    first_fail = Some(acc);
                }
            }
        }
    }
    let acc = if !close_ok { vec!["err:Link(close)".to_string()] } else { first_fail.unwrap_or_else(|| vec!["ok".into()]) };
    if acc.iter().any(|a| a == result) { None } else { Some(format!("close returned `{result}` where `{}` is required (every device counts: close enables all)", acc[0])) }
}

fn fw_name(ack: u8) -> String {
    // independent statement of the firmware's error table (cpu/params.rs ERR_*)
    match ack {
        0x80 => "NotSupportedTag".into(),
        0x81 => "InvalidMessageID".into(),
        0x84 => "InvalidInfoType".into(),
        0x85 => "InvalidGainSTMMode".into(),
        0x88 => "InvalidSegmentTransition".into(),
        0x8B => "MissTransitionTime".into(),
        0x8E => "InvalidSilencerSettings".into(),
        0x8F => "InvalidTransitionMode".into(),
        a => format!("UnknownFirmwareError({a})"),
    }
}

// ------------------------------------------------------------------------------------------------
// generators
// ------------------------------------------------------------------------------------------------

fn all_kinds(n: usize, ecode: &mut u32) -> Vec<Vec<Kind>> {
    // every vector over {R,P,G,E}; the error code rotates through 0x80..0x8F, 0xFF, 0x90
    let mut out = vec![];
    for mut v in 0..4usize.pow(n as u32) {
        let mut ks = vec![];
        for _ in 0..n {
            ks.push(match v % 4 {
                0 => Kind::R,
                1 => Kind::P,
                2 => Kind::G,
                _ => {
                    *ecode += 1;
                    let c = *ecode % 18;
                    Kind::E(if c < 16 { 0x80 + c as u8 } else if c == 16 { 0xFF } else { 0x90 })
                }
            });
            v /= 4;
        }
        out.push(ks);
    }
    out
}

fn ack_poll(n: usize, base: u8) -> PollS {
    PollS::Poll { recv: Recv::Rx { kinds: vec![Kind::R; n], base }, late: false }
}
fn pass_frame(n: usize, base: u8) -> FrameS {
    FrameS { open: true, send_ok: true, polls: vec![ack_poll(n, base)] }
}
fn pass_send(n: usize, nframes: usize, base: u8) -> SendS {
    SendS { update_ok: true, frames: (0..nframes).map(|i| pass_frame(n, base.wrapping_add(i as u8 * 16))).collect() }
}
fn empty_send() -> SendS {
    SendS { update_ok: true, frames: vec![] }
}

/// number of turns of the send loop when every frame passes
fn turns(frames: &[u8]) -> usize {
    (*frames.iter().max().unwrap_or(&0) as usize).max(1)
}

/// every enabled device answers the frame's id
fn is_ack(kinds: &[Kind], mask: &[bool]) -> bool {
    kinds.iter().zip(mask.iter()).all(|(k, m)| !*m || *k == Kind::R)
}

/// is this frame script one after which the loop goes on (given zero/non-zero timeout and the enable flags)?
fn frame_passes_m(f: &FrameS, tz: bool, mask: &[bool]) -> bool {
    if !f.open || !f.send_ok {
        return false;
    }
    match f.polls.last() {
        Some(PollS::Poll { recv: Recv::Rx { kinds, .. }, late }) => {
            is_ack(kinds, mask) || (*late && tz && !kinds.iter().zip(mask.iter()).any(|(k, m)| *m && matches!(k, Kind::E(c) if c & 0x80 != 0)))
        }
        _ => false,
    }
}
fn frame_passes(f: &FrameS, tz: bool) -> bool {
    frame_passes_m(f, tz, &[true; 16])
}

/// all minimal poll lists of length <= k for one frame (terminal only at the end)
fn poll_lists(n: usize, k: usize, t: T, ecode: &mut u32, rng: &mut Rng) -> Vec<Vec<PollS>> {
    let kinds = all_kinds(n, ecode);
    let nonterminal: Vec<Vec<Kind>> = kinds.iter().filter(|ks| !ks.iter().all(|k| *k == Kind::R)).cloned().collect();
    let mut terminals: Vec<PollS> = vec![PollS::Closed, PollS::Poll { recv: Recv::Err, late: false }, ack_poll(n, rng.below(256) as u8)];
    if t != T::L {
        terminals.push(PollS::Poll { recv: Recv::Err, late: true });
        terminals.push(PollS::Poll { recv: Recv::Rx { kinds: vec![Kind::R; n], base: rng.below(256) as u8 }, late: true });
        for ks in &nonterminal {
            terminals.push(PollS::Poll { recv: Recv::Rx { kinds: ks.clone(), base: rng.below(256) as u8 }, late: true });
        }
    }
    if t == T::Z {
        // elapsed > 0 holds after every poll: only lists of one late poll (or closed) are realisable
        return terminals
            .into_iter()
            .filter(|p| matches!(p, PollS::Closed | PollS::Poll { late: true, .. }))
            .map(|p| vec![p])
            .collect();
    }
    let mut out: Vec<Vec<PollS>> = vec![];
    let mut prefixes: Vec<Vec<PollS>> = vec![vec![]];
    for _len in 1..=k {
        for p in &prefixes {
            for tm in &terminals {
                let mut l = p.clone();
                l.push(tm.clone());
                out.push(l);
            }
        }
        let mut next = vec![];
        for p in &prefixes {
            for ks in &nonterminal {
                let mut l = p.clone();
                l.push(PollS::Poll { recv: Recv::Rx { kinds: ks.clone(), base: rng.below(256) as u8 }, late: false });
                next.push(l);
            }
        }
        prefixes = next;
    }
    out
}

fn rand_kind(rng: &mut Rng) -> Kind {
    match rng.below(8) {
        0 | 1 | 2 => Kind::R,
        3 | 4 => Kind::P,
        5 => Kind::G,
        _ => Kind::E(*rng.pick(&[0x80u8, 0x81, 0x84, 0x85, 0x88, 0x8B, 0x8E, 0x8F, 0x82, 0x87, 0x8D, 0xFF, 0xC0])),
    }
}

/// a random minimal poll list (<= k polls) for one frame
fn rand_polls(n: usize, k: usize, t: T, rng: &mut Rng) -> Vec<PollS> {
    let mut out = vec![];
    for i in 0..k {
        let last = i + 1 == k;
        let r = rng.below(20);
        if r == 0 {
            out.push(PollS::Closed);
            return out;
        }
        if r == 1 {
            out.push(PollS::Poll { recv: Recv::Err, late: false });
            return out;
        }
        let mut kinds: Vec<Kind> = (0..n).map(|_| rand_kind(rng)).collect();
        if rng.chance(1, 3) || (last && t == T::L) {
            kinds = vec![Kind::R; n];
        }
        let all_r = kinds.iter().all(|k| *k == Kind::R);
        let late = t == T::Z || (t != T::L && (last || rng.chance(1, 6)));
        out.push(PollS::Poll { recv: Recv::Rx { kinds, base: rng.below(256) as u8 }, late });
        if all_r || late {
            return out;
        }
    }
    out
}

/// a random minimal send script for a datagram with `frames` on `n` devices
fn rand_send(n: usize, frames: &[u8], t_eff: T, k: usize, rng: &mut Rng) -> SendS {
    if rng.chance(1, 40) {
        return SendS { update_ok: false, frames: vec![] };
    }
    let tz = t_eff == T::Z;
    let mut fs = vec![];
    for _ in 0..turns(frames) {
        let r = rng.below(40);
        let f = if r == 0 {
            FrameS { open: false, send_ok: true, polls: vec![] }
        } else if r == 1 {
            FrameS { open: true, send_ok: false, polls: vec![] }
        } else {
            FrameS { open: true, send_ok: true, polls: rand_polls(n, 1 + rng.below(k as u64) as usize, t_eff, rng) }
        };
        let pass = frame_passes(&f, tz);
        fs.push(f);
        if !pass {
            break;
        }
    }
    SendS { update_ok: true, frames: fs }
}

// ---- the same under an enable mask ---------------------------------------------------------------

/// number of turns of the send loop when every frame passes: only enabled devices get an operation
fn turns_m(frames: &[u8], mask: &[bool]) -> usize {
    (frames.iter().zip(mask.iter()).filter(|(_, m)| **m).map(|(f, _)| *f as usize).max().unwrap_or(0)).max(1)
}

/// all minimal poll lists of length <= k for one frame under `mask`: a poll ends the wait when every
/// *enabled* device answers the id; disabled devices answer every kind (id of their untouched slot, previous
/// id, garbage, error codes) in terminal and non-terminal polls alike
fn poll_lists_masked(n: usize, mask: &[bool], k: usize, t: T, ecode: &mut u32, rng: &mut Rng) -> Vec<Vec<PollS>> {
    let kinds = all_kinds(n, ecode);
    let (acks, nonterminal): (Vec<Vec<Kind>>, Vec<Vec<Kind>>) = kinds.into_iter().partition(|ks| is_ack(ks, mask));
    let mut terminals: Vec<PollS> = vec![PollS::Closed, PollS::Poll { recv: Recv::Err, late: false }];
    for ks in &acks {
        terminals.push(PollS::Poll { recv: Recv::Rx { kinds: ks.clone(), base: rng.below(256) as u8 }, late: false });
    }
    if t != T::L {
        terminals.push(PollS::Poll { recv: Recv::Err, late: true });
        for ks in acks.iter().chain(nonterminal.iter()) {
            terminals.push(PollS::Poll { recv: Recv::Rx { kinds: ks.clone(), base: rng.below(256) as u8 }, late: true });
        }
    }
    if t == T::Z {
        return terminals.into_iter().filter(|p| matches!(p, PollS::Closed | PollS::Poll { late: true, .. })).map(|p| vec![p]).collect();
    }
    let mut out: Vec<Vec<PollS>> = vec![];
    let mut prefixes: Vec<Vec<PollS>> = vec![vec![]];
    for _len in 1..=k {
        for p in &prefixes {
            for tm in &terminals {
                let mut l = p.clone();
                l.push(tm.clone());
                out.push(l);
            }
        }
        let mut next = vec![];
        for p in &prefixes {
            for ks in &nonterminal {
                let mut l = p.clone();
                l.push(PollS::Poll { recv: Recv::Rx { kinds: ks.clone(), base: rng.below(256) as u8 }, late: false });
                next.push(l);
            }
        }
        prefixes = next;
    }
    out
}

/// what a disabled device may answer: the id its untouched slot carries, the previous id, garbage, a
/// firmware error code (0x80..0x8F), other bytes with the error bit, any byte below 0x80
fn rand_disabled_kind(rng: &mut Rng) -> Kind {
    match rng.below(8) {
        0 | 1 => Kind::R,
        2 => Kind::P,
        3 => Kind::G,
        4 | 5 => Kind::E(0x80 + rng.below(16) as u8),
        6 => Kind::E(*rng.pick(&[0xFFu8, 0x90, 0xC0, 0xA5])),
        _ => Kind::E(rng.below(128) as u8),
    }
}

fn rand_polls_m(n: usize, mask: &[bool], k: usize, t: T, rng: &mut Rng) -> Vec<PollS> {
    let mut out = vec![];
    for i in 0..k {
        let last = i + 1 == k;
        let r = rng.below(24);
        if r == 0 {
            out.push(PollS::Closed);
            return out;
        }
        if r == 1 {
            out.push(PollS::Poll { recv: Recv::Err, late: false });
            return out;
        }
        let all_right = rng.chance(1, 3) || (last && t == T::L);
        let kinds: Vec<Kind> = (0..n).map(|d| if !mask[d] { rand_disabled_kind(rng) } else if all_right { Kind::R } else { rand_kind(rng) }).collect();
        let acked = is_ack(&kinds, mask);
        let late = t == T::Z || (t != T::L && (last || rng.chance(1, 6)));
        out.push(PollS::Poll { recv: Recv::Rx { kinds, base: rng.below(256) as u8 }, late });
        if acked || late {
            return out;
        }
    }
    out
}

fn rand_send_m(n: usize, mask: &[bool], frames: &[u8], t_eff: T, k: usize, rng: &mut Rng) -> SendS {
    if rng.chance(1, 50) {
        return SendS { update_ok: false, frames: vec![] };
    }
    let tz = t_eff == T::Z;
    let mut fs = vec![];
    for _ in 0..turns_m(frames, mask) {
        let r = rng.below(50);
        let f = if r == 0 {
            FrameS { open: false, send_ok: true, polls: vec![] }
        } else if r == 1 {
            FrameS { open: true, send_ok: false, polls: vec![] }
        } else {
            FrameS { open: true, send_ok: true, polls: rand_polls_m(n, mask, 1 + rng.below(k as u64) as usize, t_eff, rng) }
        };
        let pass = frame_passes_m(&f, tz, mask);
        fs.push(f);
        if !pass {
            break;
        }
    }
    SendS { update_ok: true, frames: fs }
}

/// a frame every enabled device acknowledges at once; disabled devices answer whatever `dk` says
fn pass_frame_m(mask: &[bool], base: u8, dk: &mut dyn FnMut() -> Kind) -> FrameS {
    let kinds = mask.iter().map(|m| if *m { Kind::R } else { dk() }).collect();
    FrameS { open: true, send_ok: true, polls: vec![PollS::Poll { recv: Recv::Rx { kinds, base }, late: false }] }
}
fn pass_send_m(mask: &[bool], nframes: usize, base: u8, dk: &mut dyn FnMut() -> Kind) -> SendS {
    SendS { update_ok: true, frames: (0..nframes).map(|i| pass_frame_m(mask, base.wrapping_add(i as u8 * 16), dk)).collect() }
}

/// the same case with different acknowledgement bytes for the disabled devices
fn perturb(case: &Case, mask: &[bool], rng: &mut Rng) -> Case {
    fn recv(r: &Recv, mask: &[bool], rng: &mut Rng) -> Recv {
        match r {
            Recv::Err => Recv::Err,
            Recv::Rx { kinds, base } => Recv::Rx {
                kinds: kinds
                    .iter()
                    .enumerate()
                    .map(|(i, k)| {
                        if mask.get(i).copied().unwrap_or(true) {
                            *k
                        } else {
                            // a different kind where possible
                            let mut nk = rand_disabled_kind(rng);
                            for _ in 0..4 {
                                if nk != *k {
                                    break;
                                }
                                nk = rand_disabled_kind(rng);
                            }
                            nk
                        }
                    })
                    .collect(),
                base: *base,
            },
        }
    }
    fn send(s: &SendS, mask: &[bool], rng: &mut Rng) -> SendS {
        SendS {
            update_ok: s.update_ok,
            frames: s
                .frames
                .iter()
                .map(|f| FrameS {
                    open: f.open,
                    send_ok: f.send_ok,
                    polls: f
                        .polls
                        .iter()
                        .map(|p| match p {
                            PollS::Closed => PollS::Closed,
                            PollS::Poll { recv: r, late } => PollS::Poll { recv: recv(r, mask, rng), late: *late },
                        })
                        .collect(),
                })
                .collect(),
        }
    }
    match case {
        Case::Send { t, td, par, frames, sc } => Case::Send { t: *t, td: *td, par: *par, frames: frames.clone(), sc: send(sc, mask, rng) },
        Case::FwVer { scs } => Case::FwVer { scs: scs.iter().map(|s| send(s, mask, rng)).collect() },
        Case::Fpga { open, recv: r } => Case::Fpga { open: *open, recv: recv(r, mask, rng) },
        // close enables every device before it sends; open starts with every device enabled
        c => c.clone(),
    }
}

/// builds a chunk under changing enable masks together with its twin (same cases, other bytes from the
/// disabled devices)
struct MaskChunk {
    n: usize,
    mask: Vec<bool>,
    cases: Vec<Case>,
    twin: Vec<Case>,
}
impl MaskChunk {
    fn new(n: usize, t: T) -> Self {
        let o = plain_open(n, t);
        MaskChunk { n, mask: vec![true; n], cases: vec![o.clone()], twin: vec![o] }
    }
    fn enable(&mut self, mask: &[bool]) {
        assert_eq!(mask.len(), self.n);
        self.mask = mask.to_vec();
        let c = Case::Enable { mask: mask.to_vec() };
        self.cases.push(c.clone());
        self.twin.push(c);
    }
    fn push(&mut self, c: Case, rng: &mut Rng) {
        self.twin.push(perturb(&c, &self.mask, rng));
        self.cases.push(c);
    }
}

fn parse_mask(s: &str) -> Vec<bool> {
    s.chars().map(|c| c == '1').collect()
}

/// every mask of `n` devices with at least one disabled device (the all-disabled one last)
fn masks_of(n: usize) -> Vec<Vec<bool>> {
    let mut v: Vec<Vec<bool>> = (0..(1usize << n) - 1).map(|m| (0..n).map(|i| m >> i & 1 == 1).collect()).collect();
    v.rotate_left(1);
    v
}

fn eff(t: T, td: T) -> T {
    if t == T::N { td } else { t }
}

struct Plan {
    chunks: Vec<Vec<Case>>,
    /// per chunk: the same cases with other acknowledgement bytes from the disabled devices
    twins: Vec<Option<Vec<Case>>>,
}

/// corpus under enable masks: the minimal scripts on which the two enable-related regressions of
/// `wait_msg_processed` show — (i) judging the enabled devices by a `zip` of `geometry.devices()` with the
/// per-device flags (shifted when a disabled device has a lower index), (ii) scanning disabled devices'
/// acknowledgements for firmware errors after the loop
fn mask_corpus(rng: &mut Rng) -> Vec<MaskChunk> {
    let np = |kinds: Vec<Kind>, late: bool| PollS::Poll { recv: Recv::Rx { kinds, base: 0x40 }, late };
    let one = |t: T, frames: Vec<u8>, polls: Vec<PollS>| Case::Send { t, td: T::S, par: 0, frames, sc: SendS { update_ok: true, frames: vec![FrameS { open: true, send_ok: true, polls }] } };
    let mut out = vec![];
    {
        let mut c = MaskChunk::new(2, T::S);
        c.enable(&parse_mask("01"));
        // (i) the disabled device 0 "acknowledges" (its untouched slot's id), the enabled device 1 never does
        c.push(one(T::S, vec![1, 1], vec![np(vec![Kind::R, Kind::P], true)]), rng);
        // (i) … or answers an error acknowledgement
        c.push(one(T::S, vec![1, 1], vec![np(vec![Kind::R, Kind::E(0x88)], true)]), rng);
        // (ii) a stale error held by the disabled device, the enabled one lagging: time-out / zero timeout
        c.push(one(T::S, vec![1, 1], vec![np(vec![Kind::E(0x88), Kind::P], true)]), rng);
        c.push(one(T::Z, vec![1, 1], vec![np(vec![Kind::E(0x8E), Kind::P], true)]), rng);
        // (i) two frames: the second must wait for the enabled device's late acknowledgement of the first
        c.push(
            Case::Send {
                t: T::L, td: T::S, par: 0, frames: vec![2, 2],
                sc: SendS { update_ok: true, frames: vec![FrameS { open: true, send_ok: true, polls: vec![np(vec![Kind::R, Kind::P], false), np(vec![Kind::R, Kind::R], false)] }, FrameS { open: true, send_ok: true, polls: vec![np(vec![Kind::G, Kind::R], false)] }] },
            },
            rng,
        );
        // the disabled device's error / garbage does not delay or fail an acknowledged frame
        c.push(one(T::S, vec![1, 1], vec![np(vec![Kind::E(0x81), Kind::R], false)]), rng);
        c.push(one(T::Z, vec![3, 1], vec![np(vec![Kind::E(0xFF), Kind::R], true)]), rng);
        c.enable(&parse_mask("10"));
        c.push(one(T::S, vec![1, 1], vec![np(vec![Kind::P, Kind::R], true)]), rng);
        c.push(one(T::S, vec![1, 1], vec![np(vec![Kind::R, Kind::E(0x88)], false)]), rng);
        c.push(one(T::S, vec![1, 1], vec![np(vec![Kind::E(0x85), Kind::E(0x88)], true)]), rng);
        c.enable(&parse_mask("00"));
        c.push(one(T::S, vec![1, 1], vec![np(vec![Kind::P, Kind::E(0x88)], false)]), rng);
        c.enable(&parse_mask("11"));
        c.push(one(T::S, vec![1, 1], vec![np(vec![Kind::P, Kind::R], false), np(vec![Kind::R, Kind::R], false)]), rng);
        c.enable(&parse_mask("01"));
        c.push(Case::Close { c: pass_close(2), drop: CloseS::Closed }, rng);
        out.push(c);
    }
    {
        let mut c = MaskChunk::new(3, T::S);
        // disabled between two enabled devices
        c.enable(&parse_mask("101"));
        c.push(one(T::S, vec![1, 1, 1], vec![np(vec![Kind::R, Kind::R, Kind::P], true)]), rng);
        c.push(one(T::S, vec![1, 1, 1], vec![np(vec![Kind::R, Kind::R, Kind::E(0x8B)], true)]), rng);
        c.push(one(T::S, vec![1, 1, 1], vec![np(vec![Kind::R, Kind::E(0x8F), Kind::G], true)]), rng);
        c.push(one(T::Z, vec![1, 1, 1], vec![np(vec![Kind::P, Kind::E(0x80), Kind::R], true)]), rng);
        // disabled below two enabled devices
        c.enable(&parse_mask("011"));
        c.push(one(T::S, vec![1, 1, 1], vec![np(vec![Kind::R, Kind::R, Kind::P], true)]), rng);
        c.push(one(T::S, vec![1, 1, 1], vec![np(vec![Kind::R, Kind::P, Kind::R], true)]), rng);
        c.push(one(T::S, vec![1, 1, 1], vec![np(vec![Kind::E(0x84), Kind::R, Kind::P], false), np(vec![Kind::E(0x84), Kind::R, Kind::R], false)]), rng);
        // disabled above
        c.enable(&parse_mask("110"));
        c.push(one(T::S, vec![1, 1, 1], vec![np(vec![Kind::R, Kind::P, Kind::R], true)]), rng);
        c.push(one(T::S, vec![1, 1, 1], vec![np(vec![Kind::R, Kind::P, Kind::E(0x88)], true)]), rng);
        // two disabled below the only enabled one
        c.enable(&parse_mask("001"));
        c.push(one(T::S, vec![1, 1, 1], vec![np(vec![Kind::R, Kind::R, Kind::P], true)]), rng);
        c.push(one(T::Z, vec![1, 1, 1], vec![np(vec![Kind::E(0x88), Kind::R, Kind::G], true)]), rng);
        out.push(c);
    }
    out
}

/// exhaustive one-frame behaviours, link faults, firmware_version / fpga_state / close and random scenarios
/// under enable masks
fn mask_chunks(thorough: bool, rng: &mut Rng) -> Vec<MaskChunk> {
    let mut out: Vec<MaskChunk> = vec![];
    let mut ecode = 7u32;
    // ---- every poll behaviour of one frame, every mask ------------------------------------------------
    for n in 2..=3usize {
        for mask in masks_of(n) {
            let n_en = mask.iter().filter(|m| **m).count();
            for t in [T::Z, T::S, T::L] {
                let k = match (t, n, thorough) {
                    (T::S, 2, false) => 2,
                    (T::S, _, false) => 1,
                    (T::S, 2, true) => 3,
                    (T::S, _, true) => 2,
                    (_, 2, false) => 2,
                    (_, _, false) => 2,
                    (_, 2, true) => 3,
                    (_, _, true) => 2,
                };
                let k = if n_en == 0 { 1 } else { k };
                let lists = poll_lists_masked(n, &mask, k, t, &mut ecode, rng);
                let positions: Vec<(usize, usize)> = if thorough { vec![(0, 1), (0, 3), (1, 3), (2, 3)] } else { vec![(0, 1), (1, 2)] };
                for (j, nf) in positions {
                    let mut cases = vec![];
                    for (li, pl) in lists.iter().enumerate() {
                        let late = pl.iter().any(|p| matches!(p, PollS::Poll { late: true, .. }));
                        // S-late cases cost a sleep each: thin the biggest classes in the quick tier
                        if !thorough && t == T::S && late && ((pl.len() == 2 && (li + j) % 2 != 0) || (n == 3 && j == 1 && li % 2 != 0)) {
                            continue;
                        }
                        if !thorough && t == T::L && n == 3 && pl.len() == 2 && (li + j) % 3 != 0 {
                            continue;
                        }
                        let mut dk = || Kind::R;
                        let mut frames: Vec<FrameS> = (0..j).map(|i| pass_frame_m(&mask, (i * 16) as u8, &mut dk)).collect();
                        // the frames before it: the disabled devices answer something else each time
                        for (fi, f) in frames.iter_mut().enumerate() {
                            if let PollS::Poll { recv: Recv::Rx { kinds, .. }, .. } = &mut f.polls[0] {
                                for (d, kd) in kinds.iter_mut().enumerate() {
                                    if !mask[d] {
                                        *kd = [Kind::E(0x88), Kind::G, Kind::R, Kind::P, Kind::E(0x17)][(li + fi + d) % 5];
                                    }
                                }
                            }
                        }
                        let f = FrameS { open: true, send_ok: true, polls: pl.clone() };
                        let pass = frame_passes_m(&f, t == T::Z, &mask);
                        frames.push(f);
                        if pass {
                            for i in j + 1..nf {
                                frames.push(pass_frame_m(&mask, (i * 16) as u8, &mut dk));
                            }
                        }
                        // the first enabled device takes nf frames, the other enabled ones vary; what a disabled
                        // device "would take" is never asked
                        let first_en = mask.iter().position(|m| *m);
                        let fv: Vec<u8> = (0..n).map(|d| if Some(d) == first_en { nf as u8 } else if mask[d] { ((li + d) % (nf + 1)) as u8 } else { ((li * 7 + d) % 5) as u8 }).collect();
                        // all disabled: nothing is packed, the old frame goes out once
                        if n_en == 0 && j > 0 {
                            continue;
                        }
                        let (tt, td) = if li % 5 == 4 { (T::N, t) } else { (t, *rng.pick(&[T::Z, T::S, T::L])) };
                        cases.push(Case::Send { t: tt, td, par: (li % 3) as u8, frames: fv, sc: SendS { update_ok: true, frames } });
                    }
                    for part in cases.chunks(96) {
                        let mut c = MaskChunk::new(n, *rng.pick(&[T::S, T::L, T::Z]));
                        c.enable(&mask);
                        for cs in part {
                            c.push(cs.clone(), rng);
                        }
                        out.push(c);
                    }
                }
            }
        }
    }

    // ---- link-level faults at every position, one mask per device count ---------------------------------
    for (n, m) in [(2usize, "01"), (3, "101"), (3, "011"), (3, "110")] {
        let mask = parse_mask(m);
        let mut c = MaskChunk::new(n, T::S);
        c.enable(&mask);
        let mut q = 0usize;
        let mut dk = move || {
            q += 1;
            [Kind::E(0x88), Kind::R, Kind::G, Kind::E(0x8E), Kind::P][q % 5]
        };
        for nf in 1..=2usize {
            for j in 0..nf {
                for fault in 0..3 {
                    let mut frames: Vec<FrameS> = (0..j).map(|i| pass_frame_m(&mask, i as u8, &mut dk)).collect();
                    frames.push(match fault {
                        0 => FrameS { open: false, send_ok: true, polls: vec![] },
                        1 => FrameS { open: true, send_ok: false, polls: vec![] },
                        _ => FrameS { open: true, send_ok: true, polls: vec![PollS::Poll { recv: Recv::Err, late: false }] },
                    });
                    for t in [T::Z, T::L] {
                        c.push(Case::Send { t, td: T::S, par: 0, frames: vec![nf as u8; n], sc: SendS { update_ok: true, frames: frames.clone() } }, rng);
                    }
                }
            }
            c.push(Case::Send { t: T::S, td: T::S, par: 0, frames: vec![nf as u8; n], sc: SendS { update_ok: false, frames: vec![] } }, rng);
        }
        // operations that are done before the first pack, on the enabled devices only / on the disabled only
        c.push(Case::Send { t: T::S, td: T::S, par: 0, frames: mask.iter().map(|e| if *e { 0 } else { 2 }).collect(), sc: pass_send_m(&mask, 1, 0, &mut dk) }, rng);
        c.push(Case::Send { t: T::S, td: T::S, par: 0, frames: mask.iter().map(|e| if *e { 2 } else { 0 }).collect(), sc: pass_send_m(&mask, 2, 0, &mut dk) }, rng);
        c.push(Case::SendX { t: T::S, td: T::S }, rng);
        out.push(c);
    }

    // ---- firmware_version / fpga_state / close under every mask ---------------------------------------
    for n in 2..=3usize {
        for (mi, mask) in masks_of(n).into_iter().enumerate() {
            let mut c = MaskChunk::new(n, T::S);
            let mut q = mi;
            let mut dk = move || {
                q += 1;
                [Kind::E(0x88), Kind::R, Kind::G, Kind::E(0x80), Kind::P, Kind::E(0x33)][q % 6]
            };
            // ids of the devices drift apart: one frame while only some devices are enabled
            c.enable(&mask);
            c.push(Case::Send { t: T::L, td: T::S, par: 0, frames: vec![2; n], sc: pass_send_m(&mask, turns_m(&vec![2; n], &mask), 0x11, &mut dk) }, rng);
            let fw_pass = |b: u8, dk: &mut dyn FnMut() -> Kind| -> Vec<SendS> { (0..6).map(|i| pass_send_m(&mask, 1, b.wrapping_add(i * 7), dk)).collect() };
            c.push(Case::FwVer { scs: fw_pass(0xA0, &mut dk) }, rng);
            c.push(Case::Fpga { open: true, recv: Recv::Rx { kinds: (0..n).map(|d| Kind::E(0x80 + d as u8)).collect(), base: 0xFE } }, rng);
            c.push(Case::Fpga { open: true, recv: Recv::Rx { kinds: (0..n).map(|d| Kind::E(d as u8)).collect(), base: 0x7F } }, rng);
            // a fetch fails on a link fault after a poll in which only the disabled devices "acknowledge"
            for j in [0usize, 3, 5] {
                let mut scs = fw_pass((j * 16) as u8, &mut dk);
                scs[j] = SendS {
                    update_ok: true,
                    frames: vec![FrameS {
                        open: true,
                        send_ok: true,
                        polls: vec![
                            PollS::Poll { recv: Recv::Rx { kinds: mask.iter().map(|e| if *e { Kind::P } else { Kind::R }).collect(), base: 0x33 }, late: false },
                            if j == 3 { PollS::Closed } else { PollS::Poll { recv: Recv::Err, late: false } },
                        ],
                    }],
                };
                for s in scs.iter_mut().skip(j + 1) {
                    *s = empty_send();
                }
                if mask.iter().any(|e| *e) {
                    c.push(Case::FwVer { scs }, rng);
                }
            }
            // … and on a time-out (200 ms) while a disabled device holds an error acknowledgement
            if mask.iter().any(|e| *e) && (thorough || mi % 2 == 0) {
                let mut scs = fw_pass(0x51, &mut dk);
                scs[1] = SendS {
                    update_ok: true,
                    frames: vec![FrameS { open: true, send_ok: true, polls: vec![PollS::Poll { recv: Recv::Rx { kinds: mask.iter().map(|e| if *e { Kind::P } else { Kind::E(0x88) }).collect(), base: 0x44 }, late: true }] }],
                };
                for s in scs.iter_mut().skip(2) {
                    *s = empty_send();
                }
                c.push(Case::FwVer { scs }, rng);
            }
            c.push(Case::FwVer { scs: fw_pass(0x07, &mut dk) }, rng);
            // close enables every device: all of them must acknowledge its three datagrams
            let variant = mi % 3;
            let close = if variant == 0 || (!thorough && variant == 2) {
                pass_close(n)
            } else {
                // a device that was disabled does not acknowledge the first / last datagram of close (200 ms)
                let lag: Vec<Kind> = mask.iter().map(|e| if *e { Kind::R } else { Kind::P }).collect();
                let bad = SendS { update_ok: true, frames: vec![FrameS { open: true, send_ok: true, polls: vec![PollS::Poll { recv: Recv::Rx { kinds: lag, base: 9 }, late: true }] }] };
                let mut sends = [pass_send(n, 1, 1), pass_send(n, 1, 2), pass_send(n, 1, 3)];
                sends[if variant == 1 { 0 } else { 2 }] = bad;
                CloseS::Open { sends, close_ok: true }
            };
            c.push(Case::Close { c: close, drop: CloseS::Closed }, rng);
            out.push(c);
        }
    }

    // ---- random scenarios: masks change between calls -------------------------------------------------
    let nrand = if thorough { 60_000 } else { 3_000 };
    let mut made = 0;
    let mut nchunk = 0usize;
    while made < nrand {
        nchunk += 1;
        let n = 2 + rng.below(3) as usize;
        let mut c = MaskChunk::new(n, *rng.pick(&[T::S, T::L, T::Z]));
        if nchunk % 4 == 2 {
            // (`sender_async`; no line in `sender`) the whole scenario on a multi-thread runtime
            let f = Case::Flavor { mt: true, sync_dup: false };
            c.cases.insert(0, f.clone());
            c.twin.insert(0, f);
        }
        let len = 40 + rng.below(60) as usize;
        for i in 0..len {
            if i == 0 || rng.chance(1, 7) {
                let mut m: Vec<bool> = (0..n).map(|_| rng.chance(3, 5)).collect();
                if rng.chance(1, 12) {
                    m = vec![true; n];
                }
                c.enable(&m);
                continue;
            }
            let mask = c.mask.clone();
            let r = rng.below(100);
            if r < 2 {
                c.push(Case::SendX { t: *rng.pick(&[T::Z, T::S, T::N]), td: *rng.pick(&[T::Z, T::S, T::L]) }, rng);
                continue;
            }
            if r < 5 {
                let recv = if rng.chance(1, 6) { Recv::Err } else { Recv::Rx { kinds: (0..n).map(|_| Kind::E(rng.below(256) as u8)).collect(), base: rng.below(256) as u8 } };
                c.push(Case::Fpga { open: rng.chance(5, 6), recv }, rng);
                continue;
            }
            if r < 7 {
                // firmware_version: passes, or fails early on a link fault (no 200 ms waits here)
                let jf = rng.below(9) as usize;
                let mut dk = || Kind::G;
                let mut scs: Vec<SendS> = (0..6).map(|i| pass_send_m(&mask, 1, (i * 9) as u8, &mut dk)).collect();
                for s in scs.iter_mut() {
                    for f in s.frames.iter_mut() {
                        if let PollS::Poll { recv: Recv::Rx { kinds, .. }, .. } = &mut f.polls[0] {
                            for (d, kd) in kinds.iter_mut().enumerate() {
                                if !mask[d] {
                                    *kd = rand_disabled_kind(rng);
                                }
                            }
                        }
                    }
                }
                if jf < 6 {
                    scs[jf] = match rng.below(3) {
                        0 => SendS { update_ok: false, frames: vec![] },
                        1 => SendS { update_ok: true, frames: vec![FrameS { open: false, send_ok: true, polls: vec![] }] },
                        _ => SendS { update_ok: true, frames: vec![FrameS { open: true, send_ok: true, polls: vec![PollS::Poll { recv: Recv::Err, late: false }] }] },
                    };
                    for s in scs.iter_mut().skip(jf + 1) {
                        *s = empty_send();
                    }
                }
                c.push(Case::FwVer { scs }, rng);
                continue;
            }
            let t = *rng.pick(&[T::Z, T::Z, T::S, T::L, T::L, T::N]);
            let td = *rng.pick(&[T::Z, T::S, T::L]);
            let te = eff(t, td);
            let fv: Vec<u8> = (0..n).map(|_| *rng.pick(&[0u8, 1, 1, 2, 2, 3])).collect();
            let k = if thorough { 4 } else { 3 };
            let sc = rand_send_m(n, &mask, &fv, te, k, rng);
            c.push(Case::Send { t, td, par: rng.below(3) as u8, frames: fv, sc }, rng);
            made += 1;
        }
        if rng.chance(1, 3) {
            c.push(Case::Close { c: pass_close(n), drop: CloseS::Closed }, rng);
        }
        out.push(c);
    }
    out
}

fn plain_open(n: usize, t: T) -> Case {
    let t = if t == T::N { T::N } else { t };
    Case::Open { n, t, open_ok: true, ff: pass_send(n, 1, 0x10), cs: pass_send(n, 1, 0x20), drop: CloseS::Closed }
}

fn pass_close(n: usize) -> CloseS {
    CloseS::Open { sends: [pass_send(n, 1, 1), pass_send(n, 1, 2), pass_send(n, 1, 3)], close_ok: true }
}

fn build_plan(thorough: bool, seed: u64) -> Plan {
    let mut rng = Rng::new(seed ^ 0xC04);
    let mut chunks: Vec<Vec<Case>> = vec![];
    let mut twins: Vec<Option<Vec<Case>>> = vec![];
    let mut ecode = 0u32;

    // ---- corpus / witnesses first -------------------------------------------------------------
    // (m) enable masks: the minimal scripts of the two enable-related regressions (own generator state,
    //     so that the cases below are the same as before the masks were added)
    let mut mrng = Rng::new(seed ^ 0xC04_E0AB);
    for c in mask_corpus(&mut mrng) {
        chunks.push(c.cases);
        twins.push(Some(c.twin));
    }
    // (a) the scenarios the property text names: ack on the third poll; error ack from the second
    //     device only; a stale ack from one device; the link closing between send and receive
    {
        let n = 2;
        let mut c = vec![plain_open(n, T::S)];
        let np = |kinds: Vec<Kind>, late: bool| PollS::Poll { recv: Recv::Rx { kinds, base: 0x40 }, late };
        c.push(Case::Send {
            t: T::S, td: T::S, par: 0, frames: vec![1, 1],
            sc: SendS { update_ok: true, frames: vec![FrameS { open: true, send_ok: true, polls: vec![np(vec![Kind::P, Kind::P], false), np(vec![Kind::R, Kind::P], false), np(vec![Kind::R, Kind::R], false)] }] },
        });
        c.push(Case::Send {
            t: T::S, td: T::S, par: 0, frames: vec![1, 1],
            sc: SendS { update_ok: true, frames: vec![FrameS { open: true, send_ok: true, polls: vec![np(vec![Kind::R, Kind::E(0x88)], true)] }] },
        });
        c.push(Case::Send {
            t: T::S, td: T::S, par: 0, frames: vec![2, 2],
            sc: SendS { update_ok: true, frames: vec![pass_frame(n, 0), FrameS { open: true, send_ok: true, polls: vec![np(vec![Kind::R, Kind::P], false), np(vec![Kind::R, Kind::P], true)] }] },
        });
        c.push(Case::Send {
            t: T::L, td: T::S, par: 0, frames: vec![1, 1],
            sc: SendS { update_ok: true, frames: vec![FrameS { open: true, send_ok: true, polls: vec![PollS::Closed] }] },
        });
        c.push(Case::Send {
            t: T::Z, td: T::S, par: 0, frames: vec![2, 1],
            sc: SendS { update_ok: true, frames: vec![FrameS { open: true, send_ok: true, polls: vec![np(vec![Kind::G, Kind::P], true)] }, FrameS { open: true, send_ok: true, polls: vec![np(vec![Kind::P, Kind::E(0x8E)], true)] }] },
        });
        c.push(Case::SendX { t: T::N, td: T::Z });
        c.push(Case::Close { c: pass_close(n), drop: CloseS::Closed });
        chunks.push(c);
    }
    // (b) every left-over message id on real emulators
    {
        let mut c = vec![];
        for id in 0..=255u8 {
            c.push(Case::Stale { ids: vec![id] });
        }
        for id in [0u8, 1, 2, 3, 0x7F, 0x80, 0xFF] {
            c.push(Case::Stale { ids: vec![id, 1, 2] });
            c.push(Case::Stale { ids: vec![2, id] });
        }
        if thorough {
            for a in 0..=255u8 {
                c.push(Case::Stale { ids: vec![a, a.wrapping_add(1)] });
                c.push(Case::Stale { ids: vec![1, 2, a] });
            }
        }
        // split so that several workers share them
        for part in c.chunks(64) {
            chunks.push(part.to_vec());
        }
    }

    // ---- exhaustive poll behaviours of one frame ---------------------------------------------
    // frame position j of F frames, the frames before it acknowledged at once
    let k_ex = |n: usize| -> usize {
        if thorough {
            match n {
                1 => 5,
                2 => 4,
                _ => 2,
            }
        } else {
            match n {
                1 => 4,
                2 => 3,
                _ => 2,
            }
        }
    };
    for n in 1..=3usize {
        for t in [T::Z, T::S, T::L] {
            let lists = poll_lists(n, k_ex(n), t, &mut ecode, &mut rng);
            let positions: Vec<(usize, usize)> = if n == 2 && thorough { vec![(0, 1), (2, 3)] } else { vec![(0, 1), (0, 3), (1, 3), (2, 3)] };
            for (j, nf) in positions {
                let mut cases = vec![];
                for (li, pl) in lists.iter().enumerate() {
                    // S-late cases cost a sleep each: thin the biggest class in the quick tier
                    let late = pl.iter().any(|p| matches!(p, PollS::Poll { late: true, .. }));
                    if t == T::S && late && n == 2 && !thorough && pl.len() == 3 && (li + j) % 4 != 0 {
                        continue;
                    }
                    let mut frames: Vec<FrameS> = (0..j).map(|i| pass_frame(n, (i * 16) as u8)).collect();
                    let f = FrameS { open: true, send_ok: true, polls: pl.clone() };
                    let pass = frame_passes(&f, t == T::Z);
                    frames.push(f);
                    if pass {
                        for i in j + 1..nf {
                            frames.push(pass_frame(n, (i * 16) as u8));
                        }
                    }
                    // per-device frame counts: device 0 takes nf frames, others vary (incl. fewer)
                    let fv: Vec<u8> = (0..n).map(|d| if d == 0 { nf as u8 } else { ((li + d) % (nf + 1)) as u8 }).collect();
                    let (tt, td) = if li % 5 == 4 { (T::N, t) } else { (t, *rng.pick(&[T::Z, T::S, T::L])) };
                    cases.push(Case::Send { t: tt, td, par: (li % 3) as u8, frames: fv, sc: SendS { update_ok: true, frames } });
                }
                for part in cases.chunks(96) {
                    let mut c = vec![plain_open(n, *rng.pick(&[T::S, T::L, T::Z]))];
                    c.extend(part.iter().cloned());
                    chunks.push(c);
                }
            }
        }
    }

    // ---- link-level faults at every position --------------------------------------------------
    for n in 1..=3usize {
        let mut c = vec![plain_open(n, T::S)];
        for nf in 1..=3usize {
            for j in 0..nf {
                for fault in 0..3 {
                    let mut frames: Vec<FrameS> = (0..j).map(|i| pass_frame(n, i as u8)).collect();
                    frames.push(match fault {
                        0 => FrameS { open: false, send_ok: true, polls: vec![] },
                        1 => FrameS { open: true, send_ok: false, polls: vec![] },
                        _ => FrameS { open: true, send_ok: true, polls: vec![PollS::Poll { recv: Recv::Err, late: false }] },
                    });
                    for t in [T::Z, T::S, T::L] {
                        c.push(Case::Send { t, td: T::S, par: 0, frames: vec![nf as u8; n], sc: SendS { update_ok: true, frames: frames.clone() } });
                    }
                }
            }
            c.push(Case::Send { t: T::S, td: T::S, par: 0, frames: vec![nf as u8; n], sc: SendS { update_ok: false, frames: vec![] } });
        }
        // operations that are done before the first pack: the old frame goes out again
        c.push(Case::Send { t: T::S, td: T::S, par: 0, frames: vec![0; n], sc: pass_send(n, 1, 0) });
        c.push(Case::SendX { t: T::S, td: T::S });
        chunks.push(c);
    }

    // ---- message id wrap: > 128 frames on one controller --------------------------------------
    for n in [1usize, 3] {
        let mut c = vec![plain_open(n, T::L)];
        for i in 0..70 {
            let fv: Vec<u8> = (0..n).map(|d| if (i + d) % 7 == 0 { 1 } else { 2 }).collect();
            c.push(Case::Send { t: T::L, td: T::S, par: 0, sc: pass_send(n, turns(&fv), i as u8), frames: fv });
        }
        let np = |kinds: Vec<Kind>, late: bool| PollS::Poll { recv: Recv::Rx { kinds, base: 0 }, late };
        for _ in 0..4 {
            c.push(Case::Send { t: T::S, td: T::S, par: 0, frames: vec![1; n], sc: SendS { update_ok: true, frames: vec![FrameS { open: true, send_ok: true, polls: vec![np(vec![Kind::P; n], false), np(vec![Kind::G; n], false), np(vec![Kind::R; n], false)] }] } });
        }
        chunks.push(c);
    }

    // ---- open: faults in the throw-away frame and in (Clear, Synchronize); Drop ---------------
    for n in 1..=3usize {
        let mut ec2 = 0u32;
        for t in [T::S, T::Z, T::L, T::N] {
            let te = if t == T::N { T::S } else { t }; // N = datagram default (200 ms): treat like S for scripting
            let lists = poll_lists(n.min(2), if n == 1 { 2 } else { 1 }, te, &mut ec2, &mut rng);
            for (li, pl) in lists.iter().enumerate() {
                if t == T::N && li % 6 != 0 {
                    continue; // a late poll costs 200 ms here
                }
                if n == 3 && li % 3 != 0 {
                    continue;
                }
                let widen = |pl: &Vec<PollS>| -> Vec<PollS> {
                    pl.iter()
                        .map(|p| match p {
                            PollS::Poll { recv: Recv::Rx { kinds, base }, late } => {
                                let mut ks = kinds.clone();
                                while ks.len() < n {
                                    ks.push(ks[0]);
                                }
                                PollS::Poll { recv: Recv::Rx { kinds: ks, base: *base }, late: *late }
                            }
                            p => p.clone(),
                        })
                        .collect()
                };
                let f = FrameS { open: true, send_ok: true, polls: widen(pl) };
                // fault in ForceFan (ignored), then a passing Clear+Sync; follow with one send
                let mut c = vec![Case::Open { n, t, open_ok: true, ff: SendS { update_ok: true, frames: vec![f.clone()] }, cs: pass_send(n, 1, 0x30), drop: CloseS::Closed }];
                c.push(Case::Send { t: T::L, td: T::S, par: 0, frames: vec![1; n], sc: pass_send(n, 1, 0) });
                chunks.push(c);
                // fault in Clear+Sync: open fails unless the script passes
                let pass = frame_passes(&f, te == T::Z);
                let drop = if pass || li % 4 != 1 { CloseS::Closed } else { pass_close(n) };
                let mut c = vec![Case::Open { n, t, open_ok: true, ff: pass_send(n, 1, 0x10), cs: SendS { update_ok: true, frames: vec![f] }, drop }];
                if pass {
                    c.push(Case::Send { t: T::L, td: T::S, par: 0, frames: vec![1; n], sc: pass_send(n, 1, 0) });
                }
                if matches!(c[0], Case::Open { drop: CloseS::Open { .. }, .. }) {
                    // C11: the same failing open on a multi-thread runtime, where the async `Drop` must close the link
                    let mut m = vec![Case::Flavor { mt: true, sync_dup: true }];
                    m.extend(c.iter().cloned());
                    chunks.push(c);
                    chunks.push(m);
                } else {
                    chunks.push(c);
                }
            }
        }
        // link.open fails; update/send/is_open faults in either send of open
        chunks.push(vec![Case::Open { n, t: T::S, open_ok: false, ff: empty_send(), cs: empty_send(), drop: CloseS::Closed }]);
        for which in 0..2 {
            for fault in 0..3 {
                let bad = match fault {
                    0 => SendS { update_ok: false, frames: vec![] },
                    1 => SendS { update_ok: true, frames: vec![FrameS { open: false, send_ok: true, polls: vec![] }] },
                    _ => SendS { update_ok: true, frames: vec![FrameS { open: true, send_ok: false, polls: vec![] }] },
                };
                let (ff, cs) = if which == 0 { (bad, pass_send(n, 1, 0)) } else { (pass_send(n, 1, 0), bad) };
                let drop = if which == 1 && fault == 2 { pass_close(n) } else { CloseS::Closed };
                let mut c = vec![Case::Open { n, t: T::S, open_ok: true, ff, cs, drop }];
                if which == 0 {
                    c.push(Case::Send { t: T::L, td: T::S, par: 0, frames: vec![2; n], sc: pass_send(n, 2, 0) });
                }
                if which == 1 && fault == 2 {
                    let mut m = vec![Case::Flavor { mt: true, sync_dup: true }];
                    m.extend(c.iter().cloned());
                    chunks.push(m);
                }
                chunks.push(c);
            }
        }
    }

    // ---- close, firmware_version, fpga_state ---------------------------------------------------
    for n in 1..=3usize {
        // close with a fault in each of its steps (all steps still run; first error wins)
        for step in 0..5 {
            for fault in 0..4 {
                let bad = match fault {
                    0 => SendS { update_ok: false, frames: vec![] },
                    1 => SendS { update_ok: true, frames: vec![FrameS { open: false, send_ok: true, polls: vec![] }] },
                    2 => SendS { update_ok: true, frames: vec![FrameS { open: true, send_ok: true, polls: vec![PollS::Poll { recv: Recv::Err, late: false }] }] },
                    _ => SendS { update_ok: true, frames: vec![FrameS { open: true, send_ok: true, polls: vec![PollS::Poll { recv: Recv::Rx { kinds: (0..n).map(|d| if d == n - 1 { Kind::E(0x80 + (step * 4 + fault) as u8 % 16) } else { Kind::R }).collect(), base: 9 }, late: true }] }] },
                };
                if fault == 3 && (n != 2 && step != 0) {
                    continue; // 200 ms each
                }
                let mut sends = [pass_send(n, 1, 1), pass_send(n, 1, 2), pass_send(n, 1, 3)];
                let mut close_ok = true;
                if step < 3 {
                    sends[step] = bad;
                } else if step == 3 {
                    close_ok = false;
                    if fault > 0 {
                        continue;
                    }
                } else {
                    // two faults: the first one is reported
                    sends[0] = bad.clone();
                    sends[2] = SendS { update_ok: true, frames: vec![FrameS { open: true, send_ok: false, polls: vec![] }] };
                    close_ok = false;
                }
                chunks.push(vec![plain_open(n, T::S), Case::Send { t: T::L, td: T::S, par: 0, frames: vec![1; n], sc: pass_send(n, 1, 0) }, Case::Close { c: CloseS::Open { sends, close_ok }, drop: CloseS::Closed }]);
            }
        }
        chunks.push(vec![plain_open(n, T::S), Case::Close { c: CloseS::Closed, drop: CloseS::Closed }]);

        // firmware_version / fpga_state, interleaved so that stale buffer contents matter
        let mut c = vec![plain_open(n, T::S)];
        let fw_pass = |b: u8| -> Vec<SendS> { (0..6).map(|i| pass_send(n, 1, b.wrapping_add(i * 7))).collect() };
        c.push(Case::FwVer { scs: fw_pass(0xA0) });
        c.push(Case::Fpga { open: true, recv: Recv::Rx { kinds: (0..n).map(|d| Kind::E(d as u8)).collect(), base: 0x7E } });
        c.push(Case::Fpga { open: true, recv: Recv::Rx { kinds: (0..n).map(|d| Kind::E(0x80 + d as u8)).collect(), base: 0xFE } });
        c.push(Case::Fpga { open: false, recv: Recv::Err });
        c.push(Case::Fpga { open: true, recv: Recv::Err });
        for j in 0..6usize {
            for fault in 0..4 {
                let mut scs = fw_pass((j * 16 + fault) as u8);
                scs[j] = match fault {
                    0 => SendS { update_ok: false, frames: vec![] },
                    1 => SendS { update_ok: true, frames: vec![FrameS { open: false, send_ok: true, polls: vec![] }] },
                    2 => SendS { update_ok: true, frames: vec![FrameS { open: true, send_ok: true, polls: vec![PollS::Closed] }] },
                    _ => SendS { update_ok: true, frames: vec![FrameS { open: true, send_ok: true, polls: vec![PollS::Poll { recv: Recv::Rx { kinds: (0..n).map(|d| if d == 0 && n > 1 { Kind::R } else { Kind::P }).collect(), base: 0x33 }, late: false }, PollS::Poll { recv: Recv::Err, late: false }] }] },
                };
                for s in scs.iter_mut().skip(j + 1) {
                    *s = empty_send();
                }
                // make the stale rx interesting: an fpga_state read whose acks are near the ids to come
                if fault == 1 {
                    c.push(Case::Fpga { open: true, recv: rx_explicit(n, j as u8) });
                }
                c.push(Case::FwVer { scs });
            }
        }
        chunks.push(c);
    }

    // ---- Drop at the end of `close(self)` while the link (still / again) says it is open ------------
    // `link.close` failed, or the link keeps answering "open" after a close that succeeded: the sync copy's `Drop`
    // runs `close_impl` once more; the async copy's does so on a multi-thread runtime and only asks `is_open` on a
    // current-thread one.  Every variant on both flavours (no generator draws: the cases below stay as they were)
    for n in 1..=3usize {
        let failing_close = |close_ok: bool| CloseS::Open { sends: [pass_send(n, 1, 1), pass_send(n, 1, 2), pass_send(n, 1, 3)], close_ok };
        let bad_update = SendS { update_ok: false, frames: vec![] };
        let bad_send = SendS { update_ok: true, frames: vec![FrameS { open: true, send_ok: false, polls: vec![] }] };
        let variants: Vec<(CloseS, CloseS)> = vec![
            (failing_close(false), pass_close(n)),
            (pass_close(n), pass_close(n)),
            (failing_close(false), CloseS::Open { sends: [pass_send(n, 1, 4), bad_update.clone(), pass_send(n, 1, 6)], close_ok: true }),
            (failing_close(false), failing_close(false)),
            (CloseS::Closed, pass_close(n)),
            (CloseS::Open { sends: [bad_send.clone(), pass_send(n, 1, 2), pass_send(n, 1, 3)], close_ok: true }, CloseS::Open { sends: [pass_send(n, 1, 4), pass_send(n, 1, 5), bad_send.clone()], close_ok: true }),
        ];
        for (c, drop) in variants {
            for mt in [false, true] {
                let mut ch = vec![];
                if mt {
                    ch.push(Case::Flavor { mt: true, sync_dup: true });
                }
                ch.push(plain_open(n, T::S));
                ch.push(Case::Send { t: T::L, td: T::S, par: 0, frames: vec![2; n], sc: pass_send(n, 2, 0) });
                if n == 2 {
                    // … with a device disabled: close (and Drop's close) enable every device first
                    ch.push(Case::Enable { mask: vec![true, false] });
                }
                ch.push(Case::Close { c: c.clone(), drop: drop.clone() });
                chunks.push(ch);
            }
        }
    }

    // ---- random multi-frame scenarios ----------------------------------------------------------
    let nrand = if thorough { 150_000 } else { 8_000 };
    let mut made = 0;
    let mut nchunk = 0usize;
    while made < nrand {
        nchunk += 1;
        let n = 1 + rng.below(3) as usize;
        let mut c = vec![];
        if nchunk % 4 == 1 {
            // (`sender_async`; no line in `sender`) the whole scenario on a multi-thread runtime
            c.push(Case::Flavor { mt: true, sync_dup: false });
        }
        c.push(plain_open(n, *rng.pick(&[T::S, T::L, T::Z])));
        let len = 40 + rng.below(80) as usize;
        for _ in 0..len {
            let r = rng.below(100);
            if r < 2 {
                c.push(Case::SendX { t: *rng.pick(&[T::Z, T::S, T::N]), td: *rng.pick(&[T::Z, T::S, T::L]) });
                continue;
            }
            if r < 4 {
                c.push(Case::Fpga { open: rng.chance(5, 6), recv: if rng.chance(1, 6) { Recv::Err } else { Recv::Rx { kinds: (0..n).map(|_| Kind::E(rng.below(256) as u8)).collect(), base: rng.below(256) as u8 } } });
                continue;
            }
            // Z gets more weight than S: S-late polls cost wall time
            let t = *rng.pick(&[T::Z, T::Z, T::S, T::L, T::L, T::N]);
            let td = *rng.pick(&[T::Z, T::S, T::L]);
            let te = eff(t, td);
            let fv: Vec<u8> = (0..n).map(|_| *rng.pick(&[0u8, 1, 1, 2, 2, 3])).collect();
            let k = if thorough { 4 } else { 3 };
            let sc = rand_send(n, &fv, te, k, &mut rng);
            c.push(Case::Send { t, td, par: rng.below(3) as u8, frames: fv, sc });
            made += 1;
        }
        if rng.chance(1, 3) {
            c.push(Case::Close { c: pass_close(n), drop: CloseS::Closed });
        }
        chunks.push(c);
    }
    // ---- the same kinds of cases under enable masks ------------------------------------------------
    twins.resize(chunks.len(), None);
    for c in mask_chunks(thorough, &mut mrng) {
        chunks.push(c.cases);
        twins.push(Some(c.twin));
    }
    Plan { chunks, twins }
}

fn rx_explicit(n: usize, j: u8) -> Recv {
    Recv::Rx { kinds: (0..n).map(|d| Kind::E(j.wrapping_mul(3).wrapping_add(d as u8) & 0x7F)).collect(), base: 0x55 }
}

// ------------------------------------------------------------------------------------------------
// driver
// ------------------------------------------------------------------------------------------------

struct Emitted {
    op: String,
    answer: String,
    sig: Option<u64>,
    counts: Vec<String>,
    violation: Option<(String, String, Vec<String>)>,
}

fn classify(case: &Case, ran: &Ran) -> (Option<u64>, Vec<String>) {
    let mut counts = vec![];
    let kind = match case {
        Case::Open { .. } => "open",
        Case::Send { .. } => "send",
        Case::SendX { .. } => "sendx",
        Case::FwVer { .. } => "fwver",
        Case::Fpga { .. } => "fpga",
        Case::Close { .. } => "close",
        Case::Enable { .. } => "enable",
        Case::Stale { .. } => "stale",
        Case::Flavor { .. } => "flavor",
    };
    counts.push(format!("op:{kind}"));
    if ran.mt {
        counts.push(format!("runtime:multi-thread:{kind}"));
    }
    if ran.boxed {
        counts.push(format!("link:boxed(Box<dyn AsyncLink>):{kind}"));
    }
    if matches!(case, Case::Open { .. } | Case::Send { .. }) {
        counts.push(format!("sleep_until-calls:{}", ran.sleeps.min(9)));
    }
    match case {
        Case::Close { drop: CloseS::Open { .. }, .. } => counts.push(format!("drop-after-close:link-says-open:{}", if ran.drop_must_close { "Drop-closes" } else { "Drop-only-asks" })),
        Case::Open { drop: CloseS::Open { .. }, .. } if ran.result != "ok" => counts.push(format!("drop-after-failed-open:link-says-open:{}", if ran.drop_must_close { "Drop-closes" } else { "Drop-only-asks" })),
        _ => {}
    }
    if ran.en.iter().any(|e| !*e) && !matches!(case, Case::Enable { .. }) {
        counts.push(format!("masked:{kind}"));
        let en = &ran.en;
        let first_en = en.iter().position(|e| *e);
        let last_en = en.iter().rposition(|e| *e);
        match (first_en, last_en) {
            (Some(f), Some(l)) => {
                if en[..f].iter().any(|e| !*e) {
                    counts.push("mask:disabled-below-enabled".into());
                }
                if en[f..=l].iter().any(|e| !*e) {
                    counts.push("mask:disabled-between-enabled".into());
                }
                if en[l..].iter().any(|e| !*e) {
                    counts.push("mask:disabled-above-enabled".into());
                }
            }
            _ => counts.push("mask:all-disabled".into()),
        }
        let scripts: Vec<&SendS> = match case {
            Case::Send { sc, .. } => vec![sc],
            Case::FwVer { scs } => scs.iter().collect(),
            _ => vec![],
        };
        let mut says = std::collections::BTreeSet::new();
        let mut enabled_behind = std::collections::BTreeSet::new();
        for sc in scripts {
            for f in &sc.frames {
                for p in &f.polls {
                    if let PollS::Poll { recv: Recv::Rx { kinds, .. }, late } = p {
                        for (i, k) in kinds.iter().enumerate() {
                            if !en.get(i).copied().unwrap_or(true) {
                                says.insert(match k {
                                    Kind::R => "disabled-says:awaited-id",
                                    Kind::P => "disabled-says:previous-id",
                                    Kind::G => "disabled-says:garbage-id",
                                    Kind::E(c) if (0x80..=0x8F).contains(c) => "disabled-says:firmware-error",
                                    Kind::E(c) if c & 0x80 != 0 => "disabled-says:other-error-bit",
                                    Kind::E(_) => "disabled-says:other-byte",
                                });
                            } else if en[..i].iter().any(|e| !*e) {
                                enabled_behind.insert(match k {
                                    Kind::R => "enabled-behind-disabled:acknowledges",
                                    Kind::P | Kind::G if *late => "enabled-behind-disabled:missing-at-timeout",
                                    Kind::P | Kind::G => "enabled-behind-disabled:late",
                                    Kind::E(c) if c & 0x80 != 0 => "enabled-behind-disabled:error-ack",
                                    Kind::E(_) => "enabled-behind-disabled:late",
                                });
                            }
                        }
                    }
                }
            }
        }
        for x in says.into_iter().chain(enabled_behind) {
            counts.push(x.into());
        }
    }
    let rk = ran.result.split(['(', '[', ' ']).next().unwrap_or("").to_string();
    counts.push(format!("result:{rk}"));
    if let Case::Send { t, td, frames, sc, .. } = case {
        counts.push(format!("timeout:{}", eff(*t, *td).ch()));
        counts.push(format!("devices:{}", frames.len()));
        counts.push(format!("frames-sent:{}", ran.calls.iter().filter(|c| matches!(c, Call::Send(_, true))).count()));
        let polls = ran.calls.iter().filter(|c| matches!(c, Call::Recv(..))).count();
        counts.push(format!("polls:{}", polls.min(9)));
        if sc.has_late() {
            counts.push("late-poll-cases".into());
        }
        if frames.iter().any(|f| *f == 0) || frames.iter().min() != frames.iter().max() {
            counts.push("unequal-or-empty-ops".into());
        }
        if ran.calls.iter().any(|c| matches!(c, Call::Send(f, _) if f.iter().any(|x| x.0 == 0))) {
            counts.push("msg-id-wrap".into());
        }
    }
    // trivial = plain success with one immediate acknowledgement per frame
    let trivial = match case {
        Case::Send { sc, .. } => ran.result == "ok" && sc.frames.iter().all(|f| f.polls.len() == 1 && matches!(&f.polls[0], PollS::Poll { recv, late: false } if recv.all_right())),
        Case::Open { ff, cs, .. } => ran.result == "ok" && ff.frames.iter().chain(cs.frames.iter()).all(|f| f.polls.len() == 1 && matches!(&f.polls[0], PollS::Poll { recv, late: false } if recv.all_right())),
        Case::Stale { .. } => false,
        Case::Enable { .. } | Case::Flavor { .. } => true,
        _ => false,
    };
    let sig = if trivial {
        None
    } else {
        // distinct by script shape (data bytes and concrete ids erased) and result
        let t = case.text();
        let shape: String = {
            let mut s = String::new();
            let mut skip = 0;
            for ch in t.chars() {
                if skip > 0 {
                    skip -= 1;
                    continue;
                }
                if ch == ':' {
                    skip = 2;
                    continue;
                }
                s.push(ch);
            }
            s
        };
        Some(fnv64(format!("{shape}|{}|{}{}", ran.result, bits(&ran.en), if ran.mt { "|mt" } else { "" }).as_bytes()))
    };
    (sig, counts)
}

fn check_oracle(case: &Case, ran: &Ran) -> Option<(String, String, Vec<String>)> {
    let mk = |what: String| {
        let key = if ran.en.iter().any(|e| !*e) {
            format!("sender:enable_{}:{}", bits(&ran.en), case.text().replace(' ', "_"))
        } else {
            format!("sender:{}", case.text().replace(' ', "_"))
        };
        let key = if key.len() > 160 { format!("{}#{:016x}", &key[..140], fnv64(key.as_bytes())) } else { key };
        let mut replay = vec![];
        if ran.en.iter().any(|e| !*e) {
            // context: the controller was opened with this many devices and these enable flags were set
            replay.push(format!("enable {}", bits(&ran.en)));
        }
        replay.push(case.text());
        replay.push(format!("-> {}", ran.answer));
        Some((key, what, replay))
    };
    if ran.result.starts_with("panic") {
        return mk(format!("the call panicked: {}", ran.result));
    }
    if ran.drop_must_close && ran.mt {
        // (C11; the sync copy's `Drop` is outside C04's statement) a controller dropped while the link says it is open closes it (sync copy; async copy on a multi-thread
        // runtime): `Drop` asks `is_open`, `close_impl` asks again, sends and calls `link.close`
        let n_close = ran.calls.iter().filter(|c| matches!(c, Call::Close(_))).count();
        let want = if matches!(case, Case::Close { c: CloseS::Open { .. }, .. }) { 2 } else { 1 };
        let drop_script_says_open = match case {
            Case::Close { drop: CloseS::Open { .. }, .. } | Case::Open { drop: CloseS::Open { .. }, .. } => true,
            _ => false,
        };
        if drop_script_says_open && n_close < want {
            return mk(format!("the controller was dropped while the link said it was open and `link.close` was not called ({n_close} close call(s), {want} expected): the devices are left as they were"));
        }
    }
    match case {
        Case::Send { t, td, .. } => {
            let tz = eff(*t, *td) == T::Z;
            if let Some(w) = oracle_send(tz, &ran.en, &ran.calls, &ran.result) {
                return mk(w);
            }
            None
        }
        Case::FwVer { .. } => oracle_fwver(&ran.en, &ran.calls, &ran.result).and_then(mk),
        Case::Close { .. } => oracle_close(ran.en.len(), &ran.calls, &ran.result).and_then(mk),
        Case::Enable { mask } => {
            if ran.result != format!("set {}", bits(mask)) {
                return mk(format!("enable flags read back as `{}`", ran.result));
            }
            None
        }
        Case::Open { t, open_ok, .. } => {
            if !*open_ok {
                return None;
            }
            // split at the `update` calls: [open] [ForceFan] [Clear+Sync] [drop…]
            let tz = *t == T::Z;
            let segs = segments(&ran.calls);
            if segs.len() >= 2 {
                // the second send decides; cut its segment where Drop starts (after a failure)
                let mut seg = segs[1].clone();
                if ran.result != "ok" {
                    // Drop's `is_open` is the call right after the failing one: find the end of the send
                    // by re-running the oracle on growing prefixes is overkill; use the structural end:
                    // update, then per frame is_open, send, (is_open, recv)*
                    let mut end = seg.len();
                    let mut i = 1;
                    if matches!(seg[0], Call::Update(false)) {
                        end = 1;
                        i = seg.len();
                    }
                    'outer: while i < seg.len() {
                        // frame-level is_open
                        if !matches!(seg[i], Call::IsOpen(true)) {
                            end = i + 1;
                            break;
                        }
                        if i + 1 >= seg.len() || !matches!(seg[i + 1], Call::Send(_, true)) {
                            end = (i + 2).min(seg.len());
                            break;
                        }
                        i += 2;
                        loop {
                            if i >= seg.len() {
                                break 'outer;
                            }
                            if !matches!(seg[i], Call::IsOpen(true)) {
                                end = i + 1;
                                break 'outer;
                            }
                            match seg.get(i + 1) {
                                Some(Call::Recv(None, _)) => {
                                    end = i + 2;
                                    break 'outer;
                                }
                                Some(Call::Recv(Some(_), late)) => {
                                    if *late {
                                        end = i + 2;
                                        break 'outer;
                                    }
                                    i += 2;
                                }
                                _ => {
                                    end = i + 1;
                                    break 'outer;
                                }
                            }
                        }
                    }
                    seg.truncate(end);
                }
                // a fresh geometry: every device is enabled
                let all = vec![true; seg.iter().find_map(|c| if let Call::Send(f, _) = c { Some(f.len()) } else { None }).unwrap_or(0)];
                if let Some(w) = oracle_send(tz, &all, &seg, &ran.result) {
                    return mk(format!("open: {w}"));
                }
            }
            None
        }
        Case::Stale { ids } => {
            // the property itself: whatever id the devices were left with, open initialises them and
            // the first real datagram takes effect
            let n = ids.len();
            let want = format!("ok/ok clear={0} sync={0} first={0}", "1".repeat(n));
            if ran.result != want {
                let key = format!("stale-id:{}", ids.iter().map(|i| i.to_string()).collect::<Vec<_>>().join(","));
                return Some((key, format!("devices left with message ids {ids:?}: open/first datagram gave `{}` (expected `{want}`)", ran.result), vec![case.text(), format!("-> {}", ran.answer)]));
            }
            None
        }
        _ => None,
    }
}

/// what must not depend on the bytes disabled devices answer: the result and the calls, with the
/// acknowledgement bytes of disabled devices wiped.  The per-device flags of `ReadFirmwareVersionFailed`
/// are wiped altogether: they are computed from the buffers as they are, for every device, also when the
/// fetch failed before anything was received — then they show what a device answered in an earlier call,
/// possibly while it was disabled (the model line still compares them exactly).
fn canon_twin(ran: &Ran, en: &[bool]) -> String {
    let enabled = |i: usize| en.get(i).copied().unwrap_or(true);
    let result = if ran.result.starts_with("err:ReadFirmwareVersionFailed[") { "err:ReadFirmwareVersionFailed[..]".to_string() } else { ran.result.clone() };
    let calls: Vec<Call> = ran
        .calls
        .iter()
        .map(|c| match c {
            Call::Recv(Some(rx), late) => Call::Recv(Some(rx.iter().enumerate().map(|(i, r)| if enabled(i) { *r } else { (0, r.1) }).collect()), *late),
            c => c.clone(),
        })
        .collect();
    format!("{result} | {}", show_calls(&calls))
}

pub fn run(args: &Args, is_async: bool) {
    let mut out = Out::new(&args.out);
    start_watchdog(&args.out, 60);
    let thorough = args.tier == "thorough";
    let plan = build_plan(thorough, args.seed);
    let nchunks = plan.chunks.len();
    let results: Vec<Mutex<Vec<Emitted>>> = (0..nchunks).map(|_| Mutex::new(vec![])).collect();
    let skipped = AtomicUsize::new(0);
    let reruns = AtomicUsize::new(0);
    let whys: Mutex<std::collections::BTreeMap<String, u64>> = Mutex::new(Default::default());
    let next = AtomicUsize::new(0);
    let nthreads = std::thread::available_parallelism().map(|n| n.get()).unwrap_or(4).clamp(2, 16);
    std::thread::scope(|s| {
        for _ in 0..nthreads {
            s.spawn(|| {
                let mut w = Worker::new(is_async);
                // C11: the same cases go through the synchronous controller in lock-step
                let mut shadow = if is_async { Some(Worker::new(false)) } else { None };
                // C04, enable masks: chunks that come with a twin are run a second time on a controller whose link
                // answers other bytes for the disabled devices
                let mut twin_w = if is_async { None } else { Some(Worker::new(false)) };
                loop {
                    let ci = next.fetch_add(1, Ordering::SeqCst);
                    if ci >= nchunks {
                        break;
                    }
                    let chunk = &plan.chunks[ci];
                    if !is_async && matches!(chunk.first(), Some(Case::Flavor { sync_dup: true, .. })) {
                        continue; // a copy of another chunk that differs in the async runtime flavour only
                    }
                    // C11: every eighth chunk of `sender_async` runs with the link boxed after `open`
                    // (`into_boxed_link`): same op lines, same model, same lock-step comparison
                    w.boxed = ci % 8 == 5;
                    let twin_cases: Option<&Vec<Case>> = if twin_w.is_some() { plan.twins[ci].as_ref() } else { None };
                    let mut emitted: Vec<Emitted> = vec![];
                    // the open line that started the current controller (re-issued after a discarded case)
                    let mut opener: Option<Case> = None;
                    // … and the enable line in force (re-issued after the re-open)
                    let mut cur_enable: Option<Case> = None;
                    let mut i = 0;
                    let mut tries = 0;
                    while i < chunk.len() {
                        let case = &chunk[i];
                        if let Case::Flavor { .. } = case {
                            // the runtime flavour exists for the async copy only: a line of `sender_async`
                            if is_async {
                                let ran = w.run(case);
                                let (sig, counts) = classify(case, &ran);
                                emitted.push(Emitted { op: case.text(), answer: ran.answer.clone(), sig, counts, violation: None });
                            }
                            i += 1;
                            continue;
                        }
                        let needs_ctl = !matches!(case, Case::Open { .. } | Case::Stale { .. });
                        if needs_ctl && w.ctl.is_none() {
                            // (re)open with the chunk's opener; an opener that fails ends the chunk
                            match &opener {
                                Some(o) => {
                                    let plain = match o {
                                        Case::Open { n, .. } => plain_open(*n, T::L),
                                        _ => unreachable!(),
                                    };
                                    let ran = w.run(&plain);
                                    let sh_bad = shadow.as_mut().map(|s| s.run(&plain)).is_some_and(|r| r.compromised || r.result != "ok");
                                    let tw_bad = twin_cases.is_some() && twin_w.as_mut().map(|s| s.run(&plain)).is_some_and(|r| r.compromised || r.result != "ok");
                                    if ran.compromised || ran.result != "ok" || sh_bad || tw_bad {
                                        w.dispose();
                                        if let Some(s) = shadow.as_mut() {
                                            s.dispose();
                                        }
                                        if let Some(s) = twin_w.as_mut() {
                                            s.dispose();
                                        }
                                        tries += 1;
                                        if tries > 8 {
                                            skipped.fetch_add(chunk.len() - i, Ordering::SeqCst);
                                            break;
                                        }
                                        continue;
                                    }
                                    let (sig, counts) = classify(&plain, &ran);
                                    emitted.push(Emitted { op: plain.text(), answer: ran.answer.clone(), sig, counts, violation: check_oracle(&plain, &ran) });
                                    if let Some(e) = &cur_enable {
                                        let ran = w.run(e);
                                        if let Some(s) = shadow.as_mut() {
                                            s.run(e);
                                        }
                                        if twin_cases.is_some() {
                                            if let Some(s) = twin_w.as_mut() {
                                                s.run(e);
                                            }
                                        }
                                        let (sig, counts) = classify(e, &ran);
                                        emitted.push(Emitted { op: e.text(), answer: ran.answer.clone(), sig, counts, violation: check_oracle(e, &ran) });
                                    }
                                }
                                None => {
                                    skipped.fetch_add(chunk.len() - i, Ordering::SeqCst);
                                    break;
                                }
                            }
                        }
                        let ran = run_guarded(&mut w, case);
                        let ran_sync = shadow.as_mut().map(|s| run_guarded(s, case));
                        let ran_twin = match (twin_cases, twin_w.as_mut()) {
                            (Some(tc), Some(tw)) => Some(run_guarded(tw, &tc[i])),
                            _ => None,
                        };
                        if ran.compromised || ran_sync.as_ref().is_some_and(|r| r.compromised) || ran_twin.as_ref().is_some_and(|r| r.compromised) {
                            if let Some(s) = shadow.as_mut() {
                                s.dispose();
                            }
                            if let Some(s) = twin_w.as_mut() {
                                s.dispose();
                            }
                            // wall clock interfered: discard, start over on a fresh controller
                            reruns.fetch_add(1, Ordering::SeqCst);
                            *whys.lock().unwrap().entry(format!("discard:{}:{}", ran.why, case.text().split(' ').next().unwrap())).or_insert(0) += 1;
                            w.dispose();
                            tries += 1;
                            if tries > 8 {
                                skipped.fetch_add(1, Ordering::SeqCst);
                                tries = 0;
                                i += 1;
                            }
                            continue;
                        }
                        tries = 0;
                        if let Case::Open { .. } = case {
                            opener = Some(case.clone());
                            cur_enable = None;
                        }
                        if let Case::Enable { .. } = case {
                            cur_enable = Some(case.clone());
                        }
                        let (sig, mut counts) = classify(case, &ran);
                        if ran.leftover > 0 {
                            counts.push("script-leftover".into());
                            if std::env::var("VH_DEBUG").is_ok() {
                                eprintln!("leftover {}: {} => {}", ran.leftover, case.text(), ran.answer);
                            }
                        }
                        if ran.overrun && std::env::var("VH_DEBUG").is_ok() {
                            eprintln!("overrun: {} => {}", case.text(), ran.answer);
                        }
                        if ran.overrun {
                            counts.push("script-overrun".into());
                        }
                        let mut violation = check_oracle(case, &ran);
                        if let Some(rs) = &ran_sync {
                            // C11 on the implementation: same result, same calls on the link.  The one
                            // intended difference, on a **current-thread** runtime only: dropping a controller
                            // while the link says it is open (a failed `open`; the end of `close(self)`) closes the
                            // link in the sync copy and only asks `is_open` in the async one.  On a multi-thread
                            // runtime (`flavor mt` chunks) there is no exemption: the async `Drop` must close too.
                            let dropped = (matches!(case, Case::Open { .. }) && ran.result != "ok") || matches!(case, Case::Close { drop: CloseS::Open { .. }, .. });
                            let same = if dropped && !ran.mt {
                                ran.result == rs.result && rs.answer.starts_with(ran.answer.trim_end_matches(|c| c == 'o' || c == 'c'))
                            } else {
                                ran.answer == rs.answer
                            };
                            let ctx = format!("{}{}", if ran.mt { "[multi-thread runtime] " } else { "" }, if ran.boxed { "[link boxed after open] " } else { "" });
                            if !same {
                                let key = format!("async-vs-sync:{}{}", if ran.mt { "mt:" } else { "" }, case.text().replace(' ', "_"));
                                let key = if key.len() > 160 { format!("{}#{:016x}", &key[..140], fnv64(key.as_bytes())) } else { key };
                                let mut replay = vec![];
                                if ran.mt {
                                    replay.push("flavor mt".to_string());
                                }
                                replay.push(case.text());
                                violation = Some((key, format!("{ctx}async controller: `{}`; sync controller: `{}`", ran.answer, rs.answer), replay));
                            } else if ran.sleeps != rs.sleeps && violation.is_none() {
                                // not in the model line: how often the sender called `sleep_until` on the (counting, not
                                // sleeping) sleeper it was given.  `link_says` = what the link's record implies: one call
                                // after every receive that is followed by another `is_open` of the same send
                                let link_says = ran.calls.windows(2).filter(|w| matches!(w[0], Call::Recv(Some(_), _)) && matches!(w[1], Call::IsOpen(_))).count();
                                let key = format!("async-vs-sync-sleeps:{}", case.text().replace(' ', "_"));
                                let key = if key.len() > 160 { format!("{}#{:016x}", &key[..140], fnv64(key.as_bytes())) } else { key };
                                violation = Some((
                                    key,
                                    format!("{ctx}same result and calls (`{}`), but the async sender awaited `sleep_until` {} time(s), the sync sender called it {} time(s) (receives followed by another turn in the link's record: {link_says}): send_interval/receive_interval are not honoured alike", ran.answer, ran.sleeps, rs.sleeps),
                                    vec![case.text()],
                                ));
                            }
                            counts.push("compared-with-sync".into());
                        }
                        if let (Some(rt), Some(tc)) = (&ran_twin, twin_cases) {
                            // the property on the implementation alone: what the disabled devices answer never matters.
                            // `close` enables every device before it sends: nothing is wiped there
                            let all = vec![true; ran.en.len()];
                            let en: &[bool] = if matches!(case, Case::Close { .. }) { &all } else { &ran.en };
                            let (a, b) = (canon_twin(&ran, en), canon_twin(rt, en));
                            if a != b && violation.is_none() {
                                let key = format!("disabled-ack-dependence:enable_{}:{}", bits(&ran.en), case.text().replace(' ', "_"));
                                let key = if key.len() > 160 { format!("{}#{:016x}", &key[..140], fnv64(key.as_bytes())) } else { key };
                                violation = Some((
                                    key,
                                    format!("enable {}: the same call gave `{a}`, and `{b}` when only the bytes answered by disabled devices were changed", bits(&ran.en)),
                                    vec![format!("enable {}", bits(&ran.en)), case.text(), format!("-> {}", ran.answer), tc[i].text(), format!("-> {}", rt.answer)],
                                ));
                            }
                            counts.push("compared-with-twin(other-bytes-from-disabled)".into());
                        }
                        emitted.push(Emitted { op: case.text(), answer: ran.answer.clone(), sig, counts, violation });
                        i += 1;
                    }
                    if w.mt {
                        // back to the default flavour for the chunks that follow (also when the chunk was cut short)
                        let back = Case::Flavor { mt: false, sync_dup: false };
                        let ran = w.run(&back);
                        let (sig, counts) = classify(&back, &ran);
                        emitted.push(Emitted { op: back.text(), answer: ran.answer.clone(), sig, counts, violation: None });
                    }
                    w.dispose();
                    if let Some(s) = shadow.as_mut() {
                        s.dispose();
                    }
                    if let Some(s) = twin_w.as_mut() {
                        s.dispose();
                    }
                    *results[ci].lock().unwrap() = emitted;
                }
            });
        }
    });
    let mut shown = 0;
    for r in results {
        for e in r.into_inner().unwrap() {
            out.line(&e.op, &e.answer);
            out.case(e.sig);
            for c in &e.counts {
                out.count(c);
            }
            if let Some((k, w, rp)) = e.violation {
                out.violation(k, w, rp);
            }
            if shown < 6 && e.sig.is_some() && e.op.starts_with("send") && e.op.len() < 120 && e.op.contains('+') && (shown % 2 == 0 || e.op.contains('!')) {
                out.sample(format!("{}  =>  {}", e.op, e.answer));
                shown += 1;
            }
        }
    }
    for (k, v) in whys.lock().unwrap().iter() {
        out.count_n(k, *v);
    }
    if is_async {
        program_phase(&mut out, thorough, args.seed);
    } else {
        // observation, outside the property's quantifier (left-over ids are paired with a working
        // link there): the throw-away frame of `open_impl` not transmitted + a device left with id 2
        let mut cpus = vec![CPUEmulator::new(0, 249)];
        let g = crate::dev::create_geometry(1);
        let mut tx = crate::dev::new_tx(1);
        crate::dev::send_with(&mut cpus, ReadsFPGAState::new(|_| true), &g, &mut tx, |_, _| {}).unwrap();
        cpus[0].set_last_msg_id(2);
        let cpus = Arc::new(Mutex::new(cpus));
        let link = EmuLink { cpus: cpus.clone(), open: false, acks: Arc::new(Mutex::new(vec![])), fail_sends: 1 };
        let r = Controller::open_with_option(devices(1), link, option(T::S, 0, false, &Arc::new(AtomicUsize::new(0))));
        let cleared = !cpus.lock().unwrap()[0].reads_fpga_state();
        out.notes.push(format!(
            "observation (not a violation of the quantified property): link.send fails once during the ignored ForceFan of open and the device was left with message id 2 -> open returned {} and the device {} initialised",
            if r.is_ok() { "Ok" } else { "Err" },
            if cleared { "was" } else { "was NOT" }
        ));
        if let Ok(c) = r {
            let _ = c.close();
        }
    }
    out.count_n("timing-discarded-attempts", reruns.load(Ordering::SeqCst) as u64);
    out.count_n("timing-skipped-cases", skipped.load(Ordering::SeqCst) as u64);
    if is_async && skipped.load(Ordering::SeqCst) > 0 {
        // a case is skipped after 9 attempts in a row were spoilt by the clock.  The scripted `firmware_version` and
        // `close` cases with a non-acknowledging poll are the ones in which the crate's real sleepers run; a sleeper
        // that oversleeps by more than the 200 ms timeout spoils exactly those, every time: not a silent skip
        let w = whys.lock().unwrap().iter().map(|(k, v)| format!("{k} x{v}")).collect::<Vec<_>>().join(", ");
        out.violation(
            "async-cases-never-ran-cleanly".to_string(),
            format!("{} case(s) of sender_async could not be run without the wall clock contradicting the script in 9 attempts each ({w}): the sender (or its sleeper) is slower than the timeouts allow", skipped.load(Ordering::SeqCst)),
            vec!["see the discard:* counters of the stream".to_string()],
        );
    }
    out.count_n("chunks(controllers)", nchunks as u64);
    out.notes.push(format!(
        "short timeout {SHORT_MS} ms, long {LONG_MS} ms, default {DEFAULT_MS} ms; late polls are realised by the link sleeping past the timeout; {} attempts discarded because the wall clock interfered",
        reruns.load(Ordering::SeqCst)
    ));
    out.finish(
        if is_async { "sender_async" } else { "sender" },
        if is_async {
            "a case is one controller call (open / enable flags / send / firmware_version / fpga_state / close with the Drop that follows / stale-id open) with its link script, or a `flavor` line (tokio runtime of the following controllers: model-visible, it decides what Drop does), or one program of the oracle-only program phase; trivial = plain success with every frame acknowledged on the first poll by every device, setting enable flags, flavor lines; distinct by script shape (acknowledgement kinds, faults, lateness, frame counts, timeouts; data bytes erased), enable mask, runtime flavour and result. Not in the model lines (oracle only, see the counters): sleep_until-calls:* (compared with the sync copy), link:boxed(..) (same lines through Box<dyn AsyncLink>), prog-op:paced(..)/prog-op:Controller::* (real sleepers, default-option shortcuts; prog-paced-frames = frames held to their send slot)"
        } else {
            "a case is one controller call (open / enable flags / send / firmware_version / fpga_state / close with the Drop that follows / stale-id open) with its link script; trivial = plain success with every frame acknowledged on the first poll by every device, and setting enable flags; distinct by script shape (acknowledgement kinds, faults, lateness, frame counts, timeouts; data bytes erased), enable mask and result"
        },
    );
}
