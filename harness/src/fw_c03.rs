//! `fw_c03` (C03): a tuple datagram equals its parts sent in order; frames are well formed.
//! `fw_c17` (C17): what is read back (the state byte → `FPGAState`) is what the device is doing.
use crate::common::*;
use crate::fw_c01::T0;
use crate::fwc::*;
use autd3::prelude::*;
use autd3_driver::firmware::fpga::FPGAState;

/// size (bytes, rounded up to even) of the operation chunk starting at `p[0]`, decoded the way the
/// firmware decodes it (independent re-statement of the wire format for the oracle)
fn op_extent(p: &[u8]) -> Option<usize> {
    let even = |n: usize| (n + 1) & !1;
    Some(match p[0] {
        0x01 | 0x02 | 0x03 | 0x60 | 0x61 | 0xF1 | 0xF2 | 0x31 => 2,
        0x10 => {
            if p[1] & 1 != 0 { 16 + even(p[2] as usize) } else { 4 + even(u16::from_le_bytes([p[2], p[3]]) as usize) }
        }
        0x11 | 0x43 | 0x44 => 16,
        0x21 => 6,
        0x30 => 4 + 2 * NUM_TR,
        0x41 => (if p[1] & 1 != 0 { 16 } else { 2 }) + 2 * NUM_TR,
        0x42 => {
            if p[1] & 1 != 0 { 24 + 8 * p[2] as usize * p[5] as usize } else { return None } // subsequent: needs num_foci from the head
        }
        0x72 => 2 + 512,
        0x80 => 2 + even(NUM_TR),
        0xF0 => 40,
        _ => return None,
    })
}

fn tag_of(s: &Spec) -> u8 {
    match s {
        Spec::Clear => 0x01,
        Spec::Sync => 0x02,
        Spec::FirmInfo(_) => 0x03,
        Spec::Mod { .. } | Spec::ModRaw { .. } => 0x10,
        Spec::SwapMod(..) => 0x11,
        Spec::SilSteps(..) | Spec::SilRate(..) => 0x21,
        Spec::Gain { .. } => 0x30,
        Spec::SwapGain(..) => 0x31,
        Spec::GainStm { .. } => 0x41,
        Spec::Foci { .. } => 0x42,
        Spec::SwapGainStm(..) => 0x43,
        Spec::SwapFoci(..) => 0x44,
        Spec::Fan(_) => 0x60,
        Spec::Reads(_) => 0x61,
        Spec::Pwe(_) | Spec::PweDefault => 0x72,
        Spec::PhaseCorr(_) => 0x80,
        Spec::Debug(_) => 0xF0,
        Spec::GpioIn(_) => 0xF1,
        Spec::CpuGpio(_) => 0xF2,
    }
}

/// frame well-formedness of one send (all frames of all devices kept in `w.frames`)
fn frames_well_formed(w: &World, first_ids: &[u8], a: &Spec, b: &Spec) -> Option<String> {
    let mut prev: Vec<u8> = first_ids.to_vec();
    let mut foci_n: Option<usize> = None;
    // two FociSTM members with different foci-per-pattern counts: a continuation chunk does not say which
    // member it belongs to, so its extent cannot be decoded from the frame alone (exact offsets are still
    // compared with the model)
    let ambiguous = matches!((a, b), (Spec::Foci { n: n1, .. }, Spec::Foci { n: n2, .. }) if n1 != n2);
    for (dev, f) in &w.frames {
        let (id, slot2) = (f[0], u16::from_le_bytes([f[2], f[3]]) as usize);
        let payload = &f[4..];
        if id == prev[*dev] {
            // nothing new for this device in this round (both operations already done): not a content frame
            continue;
        }
        if id > 0x7F {
            return Some(format!("dev {dev}: message id {id:#x} outside 0..=0x7F"));
        }
        prev[*dev] = id;
        if payload[0] != tag_of(a) && payload[0] != tag_of(b) {
            return Some(format!("dev {dev}: first slot carries tag {:#x}, neither member's", payload[0]));
        }
        if payload[0] == 0x42 && payload[1] & 1 != 0 {
            foci_n = Some(payload[5] as usize);
        }
        let ext1 = match op_extent(payload) {
            Some(e) => e,
            None if payload[0] == 0x42 => 4 + 8 * payload[2] as usize * foci_n.unwrap_or(1),
            None => return Some(format!("dev {dev}: unknown tag {:#x} in slot 1", payload[0])),
        };
        if ambiguous {
            continue;
        }
        if ext1 > 622 {
            return Some(format!("dev {dev}: first operation needs {ext1} bytes > 622"));
        }
        if slot2 != 0 {
            if slot2 % 2 != 0 {
                return Some(format!("dev {dev}: odd second-slot offset {slot2}"));
            }
            if slot2 != ext1 {
                return Some(format!("dev {dev}: second-slot offset {slot2} is not the length {ext1} of the first slot"));
            }
            if payload[slot2] != tag_of(b) {
                return Some(format!("dev {dev}: second slot carries tag {:#x}, expected {:#x}", payload[slot2], tag_of(b)));
            }
            let ext2 = match op_extent(&payload[slot2..]) {
                Some(e) => e,
                None if payload[slot2] == 0x42 => 4 + 8 * payload[slot2 + 2] as usize * foci_n.unwrap_or(1),
                None => return Some(format!("dev {dev}: unknown tag in slot 2")),
            };
            if slot2 + ext2 > 622 {
                return Some(format!("dev {dev}: operations overlap the end of the payload: {slot2}+{ext2} > 622"));
            }
        }
    }
    None
}

fn different_resources(a: &Spec, b: &Spec) -> bool {
    let (ta, tb) = (touches(a), touches(b));
    // "address different resources": neither writes what the other writes. Silencer and a sampling division are
    // different resources although the strict-mode guard reads one when the other is written: the tuple must
    // still equal the sequence (it does on the unchanged tree for every such pair of the alphabet).
    let stm = |x: &Spec| matches!(x, Spec::Foci { .. } | Spec::GainStm { .. } | Spec::Gain { .. } | Spec::SwapFoci(..) | Spec::SwapGainStm(..) | Spec::SwapGain(..));
    let md = |x: &Spec| matches!(x, Spec::Mod { .. } | Spec::SwapMod(..));
    !ta.iter().any(|r| tb.contains(r)) && !(stm(a) && stm(b)) && !(md(a) && md(b)) && !matches!(a, Spec::Clear) && !matches!(b, Spec::Clear)
}

fn snapshot(w: &World) -> Vec<String> {
    w.cpus.iter().map(|c| ALL_RES.iter().map(|r| format!("{}|{}", res_obs(c, *r), res_dyn(c, *r))).collect::<Vec<_>>().join(";")).collect()
}

fn frames_of(ndev: usize, s: &Spec) -> usize {
    let mut w = World::new(ndev, T0);
    let _ = w.send_spec(&Spec::Clear, usize::MAX);
    let _ = w.send_spec(&Spec::SilSteps(1, 1, false), usize::MAX);
    w.send_spec(s, usize::MAX).frames
}

fn run_pair(out: &mut Out, ndev: usize, a: &Spec, b: &Spec) {
    let mut s = Session::new(out, ndev, T0);
    s.send(&Spec::Clear);
    s.send(&Spec::SilSteps(1, 1, false));
    s.w.keep_frames = true;
    let ids: Vec<u8> = s.w.tx.iter().map(|t| t.header.msg_id).collect();
    let ans = s.pair(a, b);
    let log = s.log.clone();
    let mut verdict = None;
    let key = format!("C03:({} , {}):n{ndev}", a.text(), b.text());
    if ans == "panic" {
        out.case(None);
        out.count("not-evaluable:panic");
        return;
    }
    let nframes: usize = ans.split(' ').find_map(|x| x.strip_prefix("N=")).and_then(|x| x.parse().ok()).unwrap_or(0);
    if let Some(m) = frames_well_formed(&s.w, &ids, a, b) {
        verdict = Some(m);
    }
    // silent world: A then B
    let mut w2 = World::new(ndev, T0);
    let r2 = guarded(|| {
        let _ = w2.send_spec(&Spec::Clear, usize::MAX);
        let _ = w2.send_spec(&Spec::SilSteps(1, 1, false), usize::MAX);
        let ra = w2.send_spec(a, usize::MAX);
        let rb = w2.send_spec(b, usize::MAX);
        (ra.result, rb.result, ra.frames, rb.frames)
    });
    let slot2_used = s.w.frames.iter().any(|(_, f)| f[2] != 0 || f[3] != 0);
    let snap1 = snapshot(&s.w);
    let nontrivial;
    match r2 {
        Err(_) => {
            out.case(None);
            out.count("not-evaluable:panic");
            return;
        }
        Ok((ra, rb, fa, fb)) => {
            let both_ok = ra == "ok" && rb == "ok";
            nontrivial = both_ok;
            if verdict.is_none() && both_ok && ans.starts_with("R=ok") && nframes > fa + fb {
                verdict = Some(format!("the tuple needed {nframes} frames, its parts {fa} + {fb}"));
            }
            if verdict.is_none() && both_ok && different_resources(a, b) {
                if !ans.starts_with("R=ok") {
                    verdict = Some(format!("both members are accepted alone but the tuple answered {}", ans.split(' ').next().unwrap_or("")));
                } else if snap1 != snapshot(&w2) {
                    let (x, y) = (snap1.clone(), snapshot(&w2));
                    let d = (0..ndev).find(|&d| x[d] != y[d]).unwrap();
                    verdict = Some(format!("dev {d}: final state after the tuple differs from sending the parts in order"));
                }
            }
        }
    }
    out.case(if nontrivial { Some(fnv64(key.as_bytes())) } else { None });
    out.count(&format!("pair:{}+{}", a.kind(), b.kind()));
    if nframes > 1 {
        out.count("multi-frame");
    }
    if slot2_used {
        out.count("slot2-used");
    }
    if let Some(what) = verdict {
        out.violation(key, what, log);
    }
}


/// Does some frame of the tuple (a, b) end a FociSTM / modulation chunk exactly on a write-page boundary
/// (4096 foci / 32768 samples) with more data to follow? Decided on the real packer's frames of a scratch world.
fn chunk_meets_page(a: &Spec, b: &Spec) -> bool {
    let mut w = World::new(1, T0);
    let _ = w.send_spec(&Spec::Clear, usize::MAX);
    w.keep_frames = true;
    let r = guarded(|| w.send_pair_spec(a, b, usize::MAX));
    if r.is_err() {
        return false;
    }
    let total = |s: &Spec| match s {
        Spec::Foci { n, size, .. } => n * size,
        Spec::Mod { n, .. } => *n,
        _ => 0,
    };
    let (mut foci, mut md) = (0usize, 0usize);
    let tf = [a, b].iter().filter(|s| matches!(s, Spec::Foci { .. })).map(|s| total(s)).max().unwrap_or(0);
    let tm = [a, b].iter().filter(|s| matches!(s, Spec::Mod { .. })).map(|s| total(s)).max().unwrap_or(0);
    let mut hit = false;
    let mut foci_n = 1usize;
    for (_, f) in &w.frames {
        let slot2 = u16::from_le_bytes([f[2], f[3]]) as usize;
        let payload = &f[4..];
        for off in if slot2 != 0 { vec![0usize, slot2] } else { vec![0usize] } {
            match payload[off] {
                0x42 => {
                    if payload[off + 1] & 1 != 0 {
                        foci_n = payload[off + 5] as usize;
                    }
                    foci += payload[off + 2] as usize * foci_n;
                    if foci % 4096 == 0 && foci < tf {
                        hit = true;
                    }
                }
                0x10 => {
                    md += if payload[off + 1] & 1 != 0 { payload[off + 2] as usize } else { u16::from_le_bytes([payload[off + 2], payload[off + 3]]) as usize };
                    if md % 32768 == 0 && md < tm {
                        hit = true;
                    }
                }
                _ => {}
            }
        }
    }
    hit
}

fn c03_members(rng: &mut Rng, thorough: bool) -> Vec<Spec> {
    let mut v = vec![
        Spec::Gain { seg: 0, tr: Some((0xFF, 0)), seed: 1 },
        Spec::Gain { seg: 1, tr: None, seed: 2 },
        // modulation sizes: one frame; exactly the space left by a 2-byte / 6-byte / 16-byte / 40-byte first slot; multi-frame
        Spec::Mod { seg: 0, tr: Some((0xFF, 0)), rep: 0xFFFF, div: 10, n: 2, seed: 3 },
        Spec::Mod { seg: 1, tr: None, rep: 0xFFFF, div: 10, n: 254, seed: 4 },
        Spec::Mod { seg: 0, tr: None, rep: 0xFFFF, div: 10, n: 255, seed: 5 },
        Spec::Mod { seg: 1, tr: None, rep: 3, div: 10, n: 254 + 618 + 100, seed: 6 },
        Spec::Mod { seg: 0, tr: Some((0xFF, 0)), rep: 0xFFFF, div: 10, n: 254 + 2 * 618, seed: 7 },
        Spec::Foci { n: 1, seg: 0, tr: Some((0xFF, 0)), rep: 0xFFFF, div: 100, ss: 21760, size: 2, seed: 8 },
        Spec::Foci { n: 1, seg: 1, tr: None, rep: 0xFFFF, div: 100, ss: 21760, size: 74, seed: 9 },
        Spec::Foci { n: 3, seg: 0, tr: None, rep: 0xFFFF, div: 100, ss: 21760, size: 60, seed: 10 },
        Spec::Foci { n: 8, seg: 1, tr: None, rep: 0xFFFF, div: 100, ss: 21760, size: 30, seed: 11 },
        Spec::GainStm { mode: 0, seg: 0, tr: Some((0xFF, 0)), rep: 0xFFFF, div: 100, size: 3, seed: 12 },
        Spec::GainStm { mode: 2, seg: 1, tr: None, rep: 0xFFFF, div: 100, size: 9, seed: 13 },
        Spec::SilSteps(2, 3, false),
        Spec::SilRate(100, 200),
        Spec::PhaseCorr(14),
        Spec::Pwe(15),
        Spec::Debug([0x21u64 << 56 | 3, 0x51u64 << 56 | 9, 0x10u64 << 56, 0xF0u64 << 56 | 1]),
        Spec::Fan(true),
        Spec::Reads(true),
        Spec::SwapMod(1, (0xFF, 0)),
        Spec::SwapGain(1, (0xFF, 0)),
        Spec::Clear,
        Spec::Sync,
    ];
    if thorough {
        for _ in 0..10 {
            v.push(Spec::Mod { seg: rng.below(2) as u8, tr: None, rep: 0xFFFF, div: 10, n: rng.range(2, 3000) as usize, seed: rng.next() % 1000 });
            let n = rng.range(1, 8) as usize;
            v.push(Spec::Foci { n, seg: rng.below(2) as u8, tr: None, rep: 0xFFFF, div: 100, ss: 21760, size: rng.range((2usize.div_ceil(n)) as u64, 400) as usize, seed: rng.next() % 1000 });
        }
    }
    v
}

pub fn run_c03(args: &Args) {
    let mut out = Out::new(&args.out);
    let thorough = args.tier == "thorough";
    let mut rng = Rng::new(args.seed ^ 0xC03);
    let members = c03_members(&mut rng, thorough);
    for (i, a) in members.iter().enumerate() {
        for (j, b) in members.iter().enumerate() {
            let ndev = if (i + j) % 4 == 0 { 2 } else { 1 };
            run_pair(&mut out, ndev, a, b);
        }
    }
    // second slot starts fitting mid-stream: a modulation whose last chunk leaves exactly / just not enough room
    for tail in [0usize, 1, 2, 100, 110, 111, 112, 113, 114, 115, 116, 117, 118, 119, 120, 600, 610, 612, 614, 616, 617, 618] {
        let n = 254 + 618 + tail;
        let a = Spec::Mod { seg: 0, tr: None, rep: 0xFFFF, div: 10, n, seed: tail as u64 };
        for b in [Spec::Gain { seg: 0, tr: Some((0xFF, 0)), seed: 1 }, Spec::SilSteps(2, 3, false), Spec::Debug([0, 0, 0, 0]), Spec::Pwe(1), Spec::Foci { n: 2, seg: 1, tr: None, rep: 0xFFFF, div: 100, ss: 21760, size: 40, seed: 2 }] {
            run_pair(&mut out, 1, &a, &b);
            run_pair(&mut out, 1, &b, &a);
        }
    }
    // the strict-silencer guard couples Silencer with every sampling division: a multi-frame write with a transition
    // to the other segment next to a strict Silencer whose steps lie between the old and the new division, both orders;
    // the previous content of both segments has a small division
    for (dv_new, steps) in [(20u16, 20u16), (20, 15), (50, 30), (20, 21)] {
        let writes = [
            Spec::Mod { seg: 1, tr: Some((0xFF, 0)), rep: 0xFFFF, div: dv_new, n: 600, seed: 90 },
            Spec::Mod { seg: 1, tr: Some((0xFF, 0)), rep: 0xFFFF, div: dv_new, n: 2, seed: 91 },
            Spec::Foci { n: 1, seg: 1, tr: Some((0xFF, 0)), rep: 0xFFFF, div: dv_new, ss: 21760, size: 100, seed: 92 },
            Spec::GainStm { mode: 0, seg: 1, tr: Some((0xFF, 0)), rep: 0xFFFF, div: dv_new, size: 3, seed: 93 },
        ];
        for w in &writes {
            let sil = Spec::SilSteps(steps, steps, true);
            run_pair(&mut out, 1, w, &sil);
            run_pair(&mut out, 1, &sil, w);
        }
    }
    // a chunk of the second member ends exactly on a write-page boundary: alone, a FociSTM/modulation is always cut
    // the same way; behind another operation its chunks are shorter, so which frame meets the 4096-foci /
    // 32768-sample boundary depends on the first member's size. Search first-member sizes with the real packer.
    let mut aligned = 0usize;
    for n in if thorough { vec![1usize, 2, 3, 4, 5, 6, 7, 8] } else { vec![1usize, 4] } {
        let b = Spec::Foci { n, seg: 1, tr: None, rep: 0xFFFF, div: 100, ss: 21760, size: 4096 / n + 120, seed: 60 + n as u64 };
        let mut found = 0;
        for m in 2..700usize {
            let a = Spec::Mod { seg: 0, tr: None, rep: 0xFFFF, div: 10, n: m, seed: 70 };
            if chunk_meets_page(&a, &b) {
                run_pair(&mut out, 1, &a, &b);
                found += 1;
                aligned += 1;
                if found >= if thorough { 3 } else { 1 } {
                    break;
                }
            }
        }
    }
    {
        let b = Spec::Mod { seg: 1, tr: None, rep: 0xFFFF, div: 10, n: 33000, seed: 71 };
        let mut found = 0;
        for k in 1..80usize {
            let a = Spec::Foci { n: 1, seg: 0, tr: None, rep: 0xFFFF, div: 100, ss: 21760, size: 1 + k, seed: 72 };
            if chunk_meets_page(&a, &b) {
                run_pair(&mut out, 1, &a, &b);
                found += 1;
                aligned += 1;
                if found >= if thorough { 3 } else { 1 } {
                    break;
                }
            }
        }
    }
    out.count_n("page-aligned-tuples", aligned as u64);
    let _ = frames_of;
    out.sample("reset 1 … / send clear / send silsteps 1 1 0 / send pair mod 1 - 3 10 972 6 | gain 0 255:0 1".into());
    out.finish(
        "fw_c03",
        "a case = one ordered pair (A, B) sent as a tuple on world 1 and as A then B on a silent world 2; non-trivial = both members accepted alone; distinct by (A, B, device count)",
    );
}

// ------------------------------------------------------------------------------------------------ C17

fn check_state_byte(w: &World) -> Option<String> {
    for (d, cpu) in w.cpus.iter().enumerate() {
        let f = cpu.fpga();
        let rx = cpu.rx();
        let st = FPGAState::from_rx(&rx);
        let r = guarded(|| -> Option<String> {
            match (cpu.reads_fpga_state(), st) {
                (false, None) => None,
                (false, Some(_)) => Some(format!("dev {d}: state reading is disabled but fpga_state() is Some")),
                (true, None) => Some(format!("dev {d}: state reading is enabled but fpga_state() is None")),
                (true, Some(s)) => {
                    if s.is_thermal_assert() != f.is_thermo_asserted() {
                        return Some(format!("dev {d}: thermal flag {} but the sensor is {}", s.is_thermal_assert(), f.is_thermo_asserted()));
                    }
                    if s.current_mod_segment() != f.current_mod_segment() {
                        return Some(format!("dev {d}: reported modulation segment {:?}, playing {:?}", s.current_mod_segment(), f.current_mod_segment()));
                    }
                    let cur = f.current_stm_segment();
                    let single = f.stm_cycle(cur) == 1;
                    let (g, t) = (s.current_gain_segment(), s.current_stm_segment());
                    if single && (g != Some(cur) || t.is_some()) {
                        return Some(format!("dev {d}: playing a single pattern in {cur:?} but reported gain {g:?} / stm {t:?}"));
                    }
                    if !single && (t != Some(cur) || g.is_some()) {
                        return Some(format!("dev {d}: playing an STM in {cur:?} but reported gain {g:?} / stm {t:?}"));
                    }
                    None
                }
            }
        });
        match r {
            Ok(None) => {}
            Ok(Some(m)) => return Some(m),
            Err(p) => return Some(format!("dev {d}: panic {p}")),
        }
    }
    None
}

pub fn run_c17(args: &Args) {
    let mut out = Out::new(&args.out);
    let thorough = args.tier == "thorough";
    let mut rng = Rng::new(args.seed ^ 0xC17);
    let imm: Tr = Some((0xFF, 0));
    let letters = |rng: &mut Rng| -> Spec {
        let seg = rng.below(2) as u8;
        match rng.below(12) {
            0 => Spec::Gain { seg, tr: imm, seed: rng.next() % 100 },
            1 => Spec::Gain { seg, tr: None, seed: rng.next() % 100 },
            2 => Spec::Foci { n: rng.range(1, 8) as usize, seg, tr: imm, rep: 0xFFFF, div: 100, ss: 21760, size: rng.range(2, 9) as usize, seed: 5 },
            3 => Spec::GainStm { mode: rng.below(3) as u8, seg, tr: if rng.chance(1, 2) { imm } else { None }, rep: 0xFFFF, div: 100, size: rng.range(2, 6) as usize, seed: 6 },
            4 => Spec::Mod { seg, tr: if rng.chance(2, 3) { imm } else { None }, rep: 0xFFFF, div: 10, n: rng.range(2, 700) as usize, seed: 7 },
            5 => Spec::SwapMod(seg, (0xFF, 0)),
            6 => Spec::SwapGain(seg, (0xFF, 0)),
            7 => Spec::SwapFoci(seg, (0xFF, 0)),
            8 => Spec::SwapGainStm(seg, (0xFF, 0)),
            9 => Spec::Reads(rng.chance(2, 3)),
            10 => Spec::Clear,
            _ => Spec::Fan(rng.chance(1, 2)),
        }
    };
    let ncases = if thorough { 1500 } else { 200 };
    for c in 0..ncases {
        let ndev = rng.range(1, 3) as usize;
        let mut s = Session::new(&mut out, ndev, T0);
        s.send(&Spec::Clear);
        s.send(&Spec::SilSteps(1, 1, false));
        if c % 3 != 0 {
            s.send(&Spec::Reads(true));
        }
        let mut verdict = None;
        let len = rng.range(3, 25);
        let mut desc = vec![];
        for k in 0..len {
            if rng.chance(1, 6) {
                let on = rng.chance(1, 2);
                s.thermo(0, on);
                desc.push(format!("thermo{}", on as u8));
            } else if rng.chance(1, 8) {
                // the controller's firmware_version(): five queries then the closing one
                let before = s.w.cpus.iter().map(|c| c.reads_fpga_state()).collect::<Vec<_>>();
                let mut versions = vec![];
                for ty in 1..=5u8 {
                    s.send(&Spec::FirmInfo(ty));
                    versions.push(s.w.cpus.iter().map(|c| c.rx().data()).collect::<Vec<_>>());
                }
                s.send(&Spec::FirmInfo(6));
                desc.push("firmware_version".into());
                let after = s.w.cpus.iter().map(|c| c.reads_fpga_state()).collect::<Vec<_>>();
                if before != after && verdict.is_none() {
                    verdict = Some(format!("state reading flags {before:?} became {after:?} across firmware_version (step {})", k + 1));
                }
                for (d, _) in s.w.cpus.iter().enumerate() {
                    let v: Vec<u8> = versions.iter().map(|x| x[d]).collect();
                    if (v[0], v[1], v[2], v[3]) != (0xA3, 0x00, 0xA3, 0x00) && verdict.is_none() {
                        verdict = Some(format!("dev {d}: firmware_version returned {v:?}"));
                    }
                }
            } else {
                let sp = letters(&mut rng);
                desc.push(sp.kind().to_string());
                s.send(&sp);
            }
            if s.dead {
                break;
            }
            let t = s.w.t + *rng.pick(&[0u64, 1_000, 1_000_000]);
            s.clk(t);
            if s.dead {
                break;
            }
            if verdict.is_none() {
                if let Some(m) = check_state_byte(&s.w) {
                    verdict = Some(format!("after step {} ({}): {m}", k + 1, desc.last().unwrap()));
                }
            }
        }
        let log = s.log.clone();
        let key = format!("C17:{}", desc.join("/"));
        out.case(Some(fnv64(key.as_bytes())));
        out.count(&format!("devices:{ndev}"));
        if let Some(what) = verdict {
            out.violation(key, what, log);
        }
    }
    controller_level(&mut out, &mut rng, if thorough { 300 } else { 40 });
    out.sample("reset 2 … / send clear / send silsteps 1 1 0 / send reads 1 / send foci 3 1 255:0 … / clk / thermo 0 1 / send firminfo 1..6 / clk …".into());
    out.finish(
        "fw_c17",
        "a case = a random history of writes/swaps with immediate transitions, per-device state reading, thermal sensor toggles and interleaved firmware_version query sequences; after every step + clock update the decoded state byte (FPGAState::from_rx) is compared with what the emulator is playing; distinct by history",
    );
}


// ---- C17 through the real `Controller` (fpga_state(), firmware_version()) with the Audit link: implementation
// oracle only (the Audit link reads the wall clock; only immediate transitions are used, so what is playing does
// not depend on it). Each case leaves one `note` line in the stream so that the counts stay aligned.

struct CtlSend<'a> {
    autd: &'a mut Controller<autd3::link::Audit>,
}
impl DgVisitor for CtlSend<'_> {
    type R = Result<(), AUTDDriverError>;
    fn visit<D>(self, d: D) -> Self::R
    where
        D: autd3_core::datagram::Datagram,
        AUTDDriverError: From<D::Error>,
        D::G: autd3_driver::firmware::operation::OperationGenerator,
        AUTDDriverError: From<<<D::G as autd3_driver::firmware::operation::OperationGenerator>::O1 as autd3_core::datagram::Operation>::Error>
            + From<<<D::G as autd3_driver::firmware::operation::OperationGenerator>::O2 as autd3_core::datagram::Operation>::Error>,
    {
        self.autd.send(d)
    }
}

fn controller_level(out: &mut Out, rng: &mut Rng, ncases: usize) {
    use autd3::link::{Audit, AuditOption};
    for c in 0..ncases {
        let ndev = rng.range(1, 4) as usize;
        let mut desc: Vec<String> = vec![format!("n{ndev}")];
        let r = guarded(|| -> Option<String> {
            let mut autd = Controller::open((0..ndev).map(|_| AUTD3::default()), Audit::new(AuditOption::default())).ok()?;
            let _ = autd.send(Silencer::new(autd3_driver::datagram::FixedCompletionSteps {
                intensity: std::num::NonZeroU16::MIN,
                phase: std::num::NonZeroU16::MIN,
                strict_mode: false,
            }));
            let mut reads_mask = 0u32;
            for step in 0..rng.range(3, 14) {
                match rng.below(9) {
                    0 => {
                        reads_mask = rng.below(1 << ndev) as u32;
                        let m = reads_mask;
                        desc.push(format!("reads{m:b}"));
                        let _ = autd.send(ReadsFPGAState::new(move |dev| (m >> dev.idx()) & 1 == 1));
                    }
                    1 => {
                        let d = rng.below(ndev as u64) as usize;
                        let on = rng.chance(1, 2);
                        desc.push(format!("thermo{d}{}", on as u8));
                        if on {
                            autd.link_mut()[d].fpga_mut().assert_thermal_sensor();
                        } else {
                            autd.link_mut()[d].fpga_mut().deassert_thermal_sensor();
                        }
                    }
                    2 => {
                        // disable / enable a device, then ask for the firmware versions
                        let d = rng.below(ndev as u64) as usize;
                        let en = rng.chance(1, 2);
                        autd.geometry_mut()[d].enable = en;
                        desc.push(format!("enable{d}{}", en as u8));
                    }
                    3 => {
                        desc.push("firmware_version".into());
                        let before = autd.fpga_state().ok()?;
                        let v = match autd.firmware_version() {
                            Ok(v) => v,
                            Err(e) => return Some(format!("firmware_version() failed: {e:?}")),
                        };
                        let enabled: Vec<usize> = autd.geometry().iter().filter(|d| d.enable).map(|d| d.idx()).collect();
                        let got: Vec<usize> = v.iter().map(|x| x.idx).collect();
                        if got != enabled {
                            return Some(format!("firmware_version() returned devices {got:?}, enabled are {enabled:?}"));
                        }
                        for x in &v {
                            if x.cpu.major.0 != 0xA3 || x.fpga.major.0 != 0xA3 || x.cpu.minor.0 != 0 || x.fpga.minor.0 != 0 {
                                return Some(format!("firmware_version() of device {}: {:?}", x.idx, x));
                            }
                        }
                        let after = autd.fpga_state().ok()?;
                        // state reading must work as before for every enabled device (a disabled device did not get the closing query)
                        for &i in &enabled {
                            if before[i].is_some() != after[i].is_some() {
                                return Some(format!("device {i}: fpga_state() was {:?} before firmware_version() and {:?} after (step {step})", before[i], after[i]));
                            }
                        }
                    }
                    _ => {
                        let seg = rng.below(2) as u8;
                        let sp = match rng.below(6) {
                            0 => Spec::Gain { seg, tr: Some((0xFF, 0)), seed: 1 },
                            1 => Spec::Foci { n: rng.range(1, 8) as usize, seg, tr: Some((0xFF, 0)), rep: 0xFFFF, div: 100, ss: 21760, size: 3, seed: 2 },
                            2 => Spec::GainStm { mode: 0, seg, tr: Some((0xFF, 0)), rep: 0xFFFF, div: 100, size: 2, seed: 3 },
                            3 => Spec::Mod { seg, tr: Some((0xFF, 0)), rep: 0xFFFF, div: 10, n: 5, seed: 4 },
                            4 => Spec::SwapMod(seg, (0xFF, 0)),
                            _ => Spec::SwapGain(seg, (0xFF, 0)),
                        };
                        desc.push(sp.kind().into());
                        let _ = build(&sp, CtlSend { autd: &mut autd });
                    }
                }
                let st = match autd.fpga_state() {
                    Ok(s) => s,
                    Err(e) => return Some(format!("fpga_state() failed: {e:?}")),
                };
                for i in 0..ndev {
                    let cpu = &autd.link()[i];
                    let f = cpu.fpga();
                    match (cpu.reads_fpga_state(), st[i]) {
                        (false, None) => {}
                        (true, Some(s)) => {
                            let cur = f.current_stm_segment();
                            let single = f.stm_cycle(cur) == 1;
                            if s.is_thermal_assert() != f.is_thermo_asserted()
                                || s.current_mod_segment() != f.current_mod_segment()
                                || (single && (s.current_gain_segment() != Some(cur) || s.current_stm_segment().is_some()))
                                || (!single && (s.current_stm_segment() != Some(cur) || s.current_gain_segment().is_some()))
                            {
                                return Some(format!("device {i}: fpga_state() = {s:?} but the device plays mod {:?}, stm {cur:?} (single pattern: {single}), thermal {}", f.current_mod_segment(), f.is_thermo_asserted()));
                            }
                        }
                        (a, b) => return Some(format!("device {i}: state reading enabled = {a} but fpga_state() = {b:?}")),
                    }
                }
            }
            None
        });
        out.line(&format!("note ctl {c}"), "ok");
        out.case(Some(fnv64(desc.join("/").as_bytes()) ^ c as u64));
        out.count("controller-level");
        match r {
            Ok(None) => {}
            Ok(Some(m)) => out.violation(format!("C17:ctl:{}", desc.join("/")), m, desc.clone()),
            Err(p) => out.violation(format!("C17:ctl-panic:{}", panic_key(&p)), format!("panic through the Controller: {p}"), desc.clone()),
        }
    }
}
