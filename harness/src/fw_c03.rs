//! `fw_c03` (C03): a tuple datagram equals its parts sent in order; frames are well formed.
//! `fw_c17` (C17): what is read back (the state byte → `FPGAState`) is what the device is doing.
use crate::common::*;
use crate::fw_c01::T0;
use crate::fwc::*;
use autd3::prelude::*;
use autd3_driver::firmware::fpga::FPGAState;

/// size (bytes, rounded up to even) of the operation chunk starting at `p[0]`, decoded the way the
/// firmware decodes it (independent re-statement of the wire format for the oracle)
fn op_extent(p: &[u8]) -> Option<usize> {
    let even = |n: usize| (n + 1) & !1;
    Some(match p[0] {
        0x01 | 0x02 | 0x03 | 0x60 | 0x61 | 0xF1 | 0xF2 | 0x31 => 2,
        0x10 => {
            if p[1] & 1 != 0 { 16 + even(p[2] as usize) } else { 4 + even(u16::from_le_bytes([p[2], p[3]]) as usize) }
        }
        0x11 | 0x43 | 0x44 => 16,
        0x21 => 6,
        0x30 => 4 + 2 * NUM_TR,
        0x41 => (if p[1] & 1 != 0 { 16 } else { 2 }) + 2 * NUM_TR,
        0x42 => {
            if p[1] & 1 != 0 { 24 + 8 * p[2] as usize * p[5] as usize } else { return None } // subsequent: needs num_foci from the head
        }
        0x72 => 2 + 512,
        0x80 => 2 + even(NUM_TR),
        0xF0 => 40,
        _ => return None,
    })
}

fn tag_of(s: &Spec) -> u8 {
    match s {
        Spec::Clear => 0x01,
        Spec::Sync => 0x02,
        Spec::FirmInfo(_) => 0x03,
        Spec::Mod { .. } | Spec::ModRaw { .. } => 0x10,
        Spec::SwapMod(..) => 0x11,
        Spec::SilSteps(..) | Spec::SilRate(..) => 0x21,
        Spec::Gain { .. } => 0x30,
        Spec::SwapGain(..) => 0x31,
        Spec::GainStm { .. } => 0x41,
        Spec::Foci { .. } => 0x42,
        Spec::SwapGainStm(..) => 0x43,
        Spec::SwapFoci(..) => 0x44,
        Spec::Fan(_) | Spec::FanMask(_) => 0x60,
        Spec::Reads(_) | Spec::ReadsMask(_) => 0x61,
        Spec::Pwe(_) | Spec::PweDefault => 0x72,
        Spec::PhaseCorr(_) => 0x80,
        Spec::Debug(_) | Spec::DebugDev(_) => 0xF0,
        Spec::GpioIn(_) | Spec::GpioInDev(_) => 0xF1,
        Spec::CpuGpio(_) | Spec::CpuGpioDev(_) => 0xF2,
    }
}

/// `Operation::required_size` of the first pack of a datagram (independent re-statement for the boundary table)
fn req_size(s: &Spec) -> usize {
    match tag_of(s) {
        0x01 | 0x02 | 0x03 | 0x31 | 0x60 | 0x61 | 0xF1 | 0xF2 => 2,
        0x21 => 6,
        0x11 | 0x43 | 0x44 => 16,
        0xF0 => 40,
        0x80 => 2 + ((NUM_TR + 1) & !1),
        0x30 => 4 + 2 * NUM_TR,
        0x72 => 2 + 512,
        0x41 => 16 + 2 * NUM_TR,
        0x42 => match s {
            Spec::Foci { n, .. } => 24 + 8 * n,
            _ => unreachable!(),
        },
        _ => 16 + 2, // modulation head + one (padded) sample
    }
}

/// frame well-formedness of one send (all frames of all devices kept in `w.frames`)
fn frames_well_formed(w: &World, first_ids: &[u8], a: &Spec, b: &Spec) -> Option<String> {
    let mut prev: Vec<u8> = first_ids.to_vec();
    let mut foci_n: Option<usize> = None;
    // two FociSTM members with different foci-per-pattern counts: a continuation chunk does not say which
    // member it belongs to, so its extent cannot be decoded from the frame alone (exact offsets are still
    // compared with the model)
    let ambiguous = matches!((a, b), (Spec::Foci { n: n1, .. }, Spec::Foci { n: n2, .. }) if n1 != n2);
    for (dev, f) in &w.frames {
        let (id, slot2) = (f[0], u16::from_le_bytes([f[2], f[3]]) as usize);
        let payload = &f[4..];
        if id == prev[*dev] {
            // nothing new for this device in this round (both operations already done): not a content frame
            continue;
        }
        if id > 0x7F {
            return Some(format!("dev {dev}: message id {id:#x} outside 0..=0x7F"));
        }
        prev[*dev] = id;
        if payload[0] != tag_of(a) && payload[0] != tag_of(b) {
            return Some(format!("dev {dev}: first slot carries tag {:#x}, neither member's", payload[0]));
        }
        if payload[0] == 0x42 && payload[1] & 1 != 0 {
            foci_n = Some(payload[5] as usize);
        }
        let ext1 = match op_extent(payload) {
            Some(e) => e,
            None if payload[0] == 0x42 => 4 + 8 * payload[2] as usize * foci_n.unwrap_or(1),
            None => return Some(format!("dev {dev}: unknown tag {:#x} in slot 1", payload[0])),
        };
        if ambiguous {
            continue;
        }
        if ext1 > 622 {
            return Some(format!("dev {dev}: first operation needs {ext1} bytes > 622"));
        }
        if slot2 != 0 {
            if slot2 % 2 != 0 {
                return Some(format!("dev {dev}: odd second-slot offset {slot2}"));
            }
            if slot2 != ext1 {
                return Some(format!("dev {dev}: second-slot offset {slot2} is not the length {ext1} of the first slot"));
            }
            if payload[slot2] != tag_of(b) {
                return Some(format!("dev {dev}: second slot carries tag {:#x}, expected {:#x}", payload[slot2], tag_of(b)));
            }
            let ext2 = match op_extent(&payload[slot2..]) {
                Some(e) => e,
                None if payload[slot2] == 0x42 => 4 + 8 * payload[slot2 + 2] as usize * foci_n.unwrap_or(1),
                None => return Some(format!("dev {dev}: unknown tag in slot 2")),
            };
            if slot2 + ext2 > 622 {
                return Some(format!("dev {dev}: operations overlap the end of the payload: {slot2}+{ext2} > 622"));
            }
        }
    }
    None
}

fn different_resources(a: &Spec, b: &Spec) -> bool {
    let (ta, tb) = (touches(a), touches(b));
    // "address different resources": neither writes what the other writes. Silencer and a sampling division are
    // different resources although the strict-mode guard reads one when the other is written: the tuple must
    // still equal the sequence (it does on the unchanged tree for every such pair of the alphabet).
    let stm = |x: &Spec| matches!(x, Spec::Foci { .. } | Spec::GainStm { .. } | Spec::Gain { .. } | Spec::SwapFoci(..) | Spec::SwapGainStm(..) | Spec::SwapGain(..));
    let md = |x: &Spec| matches!(x, Spec::Mod { .. } | Spec::SwapMod(..));
    !ta.iter().any(|r| tb.contains(r)) && !(stm(a) && stm(b)) && !(md(a) && md(b)) && !matches!(a, Spec::Clear) && !matches!(b, Spec::Clear)
}

fn snapshot(w: &World) -> Vec<String> {
    w.cpus.iter().map(|c| ALL_RES.iter().map(|r| guarded(|| format!("{}|{}", res_obs(c, *r), res_dyn(c, *r))).unwrap_or_else(|m| format!("P:{}", panic_key(&m)))).collect::<Vec<_>>().join(";")).collect()
}

fn frames_of(ndev: usize, s: &Spec) -> usize {
    let mut w = World::new(ndev, T0);
    let _ = w.send_spec(&Spec::Clear, usize::MAX);
    let _ = w.send_spec(&Spec::SilSteps(1, 1, false), usize::MAX);
    w.send_spec(s, usize::MAX).frames
}

fn run_pair(out: &mut Out, ndev: usize, a: &Spec, b: &Spec) {
    run_pair_h(out, ndev, &[], a, b)
}

fn sdk_err(r: &str) -> bool {
    r.starts_with("err:") && !r.starts_with("err:fw:")
}

/// `hist`: datagrams sent (one by one, on both worlds) between the lax silencer and the tuple: write cursors, page
/// registers, pending transitions and message ids are then not those of a fresh device (review C03 gaps 3, 5)
fn run_pair_h(out: &mut Out, ndev: usize, hist: &[Spec], a: &Spec, b: &Spec) {
    let mut s = Session::new(out, ndev, T0);
    s.send(&Spec::Clear);
    s.send(&Spec::SilSteps(1, 1, false));
    for h in hist {
        s.send(h);
    }
    let hkey: String = if hist.is_empty() {
        String::new()
    } else {
        // runs of the same kind are written `kind*count`
        let mut parts: Vec<(&str, usize)> = vec![];
        for h in hist {
            match parts.last_mut() {
                Some((k, n)) if *k == h.kind() => *n += 1,
                _ => parts.push((h.kind(), 1)),
            }
        }
        format!(":after[{}]", parts.iter().map(|(k, n)| if *n > 1 { format!("{k}*{n}") } else { k.to_string() }).collect::<Vec<_>>().join(","))
    };
    let key = format!("C03:({} , {}):n{ndev}{hkey}", a.text(), b.text());
    if s.dead {
        out.case(None);
        out.count("not-evaluable:panic");
        return;
    }
    s.w.keep_frames = true;
    let ids: Vec<u8> = s.w.tx.iter().map(|t| t.header.msg_id).collect();
    // the REAL tuple type (A, B): `impl Datagram for (D1, D2)` + `CombinedOperationGenerator` (review C03 gap 1)
    let ans = s.pair_real(a, b);
    let log = s.log.clone();
    let mut verdict = None;
    // silent world: A then B
    let mut w2 = World::new(ndev, T0);
    let r2 = guarded(|| {
        let _ = w2.send_spec(&Spec::Clear, usize::MAX);
        let _ = w2.send_spec(&Spec::SilSteps(1, 1, false), usize::MAX);
        for h in hist {
            let _ = w2.send_spec(h, usize::MAX);
        }
        let ra = w2.send_spec(a, usize::MAX);
        let rb = w2.send_spec(b, usize::MAX);
        (ra.result, rb.result, ra.frames, rb.frames)
    });
    if ans == "panic" {
        let msg = s.panic_msg.clone().unwrap_or_default();
        out.case(None);
        out.count("not-evaluable:panic");
        // two members writing the same resource interleave their frames: what the emulator does then is C19's subject
        if r2.is_ok() && different_resources(a, b) {
            out.violation(key, format!("the tuple panicked ({msg}) but its parts sent in order do not"), log);
        }
        return;
    }
    let nframes: usize = ans.split(' ').find_map(|x| x.strip_prefix("N=")).and_then(|x| x.parse().ok()).unwrap_or(0);
    let res: String = ans.split(' ').find_map(|x| x.strip_prefix("R=")).unwrap_or("").to_string();
    if let Some(m) = frames_well_formed(&s.w, &ids, a, b) {
        verdict = Some(m);
    }
    let slot2_used = s.w.frames.iter().any(|(_, f)| f[2] != 0 || f[3] != 0);
    let wrapped = s.w.frames.iter().any(|(d, f)| f[0] < ids[*d]);
    let snap1 = snapshot(&s.w);
    let nontrivial;
    match r2 {
        Err(_) => {
            out.case(None);
            out.count("not-evaluable:panic");
            return;
        }
        Ok((ra, rb, fa, fb)) => {
            let both_ok = ra == "ok" && rb == "ok";
            nontrivial = both_ok;
            if verdict.is_none() && both_ok && ans.starts_with("R=ok") && nframes > fa + fb {
                verdict = Some(format!("the tuple needed {nframes} frames, its parts {fa} + {fb}"));
            }
            // which member's refusal the tuple reports (`operation_generator` of the tuple: first member's error first;
            // pack order: first member first). Only refusals by the SDK itself (not firmware acks) with no frame sent.
            if verdict.is_none() && sdk_err(&ra) && fa == 0 && (rb == "ok" || sdk_err(&rb)) {
                if res == "ok" {
                    verdict = Some(format!("the first member alone is refused ({ra}) but the tuple is accepted"));
                } else if rb == "ok" && res != ra {
                    verdict = Some(format!("the first member alone is refused with {ra}, the second accepted, but the tuple answered {res}"));
                }
                out.count("refused-member:first");
            } else if verdict.is_none() && ra == "ok" && sdk_err(&rb) && fb == 0 {
                if res != rb {
                    verdict = Some(format!("the second member alone is refused with {rb}, the first accepted, but the tuple answered {res}"));
                }
                out.count("refused-member:second");
            }
            if verdict.is_none() && both_ok && different_resources(a, b) {
                if !ans.starts_with("R=ok") {
                    verdict = Some(format!("both members are accepted alone but the tuple answered {}", ans.split(' ').next().unwrap_or("")));
                } else if snap1 != snapshot(&w2) {
                    let (x, y) = (snap1.clone(), snapshot(&w2));
                    let d = (0..ndev).find(|&d| x[d] != y[d]).unwrap();
                    verdict = Some(format!("dev {d}: final state after the tuple differs from sending the parts in order"));
                }
            }
        }
    }
    out.case(if nontrivial { Some(fnv64(key.as_bytes())) } else { None });
    out.count(&format!("pair:{}+{}", a.kind(), b.kind()));
    out.count("real-tuple-type");
    if !hist.is_empty() {
        out.count("dirty-start");
    }
    if wrapped {
        out.count("msg-id-wrap-inside-tuple");
    }
    if nframes > 1 {
        out.count("multi-frame");
    }
    if slot2_used {
        out.count("slot2-used");
    }
    if let Some(what) = verdict {
        out.violation(key, what, log);
    }
}


/// Does some frame of the tuple (a, b) end a FociSTM / modulation chunk exactly on a write-page boundary
/// (4096 foci / 32768 samples) with more data to follow? Decided on the real packer's frames of a scratch world.
fn chunk_meets_page(a: &Spec, b: &Spec) -> bool {
    let mut w = World::new(1, T0);
    let _ = w.send_spec(&Spec::Clear, usize::MAX);
    w.keep_frames = true;
    let r = guarded(|| w.send_pair_spec(a, b, usize::MAX));
    if r.is_err() {
        return false;
    }
    let total = |s: &Spec| match s {
        Spec::Foci { n, size, .. } => n * size,
        Spec::Mod { n, .. } => *n,
        _ => 0,
    };
    let (mut foci, mut md) = (0usize, 0usize);
    let tf = [a, b].iter().filter(|s| matches!(s, Spec::Foci { .. })).map(|s| total(s)).max().unwrap_or(0);
    let tm = [a, b].iter().filter(|s| matches!(s, Spec::Mod { .. })).map(|s| total(s)).max().unwrap_or(0);
    let mut hit = false;
    let mut foci_n = 1usize;
    for (_, f) in &w.frames {
        let slot2 = u16::from_le_bytes([f[2], f[3]]) as usize;
        let payload = &f[4..];
        for off in if slot2 != 0 { vec![0usize, slot2] } else { vec![0usize] } {
            match payload[off] {
                0x42 => {
                    if payload[off + 1] & 1 != 0 {
                        foci_n = payload[off + 5] as usize;
                    }
                    foci += payload[off + 2] as usize * foci_n;
                    if foci % 4096 == 0 && foci < tf {
                        hit = true;
                    }
                }
                0x10 => {
                    md += if payload[off + 1] & 1 != 0 { payload[off + 2] as usize } else { u16::from_le_bytes([payload[off + 2], payload[off + 3]]) as usize };
                    if md % 32768 == 0 && md < tm {
                        hit = true;
                    }
                }
                _ => {}
            }
        }
    }
    hit
}

fn c03_members(rng: &mut Rng, thorough: bool) -> Vec<Spec> {
    let mut v = vec![
        Spec::Gain { seg: 0, tr: Some((0xFF, 0)), seed: 1 },
        Spec::Gain { seg: 1, tr: None, seed: 2 },
        // modulation sizes: one frame; exactly the space left by a 2-byte / 6-byte / 16-byte / 40-byte first slot; multi-frame
        Spec::Mod { seg: 0, tr: Some((0xFF, 0)), rep: 0xFFFF, div: 10, n: 2, seed: 3 },
        Spec::Mod { seg: 1, tr: None, rep: 0xFFFF, div: 10, n: 254, seed: 4 },
        Spec::Mod { seg: 0, tr: None, rep: 0xFFFF, div: 10, n: 255, seed: 5 },
        Spec::Mod { seg: 1, tr: None, rep: 3, div: 10, n: 254 + 618 + 100, seed: 6 },
        Spec::Mod { seg: 0, tr: Some((0xFF, 0)), rep: 0xFFFF, div: 10, n: 254 + 2 * 618, seed: 7 },
        Spec::Foci { n: 1, seg: 0, tr: Some((0xFF, 0)), rep: 0xFFFF, div: 100, ss: 21760, size: 2, seed: 8 },
        Spec::Foci { n: 1, seg: 1, tr: None, rep: 0xFFFF, div: 100, ss: 21760, size: 74, seed: 9 },
        Spec::Foci { n: 3, seg: 0, tr: None, rep: 0xFFFF, div: 100, ss: 21760, size: 60, seed: 10 },
        Spec::Foci { n: 8, seg: 1, tr: None, rep: 0xFFFF, div: 100, ss: 21760, size: 30, seed: 11 },
        Spec::GainStm { mode: 0, seg: 0, tr: Some((0xFF, 0)), rep: 0xFFFF, div: 100, size: 3, seed: 12 },
        Spec::GainStm { mode: 2, seg: 1, tr: None, rep: 0xFFFF, div: 100, size: 9, seed: 13 },
        Spec::SilSteps(2, 3, false),
        Spec::SilRate(100, 200),
        Spec::PhaseCorr(14),
        Spec::Pwe(15),
        Spec::Debug([0x21u64 << 56 | 3, 0x51u64 << 56 | 9, 0x10u64 << 56, 0xF0u64 << 56 | 1]),
        Spec::Fan(true),
        Spec::Reads(true),
        Spec::SwapMod(1, (0xFF, 0)),
        Spec::SwapGain(1, (0xFF, 0)),
        Spec::Clear,
        Spec::Sync,
        // review C03 gap 4: the 16-byte swaps of tags 0x43 / 0x44, a 64-bit SysTime value in a head, the two GPIO datagrams
        Spec::SwapFoci(1, (0xFF, 0)),
        Spec::SwapGainStm(1, (0xFF, 0)),
        Spec::Mod { seg: 1, tr: Some((0x01, T0 + 0x0123_4567_89AB)), rep: 3, div: 10, n: 300, seed: 16 },
        Spec::Foci { n: 2, seg: 1, tr: Some((0x02, 3)), rep: 2, div: 100, ss: 21760, size: 50, seed: 17 },
        Spec::GpioIn(0b1001),
        Spec::CpuGpio(0x80),
        // members whose content depends on the device (two-device pairs): per-device closures inside the real tuple
        Spec::FanMask(0b10),
        Spec::DebugDev([0x21u64 << 56 | 7, 0xE0u64 << 56 | 248, 0x60u64 << 56 | 0x1234_5678_9A, 0x52u64 << 56]),
        // refused by the SDK at the first pack when alone: which member's error a tuple reports (members refused when the
        // generator is built: `generator_time_refusals`, implementation only)
        Spec::Mod { seg: 0, tr: None, rep: 0xFFFF, div: 10, n: 1, seed: 19 },
        Spec::Gain { seg: 0, tr: Some((0x00, 0)), seed: 20 },
    ];
    if thorough {
        for _ in 0..10 {
            v.push(Spec::Mod { seg: rng.below(2) as u8, tr: None, rep: 0xFFFF, div: 10, n: rng.range(2, 3000) as usize, seed: rng.next() % 1000 });
            let n = rng.range(1, 8) as usize;
            v.push(Spec::Foci { n, seg: rng.below(2) as u8, tr: None, rep: 0xFFFF, div: 100, ss: 21760, size: rng.range((2usize.div_ceil(n)) as u64, 400) as usize, seed: rng.next() % 1000 });
        }
    }
    v
}

/// `impl Datagram for (D1, D2)::operation_generator`: both members' generators are built, the FIRST member's error is
/// reported when both fail, nothing is sent. The firmware-stream model validates sizes when packing, so these tuples
/// run on the implementation only (one `note` line).
fn generator_time_refusals(out: &mut Out) {
    let bad = [
        (Spec::GainStm { mode: 0, seg: 0, tr: None, rep: 0xFFFF, div: 100, size: 1, seed: 18 }, "err:GainSTMSizeOutOfRange"),
        (Spec::Foci { n: 1, seg: 1, tr: None, rep: 0xFFFF, div: 100, ss: 21760, size: 1, seed: 21 }, "err:FociSTMTotalSizeOutOfRange"),
        (Spec::GainStm { mode: 1, seg: 1, tr: None, rep: 0xFFFF, div: 100, size: 1025, seed: 22 }, "err:GainSTMSizeOutOfRange"),
    ];
    let good = [Spec::Fan(true), Spec::Mod { seg: 0, tr: None, rep: 0xFFFF, div: 10, n: 900, seed: 23 }, Spec::Gain { seg: 1, tr: None, seed: 24 }];
    let mut pairs: Vec<(Spec, Spec, &str)> = vec![];
    for (i, (x, ex)) in bad.iter().enumerate() {
        for (j, (y, _)) in bad.iter().enumerate() {
            if i != j {
                pairs.push((x.clone(), y.clone(), ex));
            }
        }
        for g in &good {
            pairs.push((x.clone(), g.clone(), ex));
            pairs.push((g.clone(), x.clone(), ex));
        }
    }
    for (a, b, want) in pairs {
        let r = guarded(|| {
            let mut w = World::new(2, T0);
            let _ = w.send_spec(&Spec::Clear, usize::MAX);
            let before = snapshot(&w);
            let o = w.send_tuple_spec(&a, &b, usize::MAX);
            (o.result, o.frames, before != snapshot(&w))
        });
        out.case(Some(fnv64(format!("gen-refusal|{}|{}", a.text(), b.text()).as_bytes())));
        out.count("generator-time-refusal-in-tuple");
        let key = format!("C03:refusal:({} , {})", a.text(), b.text());
        match r {
            Ok((res, n, changed)) => {
                if res != want || n != 0 || changed {
                    out.violation(key, format!("the tuple answered {res} after {n} frame(s){}; expected {want} (the first refused member's error) and nothing sent", if changed { ", device state changed" } else { "" }), vec![format!("send pair {} | {}", a.text(), b.text())]);
                }
            }
            Err(p) => out.violation(key, format!("panic: {p}"), vec![format!("send pair {} | {}", a.text(), b.text())]),
        }
    }
    out.line("note generator-time refusals in tuples", "ok");
}

/// Devices of different sizes (oracle only: the model's devices all have 249 transducers). A member whose wire size
/// depends on the transducer count (Gain, PhaseCorrection) makes one device finish the tuple frames earlier than the
/// other; the device that is done must be left alone while the rest of the tuple goes out.
fn run_hetero(out: &mut Out, sizes: &[usize], a: &Spec, b: &Spec) {
    let run = |tuple: bool| -> Result<(Vec<String>, String, usize), String> {
        let mut w = World::with_sizes(sizes, T0);
        guarded(move || {
            let _ = w.send_spec(&Spec::Clear, usize::MAX);
            let _ = w.send_spec(&Spec::SilSteps(1, 1, false), usize::MAX);
            let (res, frames) = if tuple {
                let o = w.send_tuple_spec(a, b, usize::MAX);
                (o.result, o.frames)
            } else {
                let ra = w.send_spec(a, usize::MAX);
                let rb = w.send_spec(b, usize::MAX);
                (format!("{}/{}", ra.result, rb.result), ra.frames + rb.frames)
            };
            (snapshot(&w), res, frames)
        })
    };
    let key = format!("C03:hetero{sizes:?}:({} , {})", a.text(), b.text());
    out.case(Some(fnv64(key.as_bytes())));
    out.count("hetero-devices (oracle only)");
    match (run(true), run(false)) {
        (Ok((s1, r1, _)), Ok((s2, r2, _))) => {
            if r1 == "ok" && r2 == "ok/ok" && different_resources(a, b) && s1 != s2 {
                let d = (0..sizes.len()).find(|&d| s1[d] != s2[d]).unwrap();
                out.violation(
                    key,
                    format!("devices with {sizes:?} transducers: after the tuple device {d} differs from sending the parts in order (a device that had received everything was given more)"),
                    vec![format!("devices {sizes:?}"), format!("send pair {} | {}", a.text(), b.text())],
                );
            }
        }
        (Err(m), Ok(_)) => out.violation(key, format!("the tuple panicked where its parts do not: {m}"), vec![format!("devices {sizes:?}"), format!("send pair {} | {}", a.text(), b.text())]),
        _ => out.count("not-evaluable:panic"),
    }
}

pub fn run_c03(args: &Args) {
    let mut out = Out::new(&args.out);
    let thorough = args.tier == "thorough";
    let mut rng = Rng::new(args.seed ^ 0xC03);
    let members = c03_members(&mut rng, thorough);
    for (i, a) in members.iter().enumerate() {
        for (j, b) in members.iter().enumerate() {
            let ndev = if (i + j) % 4 == 0 { 2 } else { 1 };
            run_pair(&mut out, ndev, a, b);
        }
    }
    // review C03 gap 3: the same pairs from a dirty start. h1: both write pages / cursors beyond the first page, a
    // GainSTM and a phase correction in place; h2: segment 1 holds a FociSTM (so SwapSegment::FociSTM is acceptable),
    // a finite-loop modulation is pending on a SyncIdx transition
    let h1 = vec![
        Spec::Mod { seg: 0, tr: None, rep: 0xFFFF, div: 10, n: 33000, seed: 41 },
        Spec::GainStm { mode: 0, seg: 1, tr: None, rep: 0xFFFF, div: 100, size: 70, seed: 42 },
        Spec::PhaseCorr(43),
    ];
    let h2 = vec![
        Spec::Foci { n: 2, seg: 1, tr: None, rep: 0xFFFF, div: 100, ss: 21760, size: 2100, seed: 44 },
        Spec::Mod { seg: 1, tr: Some((0x00, 0)), rep: 0, div: 10, n: 4, seed: 45 },
    ];
    for (i, a) in members.iter().enumerate() {
        for (j, b) in members.iter().enumerate() {
            if !thorough && (i * 7 + j * 3) % 4 != 0 && !matches!(a, Spec::SwapFoci(..) | Spec::SwapGainStm(..)) && !matches!(b, Spec::SwapFoci(..) | Spec::SwapGainStm(..)) {
                continue; // quick tier: a quarter of the pairs (every pair with a 16-byte STM swap)
            }
            let ndev = if (i + j) % 4 == 1 { 2 } else { 1 };
            run_pair_h(&mut out, ndev, if (i + 2 * j) % 2 == 0 { &h1 } else { &h2 }, a, b);
        }
    }
    // second slot starts fitting mid-stream: a modulation whose last chunk leaves exactly / just not enough room
    for tail in [0usize, 1, 2, 100, 110, 111, 112, 113, 114, 115, 116, 117, 118, 119, 120, 600, 610, 612, 614, 616, 617, 618] {
        let n = 254 + 618 + tail;
        let a = Spec::Mod { seg: 0, tr: None, rep: 0xFFFF, div: 10, n, seed: tail as u64 };
        for b in [Spec::Gain { seg: 0, tr: Some((0xFF, 0)), seed: 1 }, Spec::SilSteps(2, 3, false), Spec::Debug([0, 0, 0, 0]), Spec::Pwe(1), Spec::Foci { n: 2, seg: 1, tr: None, rep: 0xFFFF, div: 100, ss: 21760, size: 40, seed: 2 }] {
            run_pair(&mut out, 1, &a, &b);
            run_pair(&mut out, 1, &b, &a);
        }
    }
    // review C03 gap 2: exact-fit / just-short space for EVERY kind of second member. `required_size` is the promise
    // `pack_op2` relies on; a too small one writes past the slot only when the space left lies between the promised
    // and the real size. Space left behind a first member A still in flight:
    //   one-frame modulation of n samples        606 - even(n)   (352..604)
    //   last frame of a three-frame modulation   618 - even(tail) (for members that do not fit behind the first frame)
    //   one-frame FociSTM<1> of m points         598 - 8 m        (6, 14, 22, …: the only way to crowd a small member)
    {
        let foci_hist = vec![Spec::Foci { n: 1, seg: 1, tr: None, rep: 0xFFFF, div: 100, ss: 21760, size: 5, seed: 46 }];
        let gstm_hist = vec![Spec::GainStm { mode: 0, seg: 1, tr: None, rep: 0xFFFF, div: 100, size: 2, seed: 47 }];
        let mut bs: Vec<(Spec, Vec<Spec>)> = vec![
            (Spec::Gain { seg: 1, tr: None, seed: 1 }, vec![]),
            (Spec::Pwe(1), vec![]),
            (Spec::GainStm { mode: 0, seg: 1, tr: None, rep: 0xFFFF, div: 100, size: 2, seed: 2 }, vec![]),
            (Spec::PhaseCorr(3), vec![]),
            (Spec::Debug([0x21u64 << 56 | 3, 0, 0x10u64 << 56, 0xF0u64 << 56 | 1]), vec![]),
            (Spec::SwapMod(1, (0xFF, 0)), vec![]),
            (Spec::SwapFoci(1, (0xFF, 0)), foci_hist.clone()),
            (Spec::SwapGainStm(1, (0xFF, 0)), gstm_hist.clone()),
            (Spec::SwapGain(1, (0xFF, 0)), vec![]),
            (Spec::SilSteps(2, 3, false), vec![]),
            (Spec::SilRate(9, 7), vec![]),
            (Spec::Fan(true), vec![]),
            (Spec::Reads(true), vec![]),
            (Spec::Sync, vec![]),
            (Spec::GpioIn(0b0110), vec![]),
            (Spec::CpuGpio(0x20), vec![]),
        ];
        for n in 1..=8usize {
            bs.push((Spec::Foci { n, seg: 1, tr: None, rep: 0xFFFF, div: 100, ss: 21760, size: if n == 1 { 2 } else { 1 }, seed: 50 + n as u64 }, vec![]));
        }
        let mut fits = 0u64;
        let mut shorts = 0u64;
        for (b, hist) in &bs {
            let r = req_size(b) as i64;
            let mut firsts: Vec<(Spec, i64)> = vec![]; // (A, space left behind A's frame in which B is first tried with A in flight)
            for left in [r - 2, r, r + 2] {
                if (352..=604).contains(&left) && left % 2 == 0 {
                    for n in [606 - left, 606 - left - 1] {
                        if (2..=254).contains(&n) {
                            firsts.push((Spec::Mod { seg: 0, tr: None, rep: 0xFFFF, div: 10, n: n as usize, seed: 60 }, left));
                        }
                    }
                }
                if r > 352 && (0..=616).contains(&left) && left % 2 == 0 {
                    for tail in [618 - left, 618 - left - 1] {
                        if tail >= 1 {
                            firsts.push((Spec::Mod { seg: 0, tr: None, rep: 0xFFFF, div: 10, n: 254 + 618 + tail as usize, seed: 61 }, left));
                        }
                    }
                }
            }
            if r <= 590 {
                let m1 = (598 - r) / 8; // largest m with 598 - 8m >= r
                for m in [m1, m1 + 1] {
                    if (2..=74).contains(&m) {
                        firsts.push((Spec::Foci { n: 1, seg: 0, tr: None, rep: 0xFFFF, div: 100, ss: 21760, size: m as usize, seed: 62 }, 598 - 8 * m));
                    }
                }
            }
            for (a, left) in &firsts {
                if *left >= r { fits += 1 } else { shorts += 1 }
                run_pair_h(&mut out, 1, hist, a, b);
                run_pair_h(&mut out, 1, hist, b, a);
            }
        }
        out.count_n("boundary-table:second-member-fits", fits);
        out.count_n("boundary-table:second-member-just-short", shorts);
    }
    // review C03 gap 5: the message id wraps (0x7F -> 0) inside a tuple send: 123 one-frame sends first
    {
        let pre: Vec<Spec> = (0..123).map(|k| Spec::Fan(k % 2 == 0)).collect();
        let a = Spec::Mod { seg: 0, tr: None, rep: 0xFFFF, div: 10, n: 254 + 618 + 30, seed: 63 };
        for b in [Spec::Gain { seg: 1, tr: None, seed: 64 }, Spec::Foci { n: 3, seg: 1, tr: None, rep: 0xFFFF, div: 100, ss: 21760, size: 60, seed: 65 }] {
            run_pair_h(&mut out, 2, &pre, &a, &b);
            run_pair_h(&mut out, 1, &pre, &b, &a);
        }
    }
    // the strict-silencer guard couples Silencer with every sampling division: a multi-frame write with a transition
    // to the other segment next to a strict Silencer whose steps lie between the old and the new division, both orders;
    // the previous content of both segments has a small division
    for (dv_new, steps) in [(20u16, 20u16), (20, 15), (50, 30), (20, 21)] {
        let writes = [
            Spec::Mod { seg: 1, tr: Some((0xFF, 0)), rep: 0xFFFF, div: dv_new, n: 600, seed: 90 },
            Spec::Mod { seg: 1, tr: Some((0xFF, 0)), rep: 0xFFFF, div: dv_new, n: 2, seed: 91 },
            Spec::Foci { n: 1, seg: 1, tr: Some((0xFF, 0)), rep: 0xFFFF, div: dv_new, ss: 21760, size: 100, seed: 92 },
            Spec::GainStm { mode: 0, seg: 1, tr: Some((0xFF, 0)), rep: 0xFFFF, div: dv_new, size: 3, seed: 93 },
        ];
        for w in &writes {
            let sil = Spec::SilSteps(steps, steps, true);
            run_pair(&mut out, 1, w, &sil);
            run_pair(&mut out, 1, &sil, w);
        }
    }
    // a chunk of the second member ends exactly on a write-page boundary: alone, a FociSTM/modulation is always cut
    // the same way; behind another operation its chunks are shorter, so which frame meets the 4096-foci /
    // 32768-sample boundary depends on the first member's size. Search first-member sizes with the real packer.
    let mut aligned = 0usize;
    for n in if thorough { vec![1usize, 2, 3, 4, 5, 6, 7, 8] } else { vec![1usize, 4] } {
        let b = Spec::Foci { n, seg: 1, tr: None, rep: 0xFFFF, div: 100, ss: 21760, size: 4096 / n + 120, seed: 60 + n as u64 };
        let mut found = 0;
        for m in 2..700usize {
            let a = Spec::Mod { seg: 0, tr: None, rep: 0xFFFF, div: 10, n: m, seed: 70 };
            if chunk_meets_page(&a, &b) {
                run_pair(&mut out, 1, &a, &b);
                found += 1;
                aligned += 1;
                if found >= if thorough { 3 } else { 1 } {
                    break;
                }
            }
        }
    }
    {
        let b = Spec::Mod { seg: 1, tr: None, rep: 0xFFFF, div: 10, n: 33000, seed: 71 };
        let mut found = 0;
        for k in 1..80usize {
            let a = Spec::Foci { n: 1, seg: 0, tr: None, rep: 0xFFFF, div: 100, ss: 21760, size: 1 + k, seed: 72 };
            if chunk_meets_page(&a, &b) {
                run_pair(&mut out, 1, &a, &b);
                found += 1;
                aligned += 1;
                if found >= if thorough { 3 } else { 1 } {
                    break;
                }
            }
        }
    }
    out.count_n("page-aligned-tuples", aligned as u64);
    generator_time_refusals(&mut out);
    // devices of different sizes: one device is done while the other still receives frames of the tuple
    for sizes in [vec![249usize, 10], vec![10, 249], vec![249, 40, 249]] {
        for (a, b) in [
            (Spec::Mod { seg: 0, tr: Some((0xFF, 0)), rep: 0xFFFF, div: 10, n: 554, seed: 100 }, Spec::Gain { seg: 0, tr: Some((0xFF, 0)), seed: 101 }),
            (Spec::Mod { seg: 1, tr: None, rep: 0xFFFF, div: 10, n: 1300, seed: 102 }, Spec::Gain { seg: 1, tr: None, seed: 103 }),
            (Spec::Foci { n: 1, seg: 0, tr: Some((0xFF, 0)), rep: 0xFFFF, div: 100, ss: 21760, size: 134, seed: 104 }, Spec::PhaseCorr(105)),
            (Spec::Mod { seg: 0, tr: None, rep: 0xFFFF, div: 10, n: 900, seed: 106 }, Spec::Pwe(107)),
            (Spec::Gain { seg: 1, tr: None, seed: 108 }, Spec::Mod { seg: 1, tr: None, rep: 0xFFFF, div: 10, n: 700, seed: 109 }),
        ] {
            run_hetero(&mut out, &sizes, &a, &b);
        }
    }
    let _ = frames_of;
    out.sample("reset 1 … / send clear / send silsteps 1 1 0 / send pair mod 1 - 3 10 972 6 | gain 0 255:0 1".into());
    out.finish(
        "fw_c03",
        "a case = one ordered pair (A, B) sent as the REAL tuple type (A, B) on world 1 (after an optional dirty history) and as A then B on a silent world 2; non-trivial = both members accepted alone; distinct by (A, B, device count, history kinds). Invisible to the model (same `send pair` line, more varied real inputs): real tuple type, boundary table, dirty starts, id wrap; oracle-only: which member's refusal a tuple reports, tuple panics",
    );
}

// ------------------------------------------------------------------------------------------------ C17

fn check_state_byte(w: &World) -> Option<String> {
    for (d, cpu) in w.cpus.iter().enumerate() {
        let f = cpu.fpga();
        let rx = cpu.rx();
        let st = FPGAState::from_rx(&rx);
        let r = guarded(|| -> Option<String> {
            match (cpu.reads_fpga_state(), st) {
                (false, None) => None,
                (false, Some(_)) => Some(format!("dev {d}: state reading is disabled but fpga_state() is Some")),
                (true, None) => Some(format!("dev {d}: state reading is enabled but fpga_state() is None")),
                (true, Some(s)) => {
                    if s.is_thermal_assert() != f.is_thermo_asserted() {
                        return Some(format!("dev {d}: thermal flag {} but the sensor is {}", s.is_thermal_assert(), f.is_thermo_asserted()));
                    }
                    if s.current_mod_segment() != f.current_mod_segment() {
                        return Some(format!("dev {d}: reported modulation segment {:?}, playing {:?}", s.current_mod_segment(), f.current_mod_segment()));
                    }
                    let cur = f.current_stm_segment();
                    let single = f.stm_cycle(cur) == 1;
                    let (g, t) = (s.current_gain_segment(), s.current_stm_segment());
                    if single && (g != Some(cur) || t.is_some()) {
                        return Some(format!("dev {d}: playing a single pattern in {cur:?} but reported gain {g:?} / stm {t:?}"));
                    }
                    if !single && (t != Some(cur) || g.is_some()) {
                        return Some(format!("dev {d}: playing an STM in {cur:?} but reported gain {g:?} / stm {t:?}"));
                    }
                    None
                }
            }
        });
        match r {
            Ok(None) => {}
            Ok(Some(m)) => return Some(m),
            Err(p) => return Some(format!("dev {d}: panic {p}")),
        }
    }
    None
}

pub fn run_c17(args: &Args) {
    let mut out = Out::new(&args.out);
    let thorough = args.tier == "thorough";
    let mut rng = Rng::new(args.seed ^ 0xC17);
    let imm: Tr = Some((0xFF, 0));
    // review C17 gap 1: what is requested and what plays must be able to differ — finite loops with SyncIdx / GPIO /
    // SysTime transitions (pending until the index wraps / the pin rises / the time comes), finite loops that stop,
    // swaps with those modes, and the GPIO input datagram that lets a pending GPIO transition fire
    let pick_tr = |rng: &mut Rng, now: u64, finite: bool| -> Tr {
        if !finite {
            return match rng.below(4) {
                0 => None,
                1 => Some((0xF0, 0)),
                _ => imm,
            };
        }
        match rng.below(6) {
            0 => None,
            1 => imm, // refused by the firmware for a finite loop to the other segment: the state byte must not move
            2 | 3 => Some((0x00, 0)),
            4 => Some((0x02, rng.below(4))),
            _ => Some((0x01, now + *rng.pick(&[2_000_000u64, 20_000_000, 500_000_000]))),
        }
    };
    let letters = |rng: &mut Rng, now: u64, ndev: usize| -> Spec {
        let seg = rng.below(2) as u8;
        let finite = rng.chance(1, 2);
        let rep: u16 = if finite { rng.below(4) as u16 } else { 0xFFFF };
        let fin2 = rng.chance(1, 2);
        match rng.below(16) {
            0 => Spec::Gain { seg, tr: imm, seed: rng.next() % 100 },
            1 => Spec::Gain { seg, tr: None, seed: rng.next() % 100 },
            2 => Spec::Foci { n: rng.range(1, 8) as usize, seg, tr: pick_tr(rng, now, finite), rep, div: *rng.pick(&[100u16, 2000]), ss: 21760, size: rng.range(2, 9) as usize, seed: 5 },
            3 => Spec::GainStm { mode: rng.below(3) as u8, seg, tr: pick_tr(rng, now, finite), rep, div: *rng.pick(&[100u16, 2000]), size: rng.range(2, 6) as usize, seed: 6 },
            4 | 5 => Spec::Mod { seg, tr: pick_tr(rng, now, finite), rep, div: *rng.pick(&[10u16, 400]), n: rng.range(2, 700) as usize, seed: 7 },
            6 => Spec::SwapMod(seg, pick_tr(rng, now, fin2).unwrap_or((0xFF, 0))),
            7 => Spec::SwapGain(seg, (0xFF, 0)),
            8 => Spec::SwapFoci(seg, pick_tr(rng, now, fin2).unwrap_or((0xFF, 0))),
            9 => Spec::SwapGainStm(seg, pick_tr(rng, now, fin2).unwrap_or((0xFF, 0))),
            10 => Spec::Reads(rng.chance(2, 3)),
            // review C17 gap 3: the reads flag per device
            11 => Spec::ReadsMask(rng.below(1 << ndev) as u8),
            12 => Spec::Clear,
            13 | 14 => Spec::GpioIn(rng.below(16) as u8),
            _ => Spec::Fan(rng.chance(1, 2)),
        }
    };
    let ncases = if thorough { 1500 } else { 200 };
    for c in 0..ncases {
        let ndev = rng.range(1, 4) as usize;
        let mut s = Session::new(&mut out, ndev, T0);
        s.send(&Spec::Clear);
        s.send(&Spec::SilSteps(1, 1, false));
        // which devices have state reading enabled, maintained from the datagrams alone
        let mut expected: Vec<bool> = vec![false; ndev];
        if c % 3 != 0 {
            s.send(&Spec::Reads(true));
            expected = vec![true; ndev];
        }
        let mut verdict = None;
        let len = rng.range(3, 25);
        let mut desc = vec![];
        let (mut pending_seen, mut stopped_seen) = (false, false);
        for k in 0..len {
            if rng.chance(1, 6) {
                let on = rng.chance(1, 2);
                let d = rng.below(ndev as u64) as usize;
                s.thermo(d, on);
                desc.push(format!("thermo{d}{}", on as u8));
            } else if rng.chance(1, 8) {
                // the controller's firmware_version(): five queries then the closing one; the clock may tick in between
                // (review C17 gap 4): while a query is outstanding `read_fpga_state` must leave the answer alone
                let before = s.w.cpus.iter().map(|c| c.reads_fpga_state()).collect::<Vec<_>>();
                let mut versions = vec![];
                let ticking = rng.chance(2, 3);
                for ty in 1..=5u8 {
                    s.send(&Spec::FirmInfo(ty));
                    if s.dead {
                        break;
                    }
                    if ticking {
                        let t = s.w.t + *rng.pick(&[0u64, 1_000, 500_000, 30_000_000]);
                        s.clk(t);
                        if s.dead {
                            break;
                        }
                    }
                    versions.push(s.w.cpus.iter().map(|c| c.rx().data()).collect::<Vec<_>>());
                }
                if s.dead {
                    break;
                }
                s.send(&Spec::FirmInfo(6));
                desc.push(if ticking { "firmware_version+clk".into() } else { "firmware_version".to_string() });
                let after = s.w.cpus.iter().map(|c| c.reads_fpga_state()).collect::<Vec<_>>();
                if before != after && verdict.is_none() {
                    verdict = Some(format!("state reading flags {before:?} became {after:?} across firmware_version (step {})", k + 1));
                }
                for (d, _) in s.w.cpus.iter().enumerate() {
                    let v: Vec<u8> = versions.iter().map(|x| x[d]).collect();
                    if v != [0xA3, 0x00, 0xA3, 0x00, 0x80] && verdict.is_none() {
                        verdict = Some(format!("dev {d}: firmware_version returned {v:?}"));
                    }
                }
            } else {
                let sp = letters(&mut rng, s.w.t, ndev);
                desc.push(sp.kind().to_string());
                let ans = s.send(&sp);
                if ans.starts_with("R=ok") {
                    match &sp {
                        Spec::Reads(b) => expected = vec![*b; ndev],
                        Spec::ReadsMask(m) => expected = (0..ndev).map(|d| (m >> d) & 1 == 1).collect(),
                        Spec::Clear => expected = vec![false; ndev],
                        _ => {}
                    }
                }
            }
            if s.dead {
                break;
            }
            let t = s.w.t + *rng.pick(&[0u64, 1_000, 1_000_000, 30_000_000, 1_000_000_000]);
            s.clk(t);
            if s.dead {
                break;
            }
            if verdict.is_none() {
                if let Some(m) = check_state_byte(&s.w) {
                    verdict = Some(format!("after step {} ({}): {m}", k + 1, desc.last().unwrap()));
                }
            }
            if verdict.is_none() {
                let got: Vec<bool> = s.w.cpus.iter().map(|c| c.reads_fpga_state()).collect();
                if got != expected {
                    verdict = Some(format!("after step {} ({}): state reading is enabled on {got:?}, the datagrams sent say {expected:?}", k + 1, desc.last().unwrap()));
                }
            }
            // evidence that the new dimension is reached: requested segment differs from the playing one / a finite loop stopped
            for cpu in &s.w.cpus {
                let f = cpu.fpga();
                if let Ok(true) = guarded(|| f.req_modulation_segment() != f.current_mod_segment() || f.req_stm_segment() != f.current_stm_segment()) {
                    pending_seen = true;
                }
                if f.stm_loop_behavior(f.current_stm_segment()).rep() != 0xFFFF || f.modulation_loop_behavior(f.current_mod_segment()).rep() != 0xFFFF {
                    stopped_seen = true;
                }
            }
        }
        let log = s.log.clone();
        let key = format!("C17:{}", desc.join("/"));
        out.case(Some(fnv64(key.as_bytes())));
        out.count(&format!("devices:{ndev}"));
        if pending_seen {
            out.count("history-with-requested!=playing-segment");
        }
        if stopped_seen {
            out.count("history-playing-a-finite-loop");
        }
        if let Some(what) = verdict {
            out.violation(key, what, log);
        }
    }
    controller_level(&mut out, &mut rng, if thorough { 300 } else { 40 });
    version_fields(&mut out, &mut rng, if thorough { 200 } else { 40 });
    out.sample("reset 2 … / send clear / send silsteps 1 1 0 / send reads 1 / send foci 3 1 0:0 2 … / clk / thermo 1 1 / send gpioin 5 / send firminfo 1..6 with clk in between / clk …".into());
    out.finish(
        "fw_c17",
        "a case = a random history of writes/swaps (infinite and finite loops; Immediate, Ext, SyncIdx, GPIO and SysTime transitions, so that the requested segment can differ from the playing one), GPIO input, per-device state reading (reads / readsmask), thermal sensor toggles on any device and interleaved firmware_version query sequences with clock ticks in between; after every step + clock update the decoded state byte (FPGAState::from_rx) is compared with what the emulator is playing and the per-device reads flag with what the datagrams said; distinct by history. Oracle-only parts: Controller-level cases (note ctl), every FirmwareVersion field through a link that answers distinguishable bytes (note ver)",
    );
}


// ---- C17 through the real `Controller` (fpga_state(), firmware_version()) with the Audit link: implementation
// oracle only (the Audit link reads the wall clock; only immediate transitions are used, so what is playing does
// not depend on it). Each case leaves one `note` line in the stream so that the counts stay aligned.

struct CtlSend<'a> {
    autd: &'a mut Controller<autd3::link::Audit>,
}
impl DgVisitor for CtlSend<'_> {
    type R = Result<(), AUTDDriverError>;
    fn visit<D>(self, d: D) -> Self::R
    where
        D: autd3_core::datagram::Datagram,
        AUTDDriverError: From<D::Error>,
        D::G: autd3_driver::firmware::operation::OperationGenerator,
        AUTDDriverError: From<<<D::G as autd3_driver::firmware::operation::OperationGenerator>::O1 as autd3_core::datagram::Operation>::Error>
            + From<<<D::G as autd3_driver::firmware::operation::OperationGenerator>::O2 as autd3_core::datagram::Operation>::Error>,
    {
        self.autd.send(d)
    }
}

fn controller_level(out: &mut Out, rng: &mut Rng, ncases: usize) {
    use autd3::link::{Audit, AuditOption};
    for c in 0..ncases {
        let ndev = rng.range(1, 4) as usize;
        let mut desc: Vec<String> = vec![format!("n{ndev}")];
        let r = guarded(|| -> Option<String> {
            let mut autd = Controller::open((0..ndev).map(|_| AUTD3::default()), Audit::new(AuditOption::default())).ok()?;
            let _ = autd.send(Silencer::new(autd3_driver::datagram::FixedCompletionSteps {
                intensity: std::num::NonZeroU16::MIN,
                phase: std::num::NonZeroU16::MIN,
                strict_mode: false,
            }));
            // review C17 gap 3: which devices have state reading enabled, maintained from what was sent: a reads-send
            // (or Clear) reaches the devices that are enabled at that moment, each with its own flag
            let mut expected: Vec<bool> = vec![false; ndev];
            for step in 0..rng.range(3, 14) {
                match rng.below(10) {
                    0 | 9 => {
                        let m = rng.below(1 << ndev) as u32;
                        desc.push(format!("reads{m:b}"));
                        if autd.send(ReadsFPGAState::new(move |dev| (m >> dev.idx()) & 1 == 1)).is_ok() {
                            for dev in autd.geometry().iter().filter(|d| d.enable) {
                                expected[dev.idx()] = (m >> dev.idx()) & 1 == 1;
                            }
                        } else {
                            return None;
                        }
                    }
                    1 => {
                        let d = rng.below(ndev as u64) as usize;
                        let on = rng.chance(1, 2);
                        desc.push(format!("thermo{d}{}", on as u8));
                        if on {
                            autd.link_mut()[d].fpga_mut().assert_thermal_sensor();
                        } else {
                            autd.link_mut()[d].fpga_mut().deassert_thermal_sensor();
                        }
                    }
                    2 => {
                        // disable / enable a device, then ask for the firmware versions
                        let d = rng.below(ndev as u64) as usize;
                        let en = rng.chance(1, 2);
                        autd.geometry_mut()[d].enable = en;
                        desc.push(format!("enable{d}{}", en as u8));
                    }
                    3 => {
                        desc.push("firmware_version".into());
                        let before = autd.fpga_state().ok()?;
                        let v = match autd.firmware_version() {
                            Ok(v) => v,
                            Err(e) => return Some(format!("firmware_version() failed: {e:?}")),
                        };
                        let enabled: Vec<usize> = autd.geometry().iter().filter(|d| d.enable).map(|d| d.idx()).collect();
                        let got: Vec<usize> = v.iter().map(|x| x.idx).collect();
                        if got != enabled {
                            return Some(format!("firmware_version() returned devices {got:?}, enabled are {enabled:?}"));
                        }
                        for x in &v {
                            // review C17 gap 2: every field, the feature bits included (the emulator reports 0x80)
                            if x.cpu.major.0 != 0xA3 || x.fpga.major.0 != 0xA3 || x.cpu.minor.0 != 0 || x.fpga.minor.0 != 0 || x.fpga.function_bits != 0x80 {
                                return Some(format!("firmware_version() of device {}: {:?}", x.idx, x));
                            }
                        }
                        let after = autd.fpga_state().ok()?;
                        // state reading must work as before for every enabled device (a disabled device did not get the closing query)
                        for &i in &enabled {
                            if before[i].is_some() != after[i].is_some() {
                                return Some(format!("device {i}: fpga_state() was {:?} before firmware_version() and {:?} after (step {step})", before[i], after[i]));
                            }
                        }
                    }
                    _ => {
                        // review C17 gap 5: the model-level alphabet restricted to what does not depend on the (wall) clock of
                        // the Audit link: infinite loops, Immediate transitions, writes without transition followed by a swap
                        let seg = rng.below(2) as u8;
                        let imm = Some((0xFFu8, 0u64));
                        let sps: Vec<Spec> = match rng.below(12) {
                            0 => vec![Spec::Gain { seg, tr: imm, seed: 1 }],
                            1 => vec![Spec::Foci { n: rng.range(1, 8) as usize, seg, tr: imm, rep: 0xFFFF, div: 100, ss: 21760, size: 3, seed: 2 }],
                            2 => vec![Spec::GainStm { mode: rng.below(3) as u8, seg, tr: imm, rep: 0xFFFF, div: 100, size: rng.range(2, 5) as usize, seed: 3 }],
                            3 => vec![Spec::Mod { seg, tr: imm, rep: 0xFFFF, div: 10, n: rng.range(2, 700) as usize, seed: 4 }],
                            4 => vec![Spec::SwapMod(seg, (0xFF, 0))],
                            5 => vec![Spec::SwapGain(seg, (0xFF, 0))],
                            6 => vec![Spec::SwapFoci(seg, (0xFF, 0))],
                            7 => vec![Spec::SwapGainStm(seg, (0xFF, 0))],
                            8 => vec![Spec::Clear],
                            9 => vec![Spec::Foci { n: 2, seg, tr: None, rep: 0xFFFF, div: 100, ss: 21760, size: 4, seed: 5 }, Spec::SwapFoci(seg, (0xFF, 0))],
                            10 => vec![Spec::GainStm { mode: 1, seg, tr: None, rep: 0xFFFF, div: 100, size: 2, seed: 6 }, Spec::SwapGainStm(seg, (0xFF, 0))],
                            _ => vec![Spec::Mod { seg, tr: None, rep: 0xFFFF, div: 10, n: 5, seed: 7 }, Spec::Gain { seg, tr: None, seed: 8 }, Spec::SwapMod(seg, (0xFF, 0)), Spec::SwapGain(seg, (0xFF, 0))],
                        };
                        for sp in sps {
                            desc.push(sp.kind().into());
                            let r = build(&sp, CtlSend { autd: &mut autd });
                            if matches!(sp, Spec::Clear) {
                                if r.is_ok() {
                                    for dev in autd.geometry().iter().filter(|d| d.enable) {
                                        expected[dev.idx()] = false;
                                    }
                                } else {
                                    return None;
                                }
                            }
                        }
                    }
                }
                let st = match autd.fpga_state() {
                    Ok(s) => s,
                    Err(e) => return Some(format!("fpga_state() failed: {e:?}")),
                };
                if st.len() != ndev {
                    return Some(format!("fpga_state() returned {} entries for {ndev} devices", st.len()));
                }
                for i in 0..ndev {
                    let cpu = &autd.link()[i];
                    let f = cpu.fpga();
                    if st[i].is_some() != expected[i] {
                        return Some(format!("device {i}: fpga_state() is {:?} but the ReadsFPGAState / Clear datagrams sent so far say reading is {} there (step {step})", st[i], if expected[i] { "enabled" } else { "disabled" }));
                    }
                    match (cpu.reads_fpga_state(), st[i]) {
                        (false, None) => {}
                        (true, Some(s)) => {
                            let cur = f.current_stm_segment();
                            let single = f.stm_cycle(cur) == 1;
                            if s.is_thermal_assert() != f.is_thermo_asserted()
                                || s.current_mod_segment() != f.current_mod_segment()
                                || (single && (s.current_gain_segment() != Some(cur) || s.current_stm_segment().is_some()))
                                || (!single && (s.current_stm_segment() != Some(cur) || s.current_gain_segment().is_some()))
                            {
                                return Some(format!("device {i}: fpga_state() = {s:?} but the device plays mod {:?}, stm {cur:?} (single pattern: {single}), thermal {}", f.current_mod_segment(), f.is_thermo_asserted()));
                            }
                        }
                        (a, b) => return Some(format!("device {i}: state reading enabled = {a} but fpga_state() = {b:?}")),
                    }
                }
            }
            None
        });
        out.line(&format!("note ctl {c}"), "ok");
        out.case(Some(fnv64(desc.join("/").as_bytes()) ^ c as u64));
        out.count("controller-level");
        match r {
            Ok(None) => {}
            Ok(Some(m)) => out.violation(format!("C17:ctl:{}", desc.join("/")), m, desc.clone()),
            Err(p) => out.violation(format!("C17:ctl-panic:{}", panic_key(&p)), format!("panic through the Controller: {p}"), desc.clone()),
        }
    }
}

// ---- every field of `FirmwareVersion` (review C17 gap 2): all emulators answer the same bytes (0xA3 / 0x00 twice), so a
// mix-up of the five queries or of the device index cannot show. This link keeps real emulators (acks, message ids) but
// replaces the data byte of every answered FirmInfo query of type t on device i by 0x20 * t + i.
struct VerLink {
    cpus: Vec<autd3_firmware_emulator::CPUEmulator>,
    open: bool,
    ty: Vec<u8>,
}
impl autd3_core::link::Link for VerLink {
    fn open(&mut self, _: &Geometry) -> Result<(), autd3_core::link::LinkError> {
        self.open = true;
        Ok(())
    }
    fn close(&mut self) -> Result<(), autd3_core::link::LinkError> {
        self.open = false;
        Ok(())
    }
    fn send(&mut self, tx: &[autd3_driver::firmware::cpu::TxMessage]) -> Result<(), autd3_core::link::LinkError> {
        for (i, c) in self.cpus.iter_mut().enumerate() {
            let before = c.rx().ack();
            c.send(tx);
            let p = tx[i].payload();
            // a frame this device has just processed (new ack) decides what its data byte means
            if c.rx().ack() != before {
                self.ty[i] = if p[0] == 0x03 && (1..=5).contains(&p[1]) { p[1] } else { 0 };
            }
        }
        Ok(())
    }
    fn receive(&mut self, rx: &mut [autd3_driver::firmware::cpu::RxMessage]) -> Result<(), autd3_core::link::LinkError> {
        for (i, c) in self.cpus.iter_mut().enumerate() {
            c.update();
            let r = c.rx();
            rx[i] = if self.ty[i] != 0 { autd3_driver::firmware::cpu::RxMessage::new(0x20 * self.ty[i] + i as u8, r.ack()) } else { r };
        }
        Ok(())
    }
    fn is_open(&self) -> bool {
        self.open
    }
}

fn version_fields(out: &mut Out, rng: &mut Rng, ncases: usize) {
    for c in 0..ncases {
        let ndev = rng.range(1, 4) as usize;
        // every mask for up to 3 devices comes up quickly; never all disabled (nothing to ask)
        let mask: Vec<bool> = loop {
            let m: Vec<bool> = (0..ndev).map(|_| rng.chance(2, 3)).collect();
            if m.iter().any(|b| *b) {
                break m;
            }
        };
        let desc = format!("n{ndev}:mask{}", mask.iter().map(|b| if *b { '1' } else { '0' }).collect::<String>());
        let r = guarded(|| -> Option<String> {
            let cpus = (0..ndev).map(|i| autd3_firmware_emulator::CPUEmulator::new(i, NUM_TR)).collect();
            let mut autd = Controller::open((0..ndev).map(|_| AUTD3::default()), VerLink { cpus, open: false, ty: vec![0; ndev] }).ok()?;
            for (i, en) in mask.iter().enumerate() {
                autd.geometry_mut()[i].enable = *en;
            }
            let v = match autd.firmware_version() {
                Ok(v) => v,
                Err(e) => return Some(format!("firmware_version() failed: {e:?}")),
            };
            let want: Vec<usize> = (0..ndev).filter(|i| mask[*i]).collect();
            let got: Vec<usize> = v.iter().map(|x| x.idx).collect();
            if got != want {
                return Some(format!("firmware_version() returned devices {got:?}, enabled are {want:?}"));
            }
            for x in &v {
                let i = x.idx as u8;
                let fields = [x.cpu.major.0, x.cpu.minor.0, x.fpga.major.0, x.fpga.minor.0, x.fpga.function_bits];
                let exp = [0x20 + i, 0x40 + i, 0x60 + i, 0x80 + i, 0xA0 + i];
                if fields != exp {
                    return Some(format!("device {}: [cpu major, cpu minor, fpga major, fpga minor, function bits] = {fields:02x?}, the link answered {exp:02x?}", x.idx));
                }
            }
            None
        });
        out.line(&format!("note ver {c}"), "ok");
        out.case(Some(fnv64(desc.as_bytes())));
        out.count("version-fields");
        match r {
            Ok(None) => {}
            Ok(Some(m)) => out.violation(format!("C17:version-fields:{desc}"), m, vec![desc.clone()]),
            Err(p) => out.violation(format!("C17:version-fields-panic:{}", panic_key(&p)), format!("panic: {p}"), vec![desc.clone()]),
        }
    }
}
