mod common;
mod dev;
mod c09;
mod fwc;
mod fw_c01;

fn main() {
    std::panic::set_hook(Box::new(|_| {}));
    let args = common::parse_args();
    match args.stream.as_str() {
        "silencer" => c09::run(&args),
        "fw_c01" => fw_c01::run(&args),
        s => {
            eprintln!("unknown stream {s}");
            std::process::exit(2);
        }
    }
}
