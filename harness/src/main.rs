mod common;
mod dev;
mod c09;
mod fwc;
mod fw_c01;
mod fw_c02;
mod fw_c08;
mod fw_c03;
mod c18;
mod c14;
mod c06;
mod c04;
mod c13;
mod c05;
mod c07;
mod c12;
mod c15;
mod c10;
mod c16;
mod c20;

fn main() {
    common::install_panic_hook();
    let args = common::parse_args();
    match args.stream.as_str() {
        "silencer" => c09::run(&args),
        "fw_c01" => fw_c01::run(&args),
        "fw_c02" => fw_c02::run(&args),
        "fw_c08" => fw_c08::run_c08(&args),
        "fw_c19" => fw_c08::run_c19(&args),
        "fw_c03" => fw_c03::run_c03(&args),
        "fw_c17" => fw_c03::run_c17(&args),
        "pbcodec" | "pbcodec-child" => c18::run(&args),
        "wrappers" => c14::run(&args),
        "sampling" | "f32ops" => c06::run(&args),
        "sender" => c04::run(&args, false),
        "sender_async" => c04::run(&args, true),
        "group" => c13::run(&args),
        "reject" => c05::run(&args),
        "foci" => c07::run(&args),
        "masks" | "masks-child" => c12::run(&args),
        "holo" => c15::run(&args),
        "parallel" | "parallel-child" => c10::run(&args),
        "modgen" => c16::run(&args),
        "lw" => c20::run(&args),
        s => {
            eprintln!("unknown stream {s}");
            std::process::exit(2);
        }
    }
}
