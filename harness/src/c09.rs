//! `silencer` stream (C09): the real `SilencerEmulator` against the Lean model, plus the
//! implementation oracle (completes within `v` updates — in update-rate mode within distance/rate
//! updates —, shorter arc, monotone, no overshoot, bounded rate).
use crate::common::*;
use crate::dev::*;
use autd3::prelude::*;
use autd3_driver::datagram::{FixedCompletionSteps, FixedUpdateRate};
use autd3_firmware_emulator::CPUEmulator;
use std::num::NonZeroU16;

enum Emu {
    P(autd3_firmware_emulator::fpga::emulator::SilencerEmulator<Phase>),
    I(autd3_firmware_emulator::fpga::emulator::SilencerEmulator<EmitIntensity>),
}
impl Emu {
    fn apply(&mut self, t: u8) -> u8 {
        match self {
            Emu::P(e) => e.apply(t),
            Emu::I(e) => e.apply(t),
        }
    }
    /// `silencer_emulator_*_continue_with`: a new emulator object takes over the running filter under the
    /// device's current silencer configuration
    fn handover(self, cpu: &CPUEmulator) -> Emu {
        match self {
            Emu::P(e) => Emu::P(cpu.fpga().silencer_emulator_phase_continue_with(e)),
            Emu::I(e) => Emu::I(cpu.fpga().silencer_emulator_intensity_continue_with(e)),
        }
    }
}

/// the value configured for the channel the filter under test does NOT use: always different from `value`
fn other_value(value: u16) -> u16 {
    (value ^ 0x55).max(1)
}

/// `tx` must be the same buffer for every send to one device (the message id has to advance)
fn configure(cpu: &mut CPUEmulator, tx: &mut [autd3_driver::firmware::cpu::TxMessage], phase: bool, fixed: bool, value: u16) {
    let g = create_geometry(1);
    let v = NonZeroU16::new(value).unwrap();
    let o = NonZeroU16::new(other_value(value)).unwrap();
    let (intensity, ph) = if phase { (o, v) } else { (v, o) };
    if fixed {
        send(cpu, Silencer::new(FixedUpdateRate { intensity, phase: ph }), &g, tx).unwrap();
    } else {
        send(cpu, Silencer::new(FixedCompletionSteps { intensity, phase: ph, strict_mode: false }), &g, tx).unwrap();
    }
}

struct Ctx {
    out: Out,
}

fn make(phase: bool, fixed: bool, value: u16, initial: u8) -> (CPUEmulator, Emu) {
    let (cpu, _, emu) = make_tx(phase, fixed, value, initial);
    (cpu, emu)
}

fn make_tx(phase: bool, fixed: bool, value: u16, initial: u8) -> (CPUEmulator, Vec<autd3_driver::firmware::cpu::TxMessage>, Emu) {
    let mut cpu = CPUEmulator::new(0, 249);
    let mut tx = new_tx(1);
    configure(&mut cpu, &mut tx, phase, fixed, value);
    // every third device (completion-steps mode) has in addition REFUSED a reconfiguration: an STM of division 100 is
    // running, then a strict Silencer with 60000 steps is sent and answered with InvalidSilencerSettings. A refused
    // request changes nothing: the filters must run with the configured steps.
    let k = MADE.fetch_add(1, std::sync::atomic::Ordering::Relaxed);
    if !fixed && k % 3 == 2 {
        let g = create_geometry(1);
        let pts: Vec<ControlPoints<1>> = (0..2).map(|_| ControlPoints::from(Point3::new(0., 0., 150.))).collect();
        send(&mut cpu, FociSTM::new(pts, SamplingConfig::new(NonZeroU16::new(100).unwrap())), &g, &mut tx).unwrap();
        let big = NonZeroU16::new(60000).unwrap();
        let r = send(&mut cpu, Silencer::new(FixedCompletionSteps { intensity: big, phase: big, strict_mode: true }), &g, &mut tx);
        assert!(r.is_err(), "the strict 60000-step request must be refused while an STM of division 100 runs");
    }
    let emu = if phase { Emu::P(cpu.fpga().silencer_emulator_phase(initial)) } else { Emu::I(cpu.fpga().silencer_emulator_intensity(initial)) };
    (cpu, tx, emu)
}

static MADE: std::sync::atomic::AtomicU64 = std::sync::atomic::AtomicU64::new(0);

fn gcd(a: u32, b: u32) -> u32 {
    if b == 0 { a } else { gcd(b, a % b) }
}

fn circ(a: u8, b: u8) -> u32 {
    let d = (a as i32 - b as i32).unsigned_abs();
    d.min(256 - d)
}

/// One history: `new`, then a list of (target, repetitions). Writes the op lines with the
/// implementation's outputs, and runs the oracle on every segment of a completion-steps history.
fn history(ctx: &mut Ctx, phase: bool, fixed: bool, value: u16, initial: u8, segs: &[(u8, u32)], tag: &str) {
    history_ho(ctx, phase, fixed, value, initial, segs, tag, None)
}

/// `ho = Some(k)`: in every segment the running filter is handed over to a new emulator object
/// (`continue_with`, same configuration) after `k` updates; this must be invisible, so the op lines are the same
#[allow(clippy::too_many_arguments)]
fn history_ho(ctx: &mut Ctx, phase: bool, fixed: bool, value: u16, initial: u8, segs: &[(u8, u32)], tag: &str, ho: Option<u32>) {
    let kind = if phase { "P" } else { "I" };
    let (cpu, mut emu) = make(phase, fixed, value, initial);
    let newline = format!("new {kind} {} {value} {initial}", fixed as u8);
    ctx.out.line(&newline, "ok");
    let mut replay = vec![newline];
    let mut prev_target = initial; // the value the filter is settled on (if the property holds)
    let mut settled = true;
    for &(t, reps) in segs {
        let mut outs = Vec::with_capacity(reps as usize);
        for r in 0..reps {
            if ho == Some(r) {
                emu = emu.handover(&cpu);
            }
            outs.push(emu.apply(t));
        }
        let op = format!("apply {}", std::iter::repeat(t.to_string()).take(reps as usize).collect::<Vec<_>>().join(" "));
        let ans = outs.iter().map(|o| o.to_string()).collect::<Vec<_>>().join(" ");
        ctx.out.line(&op, &ans);
        replay.push(format!("apply {t} x{reps}"));
        let nontrivial = t != prev_target;
        ctx.out.case(if nontrivial {
            Some(fnv64(format!("{kind}{fixed}{value}:{prev_target}>{t}:{tag}").as_bytes()))
        } else {
            None
        });
        // ---- oracle ----
        // From a settled filter (accumulator exactly on `prev_target`) a transition completes within `need` updates and
        // stays: `need` = the configured number of steps, or in update-rate mode the distance (in 1/256 steps, shorter
        // arc for the phase) divided by the rate, rounded up; and it moves monotonically along the shorter way.
        let mut bad: Option<String> = None;
        let dist = if phase { circ(prev_target, t) } else { (t as i32 - prev_target as i32).unsigned_abs() };
        let need = if fixed { (dist * 256).div_ceil(value as u32) } else { value as u32 };
        if settled {
            // (1) completes within `need` updates and stays
            for (k, &o) in outs.iter().enumerate() {
                if (k as u32) + 1 >= need && o != t {
                    bad = Some(if fixed {
                        format!("not complete after {} updates (rate {value}/256 per update, distance {dist}: {need} updates suffice): output {o}, target {t}", k + 1)
                    } else {
                        format!("not complete after {} updates (v={value}): output {o}, target {t}", k + 1)
                    });
                    break;
                }
            }
            // (2) monotone toward the target, never past it
            if bad.is_none() {
                let mut prev = prev_target;
                for (k, &o) in outs.iter().enumerate() {
                    let ok = if phase {
                        // distance to the target never increases, and the travelled arc from the start
                        // never exceeds the circular distance
                        circ(o, t) <= circ(prev, t) && circ(o, prev_target) + circ(o, t) == circ(prev_target, t)
                            || (circ(prev_target, t) == 128 && circ(o, t) <= circ(prev, t))
                    } else {
                        let (lo, hi) = if prev <= t { (prev, t) } else { (t, prev) };
                        lo <= o && o <= hi
                    };
                    if !ok {
                        bad = Some(format!("update {} moved from {prev} to {o} (start {prev_target}, target {t}): not on the shorter way / overshoot", k + 1));
                        break;
                    }
                    prev = o;
                }
            }
            ctx.out.count(if fixed { "oracle:settled-transitions(rate-mode)" } else { "oracle:settled-transitions(steps-mode)" });
        }
        if fixed {
            // the output byte cannot move by more than ceil(value/256)+1 per update
            let lim = (value as u32).div_ceil(256) + 1;
            let mut prev = if settled { Some(prev_target) } else { None };
            for (k, &o) in outs.iter().enumerate() {
                if let Some(p) = prev {
                    let d = if phase { circ(o, p) } else { (o as i32 - p as i32).unsigned_abs() };
                    if d > lim && bad.is_none() {
                        bad = Some(format!("update-rate mode: update {} moved the output by {d} > {lim}", k + 1));
                        break;
                    }
                }
                prev = Some(o);
            }
        }
        if let Some(what) = bad {
            let key = format!("silencer:{kind}:{}{value}:{tag}:{prev_target}>{t}", if fixed { "r" } else { "v" });
            ctx.out.violation(key, format!("{} filter, {} {value}: {what}", if phase { "phase" } else { "intensity" }, if fixed { "update rate" } else { "completion steps" }), replay.clone());
        }
        settled = if fixed {
            // exactly on the target: reached from a settled start, or after as many updates as any start needs
            let worst = if phase { 32768u32 } else { 65535 }.div_ceil(value as u32);
            outs.last() == Some(&t) && ((settled && reps >= need) || reps >= worst)
        } else {
            reps >= value as u32 && outs.last() == Some(&t)
        };
        prev_target = t;
    }
}

pub fn run(args: &Args) {
    let mut ctx = Ctx { out: Out::new(&args.out) };
    let thorough = args.tier == "thorough";
    let mut rng = Rng::new(args.seed ^ 0xC09);

    // corpus first: the F9 witness (phase wound twice round, then one more step)
    for v in [40u16, 10, 1] {
        let segs: Vec<(u8, u32)> = [85u8, 170, 0, 85, 170, 0, 85, 170, 0, 128, 0]
            .iter()
            .map(|&t| (t, v as u32 + 1))
            .collect();
        history(&mut ctx, true, false, v, 0, &segs, "wind-up");
        let segs: Vec<(u8, u32)> = [170u8, 85, 0, 170, 85, 0, 170, 85, 0, 127, 1]
            .iter()
            .map(|&t| (t, v as u32 + 1))
            .collect();
        history(&mut ctx, true, false, v, 0, &segs, "wind-down");
        ctx.out.count("winding-histories");
        ctx.out.count("winding-histories");
    }
    // the same windings in update-rate mode: each target is reached (ceil(128*256/rate) + 1 updates suffice for any
    // distance), so the accumulator is carried twice round before the probe
    for v in [256u16, 1000, 4096, 65535, 1, 255, 257] {
        let reps = (128u32 * 256).div_ceil(v as u32) + 1;
        if reps > 4000 && !thorough {
            continue; // rate 1: 32769 updates per target — thorough tier only
        }
        let segs: Vec<(u8, u32)> = [85u8, 170, 0, 85, 170, 0, 85, 170, 0, 128, 0].iter().map(|&t| (t, reps)).collect();
        history(&mut ctx, true, true, v, 0, &segs, "rate-wind-up");
        let segs: Vec<(u8, u32)> = [170u8, 85, 0, 170, 85, 0, 170, 85, 0, 127, 1].iter().map(|&t| (t, reps)).collect();
        history(&mut ctx, true, true, v, 0, &segs, "rate-wind-down");
        // the intensity filter has no wrap: the same targets, full-range swings
        let segs: Vec<(u8, u32)> = [255u8, 0, 255, 1, 254, 0, 128, 127, 255, 0].iter().map(|&t| (t, (255u32 * 256).div_ceil(v as u32) + 1)).collect();
        history(&mut ctx, false, true, v, 0, &segs, "rate-swing");
        ctx.out.count_n("winding-histories(rate-mode)", 2);
    }

    // exhaustive (start, target) for small step counts: every ordered pair, from a state that was
    // reached by a previous transition (arbitrary rate memory), both filters
    // (step count, stride of the start values): the strided ones cover the regimes the small counts do not have within one
    // value — 100: quotient 1..327 with every remainder schedule; 300: quotient 0 for the shortest distance, remainder > 255
    let small: Vec<(u16, usize)> = if thorough {
        (1..=64).chain([100, 127, 128, 129, 200, 255, 256, 257]).map(|v| (v, 1)).chain([(300, 4), (511, 8)]).collect()
    } else {
        vec![(1, 1), (2, 1), (3, 1), (7, 1), (10, 1), (40, 1), (100, 4), (300, 16)]
    };
    for &(v, stride) in &small {
        for phase in [false, true] {
            for start in (0..=255u8).step_by(stride) {
                // strided starts shift with the filter so that both together see more residues
                let start = if stride > 1 { start.wrapping_add(if phase { 1 } else { 0 }) } else { start };
                let mut segs = Vec::with_capacity(512);
                for target in 0..=255u8 {
                    segs.push((target, v as u32 + 1));
                    segs.push((start, v as u32 + 1));
                }
                history(&mut ctx, phase, false, v, start, &segs, "pairs");
                // the same with a hand-over in the middle of every transition (one offset per start value)
                if v > 1 && (thorough || start % 4 == 0) && stride == 1 {
                    history_ho(&mut ctx, phase, false, v, start, &segs, "pairs-handover", Some(1 + (start as u32) % (v as u32 - 1).max(1)));
                    ctx.out.count("handover-histories");
                }
            }
            ctx.out.count_n(if stride == 1 { "exhaustive-pairs(v,kind)" } else { "strided-pairs(v,kind)" }, 1);
            if stride > 1 {
                ctx.out.count(&format!("strided-pairs:v={v}:every-{stride}th-start-x-256-targets"));
            }
        }
    }
    // large step counts: boundary and random pairs
    let large: Vec<u16> = if thorough {
        vec![255, 256, 257, 511, 512, 1000, 1024, 4096, 32767, 32768, 32769, 65279, 65280, 65281, 65535]
    } else {
        vec![255, 256, 257, 1000, 4096, 65535]
    };
    for &v in &large {
        let npairs = if thorough { 48 } else if v >= 1000 { 10 } else { 40 };
        for phase in [false, true] {
            let mut pairs: Vec<(u8, u8)> = vec![(0, 255), (255, 0), (0, 128), (128, 0), (0, 127), (1, 129), (0, 1), (200, 72)];
            while pairs.len() < npairs {
                pairs.push((rng.below(256) as u8, rng.below(256) as u8));
            }
            for (a, b) in pairs {
                history(&mut ctx, phase, false, v, a, &[(b, v as u32 + 1), (a, v as u32 + 2)], "large-v");
                history_ho(&mut ctx, phase, false, v, a, &[(b, v as u32 + 1), (a, v as u32 + 2)], "large-v-handover", Some(rng.range(1, v as u64 - 1) as u32));
                ctx.out.count("large-v-pairs");
            }
        }
    }
    // random winding walks (phase): many small steps in one direction, several turns, then a probe; a third of them in
    // update-rate mode with rates that reach every target (the rate-mode accumulator is wound as well)
    let walks = if thorough { 600 } else { 90 };
    for _ in 0..walks {
        let fixed = rng.chance(1, 3);
        let v = if fixed { *rng.pick(&[256u16, 300, 700, 1000, 4096, 30000, 65535]) } else { *rng.pick(&[1u16, 2, 5, 10, 40, 100]) };
        let dir_up = rng.chance(1, 2);
        let mut cur = rng.below(256) as u8;
        let initial = cur;
        let mut segs = vec![];
        let turns = rng.range(1, 5);
        let mut travelled = 0u64;
        let reps_for = |d: u32, rng: &mut Rng| if fixed { (d * 256).div_ceil(v as u32) + rng.below(2) as u32 } else { v as u32 + rng.below(2) as u32 };
        while travelled < turns * 256 {
            let step = rng.range(1, 127) as u8;
            cur = if dir_up { cur.wrapping_add(step) } else { cur.wrapping_sub(step) };
            travelled += step as u64;
            segs.push((cur, reps_for(step as u32, &mut rng)));
        }
        for _ in 0..3 {
            let t = rng.below(256) as u8;
            segs.push((t, reps_for(circ(cur, t), &mut rng).max(1)));
            cur = t;
        }
        history(&mut ctx, true, fixed, v, initial, &segs, if fixed { "rate-walk" } else { "walk" });
        ctx.out.count(if fixed { "winding-walks(rate-mode)" } else { "winding-walks" });
    }
    // interrupted transitions (targets changed before completion) — correspondence only
    for _ in 0..(if thorough { 400 } else { 60 }) {
        let v = rng.range(1, 300) as u16;
        let phase = rng.chance(1, 2);
        let segs: Vec<(u8, u32)> = (0..12).map(|_| (rng.below(256) as u8, rng.range(1, v as u64 + 2) as u32)).collect();
        history(&mut ctx, phase, false, v, rng.below(256) as u8, &segs, "interrupted");
        ctx.out.count("interrupted-histories");
    }
    // interrupted exactly on the value the filter shows: a transition a -> b is stopped after k updates by the new
    // target "where the output is now" (with step sizes that leave no fraction the internal value equals it), then a
    // fresh step to p follows: it must behave like a step from a settled filter (the remembered target must be the
    // interrupting one, not b)
    for _ in 0..(if thorough { 1500 } else { 250 }) {
        let phase = rng.chance(1, 2);
        let v = *rng.pick(&[1u16, 2, 4, 5, 8, 10, 16, 20, 32, 40, 64, 100, 128, 200, 256, 512]);
        let a = rng.below(256) as u8;
        // a distance whose per-update step is a whole number of internal units times 1/256: d*256 % v == 0
        let g = (v as u32) / gcd(v as u32, 256);
        let d = (g * rng.range(1, (255 / g.max(1)).max(1) as u64) as u32).min(255) as u8;
        let b = if rng.chance(1, 2) { a.wrapping_add(d) } else { a.wrapping_sub(d) };
        let k = rng.range(1, v as u64) as u32;
        let o = {
            let (_, mut e) = make(phase, false, v, a);
            let mut last = a;
            for _ in 0..k {
                last = e.apply(b);
            }
            last
        };
        let pnext = rng.below(256) as u8;
        history(&mut ctx, phase, false, v, a, &[(b, k), (o, 1), (pnext, v as u32 + 1), (a, v as u32 + 1)], "interrupted-on-output");
        ctx.out.count("interrupted-on-output-histories");
    }
    // fixed update rate mode
    for _ in 0..(if thorough { 600 } else { 80 }) {
        let v = match rng.below(4) {
            0 => rng.range(1, 16),
            1 => rng.range(17, 1024),
            2 => rng.range(1025, 65535),
            _ => *rng.pick(&[1u64, 255, 256, 257, 32768, 65535]),
        } as u16;
        let phase = rng.chance(1, 2);
        let segs: Vec<(u8, u32)> = (0..10).map(|_| (rng.below(256) as u8, rng.range(1, 300) as u32)).collect();
        if rng.chance(1, 3) {
            history_ho(&mut ctx, phase, true, v, rng.below(256) as u8, &segs, "rate-mode-handover", Some(rng.range(1, 20) as u32));
        } else {
            history(&mut ctx, phase, true, v, rng.below(256) as u8, &segs, "rate-mode");
        }
        ctx.out.count("rate-mode-histories");
    }
    // hand-over under a changed configuration (mode and/or value): correspondence only
    for _ in 0..(if thorough { 400 } else { 60 }) {
        let phase = rng.chance(1, 2);
        let kind = if phase { "P" } else { "I" };
        let (mut fixed, mut v) = (rng.chance(1, 3), rng.range(1, 300) as u16);
        let initial = rng.below(256) as u8;
        let (mut cpu, mut tx, mut emu) = make_tx(phase, fixed, v, initial);
        ctx.out.line(&format!("new {kind} {} {v} {initial}", fixed as u8), "ok");
        for _ in 0..6 {
            let t = rng.below(256) as u8;
            let reps = rng.range(1, v as u64 + 2) as usize;
            let outs: Vec<String> = (0..reps).map(|_| emu.apply(t).to_string()).collect();
            ctx.out.line(&format!("apply {}", vec![t.to_string(); reps].join(" ")), &outs.join(" "));
            ctx.out.case(Some(fnv64(format!("reconf{kind}{fixed}{v}{t}{reps}").as_bytes())));
            if rng.chance(1, 2) {
                fixed = rng.chance(1, 3);
                v = rng.range(1, 300) as u16;
            }
            configure(&mut cpu, &mut tx, phase, fixed, v);
            emu = emu.handover(&cpu);
            ctx.out.line(&format!("handover {} {v}", fixed as u8), "ok");
        }
        ctx.out.count("reconfigured-handover-histories");
    }
    ctx.out.sample("new P 0 40 0 / apply 85 x41 / apply 170 x41 / apply 0 x41 / apply 85 x41 / apply 170 x41 / apply 0 x41 …".into());
    ctx.out.sample("new I 0 7 3 / apply 0 x8 / apply 3 x8 / apply 1 x8 / apply 3 x8 / … (all 256 targets from start 3)".into());
    ctx.out.finish(
        "silencer",
        "a case is one `apply` segment; non-trivial = the target differs from the value the filter rests on; distinct by (filter, mode, value, start, target, generator)",
    );
}
