//! `silencer` stream (C09): the real `SilencerEmulator` against the Lean model, plus the
//! implementation oracle (completes within `v` updates, shorter arc, monotone, no overshoot,
//! bounded rate).
use crate::common::*;
use crate::dev::*;
use autd3::prelude::*;
use autd3_driver::datagram::{FixedCompletionSteps, FixedUpdateRate};
use autd3_firmware_emulator::CPUEmulator;
use std::num::NonZeroU16;

enum Emu {
    P(autd3_firmware_emulator::fpga::emulator::SilencerEmulator<Phase>),
    I(autd3_firmware_emulator::fpga::emulator::SilencerEmulator<EmitIntensity>),
}
impl Emu {
    fn apply(&mut self, t: u8) -> u8 {
        match self {
            Emu::P(e) => e.apply(t),
            Emu::I(e) => e.apply(t),
        }
    }
    /// `silencer_emulator_*_continue_with`: a new emulator object takes over the running filter under the
    /// device's current silencer configuration
    fn handover(self, cpu: &CPUEmulator) -> Emu {
        match self {
            Emu::P(e) => Emu::P(cpu.fpga().silencer_emulator_phase_continue_with(e)),
            Emu::I(e) => Emu::I(cpu.fpga().silencer_emulator_intensity_continue_with(e)),
        }
    }
}

/// the value configured for the channel the filter under test does NOT use: always different from `value`
fn other_value(value: u16) -> u16 {
    (value ^ 0x55).max(1)
}

/// `tx` must be the same buffer for every send to one device (the message id has to advance)
fn configure(cpu: &mut CPUEmulator, tx: &mut [autd3_driver::firmware::cpu::TxMessage], phase: bool, fixed: bool, value: u16) {
    let g = create_geometry(1);
    let v = NonZeroU16::new(value).unwrap();
    let o = NonZeroU16::new(other_value(value)).unwrap();
    let (intensity, ph) = if phase { (o, v) } else { (v, o) };
    if fixed {
        send(cpu, Silencer::new(FixedUpdateRate { intensity, phase: ph }), &g, tx).unwrap();
    } else {
        send(cpu, Silencer::new(FixedCompletionSteps { intensity, phase: ph, strict_mode: false }), &g, tx).unwrap();
    }
}

struct Ctx {
    out: Out,
}

fn make(phase: bool, fixed: bool, value: u16, initial: u8) -> (CPUEmulator, Emu) {
    let (cpu, _, emu) = make_tx(phase, fixed, value, initial);
    (cpu, emu)
}

fn make_tx(phase: bool, fixed: bool, value: u16, initial: u8) -> (CPUEmulator, Vec<autd3_driver::firmware::cpu::TxMessage>, Emu) {
    let mut cpu = CPUEmulator::new(0, 249);
    let mut tx = new_tx(1);
    configure(&mut cpu, &mut tx, phase, fixed, value);
    let emu = if phase { Emu::P(cpu.fpga().silencer_emulator_phase(initial)) } else { Emu::I(cpu.fpga().silencer_emulator_intensity(initial)) };
    (cpu, tx, emu)
}

fn circ(a: u8, b: u8) -> u32 {
    let d = (a as i32 - b as i32).unsigned_abs();
    d.min(256 - d)
}

/// One history: `new`, then a list of (target, repetitions). Writes the op lines with the
/// implementation's outputs, and runs the oracle on every segment of a completion-steps history.
fn history(ctx: &mut Ctx, phase: bool, fixed: bool, value: u16, initial: u8, segs: &[(u8, u32)], tag: &str) {
    history_ho(ctx, phase, fixed, value, initial, segs, tag, None)
}

/// `ho = Some(k)`: in every segment the running filter is handed over to a new emulator object
/// (`continue_with`, same configuration) after `k` updates; this must be invisible, so the op lines are the same
#[allow(clippy::too_many_arguments)]
fn history_ho(ctx: &mut Ctx, phase: bool, fixed: bool, value: u16, initial: u8, segs: &[(u8, u32)], tag: &str, ho: Option<u32>) {
    let kind = if phase { "P" } else { "I" };
    let (cpu, mut emu) = make(phase, fixed, value, initial);
    let newline = format!("new {kind} {} {value} {initial}", fixed as u8);
    ctx.out.line(&newline, "ok");
    let mut replay = vec![newline];
    let mut prev_target = initial; // the value the filter is settled on (if the property holds)
    let mut settled = true;
    for &(t, reps) in segs {
        let mut outs = Vec::with_capacity(reps as usize);
        for r in 0..reps {
            if ho == Some(r) {
                emu = emu.handover(&cpu);
            }
            outs.push(emu.apply(t));
        }
        let op = format!("apply {}", std::iter::repeat(t.to_string()).take(reps as usize).collect::<Vec<_>>().join(" "));
        let ans = outs.iter().map(|o| o.to_string()).collect::<Vec<_>>().join(" ");
        ctx.out.line(&op, &ans);
        replay.push(format!("apply {t} x{reps}"));
        let nontrivial = t != prev_target;
        ctx.out.case(if nontrivial {
            Some(fnv64(format!("{kind}{fixed}{value}:{prev_target}>{t}:{tag}").as_bytes()))
        } else {
            None
        });
        // ---- oracle ----
        let mut bad: Option<String> = None;
        if !fixed && settled {
            let v = value as u32;
            // (1) completes within v updates and stays
            for (k, &o) in outs.iter().enumerate() {
                if (k as u32) + 1 >= v && o != t {
                    bad = Some(format!("not complete after {} updates (v={v}): output {o}, target {t}", k + 1));
                    break;
                }
            }
            // (2) monotone toward the target, never past it
            if bad.is_none() {
                let mut prev = prev_target;
                for (k, &o) in outs.iter().enumerate() {
                    let ok = if phase {
                        // distance to the target never increases, and the travelled arc from the start
                        // never exceeds the circular distance
                        circ(o, t) <= circ(prev, t) && circ(o, prev_target) + circ(o, t) == circ(prev_target, t)
                            || (circ(prev_target, t) == 128 && circ(o, t) <= circ(prev, t))
                    } else {
                        let (lo, hi) = if prev <= t { (prev, t) } else { (t, prev) };
                        lo <= o && o <= hi
                    };
                    if !ok {
                        bad = Some(format!("update {} moved from {prev} to {o} (start {prev_target}, target {t}): not on the shorter way / overshoot", k + 1));
                        break;
                    }
                    prev = o;
                }
            }
        }
        if fixed {
            // the output byte cannot move by more than ceil(value/256)+1 per update
            let lim = (value as u32).div_ceil(256) + 1;
            let mut prev = if settled { Some(prev_target) } else { None };
            for (k, &o) in outs.iter().enumerate() {
                if let Some(p) = prev {
                    let d = if phase { circ(o, p) } else { (o as i32 - p as i32).unsigned_abs() };
                    if d > lim {
                        bad = Some(format!("update-rate mode: update {} moved the output by {d} > {lim}", k + 1));
                        break;
                    }
                }
                prev = Some(o);
            }
        }
        if let Some(what) = bad {
            let key = format!("silencer:{kind}:v{value}:{tag}:{prev_target}>{t}");
            ctx.out.violation(key, format!("{} filter, value {value}: {what}", if phase { "phase" } else { "intensity" }), replay.clone());
        }
        settled = !fixed && reps >= value as u32 && outs.last() == Some(&t);
        if fixed {
            settled = outs.last() == Some(&t) && outs.len() >= 2 && outs[outs.len() - 2] == t;
        }
        prev_target = t;
    }
}

pub fn run(args: &Args) {
    let mut ctx = Ctx { out: Out::new(&args.out) };
    let thorough = args.tier == "thorough";
    let mut rng = Rng::new(args.seed ^ 0xC09);

    // corpus first: the F9 witness (phase wound twice round, then one more step)
    for v in [40u16, 10, 1] {
        let segs: Vec<(u8, u32)> = [85u8, 170, 0, 85, 170, 0, 85, 170, 0, 128, 0]
            .iter()
            .map(|&t| (t, v as u32 + 1))
            .collect();
        history(&mut ctx, true, false, v, 0, &segs, "wind-up");
        let segs: Vec<(u8, u32)> = [170u8, 85, 0, 170, 85, 0, 170, 85, 0, 127, 1]
            .iter()
            .map(|&t| (t, v as u32 + 1))
            .collect();
        history(&mut ctx, true, false, v, 0, &segs, "wind-down");
        ctx.out.count("winding-histories");
        ctx.out.count("winding-histories");
    }

    // exhaustive (start, target) for small step counts: every ordered pair, from a state that was
    // reached by a previous transition (arbitrary rate memory), both filters
    let small: Vec<u16> = if thorough { (1..=64).chain([100, 127, 128, 129, 200, 255, 256, 257]).collect() } else { vec![1, 2, 3, 7, 10, 40] };
    for &v in &small {
        for phase in [false, true] {
            for start in 0..=255u8 {
                let mut segs = Vec::with_capacity(512);
                for target in 0..=255u8 {
                    segs.push((target, v as u32 + 1));
                    segs.push((start, v as u32 + 1));
                }
                history(&mut ctx, phase, false, v, start, &segs, "pairs");
                // the same with a hand-over in the middle of every transition (one offset per start value)
                if v > 1 && (thorough || start % 4 == 0) {
                    history_ho(&mut ctx, phase, false, v, start, &segs, "pairs-handover", Some(1 + (start as u32) % (v as u32 - 1).max(1)));
                    ctx.out.count("handover-histories");
                }
            }
            ctx.out.count_n("exhaustive-pairs(v,kind)", 1);
        }
    }
    // large step counts: boundary and random pairs
    let large: Vec<u16> = if thorough {
        vec![255, 256, 257, 511, 512, 1000, 1024, 4096, 32767, 32768, 32769, 65279, 65280, 65281, 65535]
    } else {
        vec![255, 256, 257, 1000, 4096, 65535]
    };
    for &v in &large {
        let npairs = if thorough { 48 } else if v >= 1000 { 10 } else { 40 };
        for phase in [false, true] {
            let mut pairs: Vec<(u8, u8)> = vec![(0, 255), (255, 0), (0, 128), (128, 0), (0, 127), (1, 129), (0, 1), (200, 72)];
            while pairs.len() < npairs {
                pairs.push((rng.below(256) as u8, rng.below(256) as u8));
            }
            for (a, b) in pairs {
                history(&mut ctx, phase, false, v, a, &[(b, v as u32 + 1), (a, v as u32 + 2)], "large-v");
                history_ho(&mut ctx, phase, false, v, a, &[(b, v as u32 + 1), (a, v as u32 + 2)], "large-v-handover", Some(rng.range(1, v as u64 - 1) as u32));
                ctx.out.count("large-v-pairs");
            }
        }
    }
    // random winding walks (phase): many small steps in one direction, several turns, then a probe
    let walks = if thorough { 400 } else { 60 };
    for _ in 0..walks {
        let v = *rng.pick(&[1u16, 2, 5, 10, 40, 100]);
        let dir_up = rng.chance(1, 2);
        let mut cur = rng.below(256) as u8;
        let initial = cur;
        let mut segs = vec![];
        let turns = rng.range(1, 5);
        let mut travelled = 0u64;
        while travelled < turns * 256 {
            let step = rng.range(1, 127) as u8;
            cur = if dir_up { cur.wrapping_add(step) } else { cur.wrapping_sub(step) };
            travelled += step as u64;
            segs.push((cur, v as u32 + rng.below(2) as u32));
        }
        for _ in 0..3 {
            segs.push((rng.below(256) as u8, v as u32 + 1));
        }
        history(&mut ctx, true, false, v, initial, &segs, "walk");
        ctx.out.count("winding-walks");
    }
    // interrupted transitions (targets changed before completion) — correspondence only
    for _ in 0..(if thorough { 400 } else { 60 }) {
        let v = rng.range(1, 300) as u16;
        let phase = rng.chance(1, 2);
        let segs: Vec<(u8, u32)> = (0..12).map(|_| (rng.below(256) as u8, rng.range(1, v as u64 + 2) as u32)).collect();
        history(&mut ctx, phase, false, v, rng.below(256) as u8, &segs, "interrupted");
        ctx.out.count("interrupted-histories");
    }
    // fixed update rate mode
    for _ in 0..(if thorough { 600 } else { 80 }) {
        let v = match rng.below(4) {
            0 => rng.range(1, 16),
            1 => rng.range(17, 1024),
            2 => rng.range(1025, 65535),
            _ => *rng.pick(&[1u64, 255, 256, 257, 32768, 65535]),
        } as u16;
        let phase = rng.chance(1, 2);
        let segs: Vec<(u8, u32)> = (0..10).map(|_| (rng.below(256) as u8, rng.range(1, 300) as u32)).collect();
        if rng.chance(1, 3) {
            history_ho(&mut ctx, phase, true, v, rng.below(256) as u8, &segs, "rate-mode-handover", Some(rng.range(1, 20) as u32));
        } else {
            history(&mut ctx, phase, true, v, rng.below(256) as u8, &segs, "rate-mode");
        }
        ctx.out.count("rate-mode-histories");
    }
    // hand-over under a changed configuration (mode and/or value): correspondence only
    for _ in 0..(if thorough { 400 } else { 60 }) {
        let phase = rng.chance(1, 2);
        let kind = if phase { "P" } else { "I" };
        let (mut fixed, mut v) = (rng.chance(1, 3), rng.range(1, 300) as u16);
        let initial = rng.below(256) as u8;
        let (mut cpu, mut tx, mut emu) = make_tx(phase, fixed, v, initial);
        ctx.out.line(&format!("new {kind} {} {v} {initial}", fixed as u8), "ok");
        for _ in 0..6 {
            let t = rng.below(256) as u8;
            let reps = rng.range(1, v as u64 + 2) as usize;
            let outs: Vec<String> = (0..reps).map(|_| emu.apply(t).to_string()).collect();
            ctx.out.line(&format!("apply {}", vec![t.to_string(); reps].join(" ")), &outs.join(" "));
            ctx.out.case(Some(fnv64(format!("reconf{kind}{fixed}{v}{t}{reps}").as_bytes())));
            if rng.chance(1, 2) {
                fixed = rng.chance(1, 3);
                v = rng.range(1, 300) as u16;
            }
            configure(&mut cpu, &mut tx, phase, fixed, v);
            emu = emu.handover(&cpu);
            ctx.out.line(&format!("handover {} {v}", fixed as u8), "ok");
        }
        ctx.out.count("reconfigured-handover-histories");
    }
    ctx.out.sample("new P 0 40 0 / apply 85 x41 / apply 170 x41 / apply 0 x41 / apply 85 x41 / apply 170 x41 / apply 0 x41 …".into());
    ctx.out.sample("new I 0 7 3 / apply 0 x8 / apply 3 x8 / apply 1 x8 / apply 3 x8 / … (all 256 targets from start 3)".into());
    ctx.out.finish(
        "silencer",
        "a case is one `apply` segment; non-trivial = the target differs from the value the filter rests on; distinct by (filter, mode, value, start, target, generator)",
    );
}
