//! `reject` stream (C05): every case is ONE `Controller::send` of a real datagram (built from the op
//! line with the real SDK types, tuples as real `(D1, D2)`) through the real `Sender` over a
//! recording link that feeds `CPUEmulator`s.  Observed: the returned `Result` (panics caught), the
//! number of frames the link received, and the device state (`fwc::res_obs` over all resources)
//! before / after.  The Lean model (`Model/Reject.lean`) answers the same lines with
//! `R=<ok|err:Variant|panic> N=<frames>`.
//!
//! Oracle (the property, stated on the implementation, independent of the model): a datagram with a
//! defect of the quantifier (size, N, sampling configuration, STM period, Gain transition mode,
//! silencer completion time, focal point) is never `Ok` and never panics; unless the defect is a focal
//! point, the link received no frame and every device shows exactly the state it showed before.
use crate::common::*;
use crate::fwc::{ALL_RES, res_obs};
use autd3::controller::{ParallelMode, SenderOption, Sleep};
use autd3::prelude::*;
use autd3_core::datagram::{Datagram, NullOp, Operation};
use autd3_core::link::{Link, LinkError};
use autd3_core::sampling_config::Nearest;
use autd3_driver::datagram::{FixedCompletionSteps, STMConfig, Synchronize};
use autd3_driver::firmware::cpu::{RxMessage, TxMessage};
use autd3_driver::firmware::operation::OperationGenerator;
use autd3_firmware_emulator::CPUEmulator;
use std::num::NonZeroU16;
use std::time::Duration;

// ------------------------------------------------------------------------------------------ specs

#[derive(Clone, Debug, PartialEq)]
pub enum Sc {
    Div(u16),
    Freq(u32),
    Period(u64),
    FreqN(u32),
    PeriodN(u64),
}

#[derive(Clone, Debug, PartialEq)]
pub enum StmC {
    Freq(u32),
    Period(u64),
    Sc(Sc),
    FreqN(u32),
    PeriodN(u64),
}

type P3 = [u32; 3];

#[derive(Clone, Debug, PartialEq)]
pub enum D1 {
    Mod { len: usize, cfg: Sc, seg: u8, tr: bool },
    Foci { n: usize, size: usize, cfg: StmC, seg: u8, tr: bool, base: P3, over: Vec<(usize, usize, P3)> },
    GainStm { mode: u8, size: usize, cfg: StmC, seg: u8, tr: bool },
    LineF { np: usize, cfg: StmC },
    LineG { np: usize, cfg: StmC },
    CircF { np: usize, cfg: StmC },
    CircG { np: usize, cfg: StmC },
    Gain { seg: u8, tr: Option<u8> },
    SwapGain { seg: u8, mode: u8 },
    SwapMod { seg: u8 },
    SwapFoci { seg: u8 },
    SwapGstm { seg: u8 },
    SilTime { i: u64, p: u64, strict: bool },
    Clear,
    Sync,
    Fan,
    SilSteps,
}

#[derive(Clone, Debug, PartialEq)]
pub enum Dg {
    One(D1),
    Pair(D1, D1),
}

impl Sc {
    fn text(&self) -> String {
        match self {
            Sc::Div(d) => format!("d{d}"),
            Sc::Freq(b) => format!("f{b:x}"),
            Sc::Period(n) => format!("p{n}"),
            Sc::FreqN(b) => format!("fn{b:x}"),
            Sc::PeriodN(n) => format!("pn{n}"),
        }
    }
    fn real(&self) -> SamplingConfig {
        match self {
            Sc::Div(d) => SamplingConfig::Division(NonZeroU16::new(*d).unwrap()),
            Sc::Freq(b) => SamplingConfig::Freq(f32::from_bits(*b) * Hz),
            Sc::Period(n) => SamplingConfig::Period(Duration::from_nanos(*n)),
            Sc::FreqN(b) => SamplingConfig::FreqNearest(Nearest(f32::from_bits(*b) * Hz)),
            Sc::PeriodN(n) => SamplingConfig::PeriodNearest(Nearest(Duration::from_nanos(*n))),
        }
    }
}

impl StmC {
    fn text(&self) -> String {
        match self {
            StmC::Freq(b) => format!("F{b:x}"),
            StmC::Period(n) => format!("P{n}"),
            StmC::Sc(s) => format!("S{}", s.text()),
            StmC::FreqN(b) => format!("FN{b:x}"),
            StmC::PeriodN(n) => format!("PN{n}"),
        }
    }
    fn real(&self) -> STMConfig {
        match self {
            StmC::Freq(b) => STMConfig::Freq(f32::from_bits(*b) * Hz),
            StmC::Period(n) => STMConfig::Period(Duration::from_nanos(*n)),
            StmC::Sc(s) => STMConfig::SamplingConfig(s.real()),
            StmC::FreqN(b) => STMConfig::FreqNearest(f32::from_bits(*b) * Hz),
            StmC::PeriodN(n) => STMConfig::PeriodNearest(Duration::from_nanos(*n)),
        }
    }
}

fn p3_text(p: &P3) -> String {
    format!("{:x}:{:x}:{:x}", p[0], p[1], p[2])
}
fn tr_text(t: bool) -> &'static str {
    if t { "i" } else { "-" }
}

impl D1 {
    fn text(&self) -> String {
        match self {
            D1::Mod { len, cfg, seg, tr } => format!("mod {len} {} {seg} {}", cfg.text(), tr_text(*tr)),
            D1::Foci { n, size, cfg, seg, tr, base, over } => {
                let mut s = format!("foci {n} {size} {} {seg} {} {}", cfg.text(), tr_text(*tr), p3_text(base));
                for (i, j, p) in over {
                    s.push_str(&format!(" {i}.{j}={}", p3_text(p)));
                }
                s
            }
            D1::GainStm { mode, size, cfg, seg, tr } => format!("gstm {mode} {size} {} {seg} {}", cfg.text(), tr_text(*tr)),
            D1::LineF { np, cfg } => format!("linef {np} {}", cfg.text()),
            D1::LineG { np, cfg } => format!("lineg {np} {}", cfg.text()),
            D1::CircF { np, cfg } => format!("circf {np} {}", cfg.text()),
            D1::CircG { np, cfg } => format!("circg {np} {}", cfg.text()),
            D1::Gain { seg, tr } => format!("gain {seg} {}", tr.map(|m| m.to_string()).unwrap_or("-".into())),
            D1::SwapGain { seg, mode } => format!("swapgain {seg} {mode}"),
            D1::SwapMod { seg } => format!("swapmod {seg}"),
            D1::SwapFoci { seg } => format!("swapfoci {seg}"),
            D1::SwapGstm { seg } => format!("swapgstm {seg}"),
            D1::SilTime { i, p, strict } => format!("siltime {i} {p} {}", *strict as u8),
            D1::Clear => "clear".into(),
            D1::Sync => "sync".into(),
            D1::Fan => "fan".into(),
            D1::SilSteps => "silsteps".into(),
        }
    }
    fn kind(&self) -> &'static str {
        match self {
            D1::Mod { .. } => "mod",
            D1::Foci { .. } => "foci",
            D1::GainStm { .. } => "gstm",
            D1::LineF { .. } | D1::LineG { .. } => "line",
            D1::CircF { .. } | D1::CircG { .. } => "circle",
            D1::Gain { .. } => "gain",
            D1::SwapGain { .. } => "swapgain",
            D1::SwapMod { .. } | D1::SwapFoci { .. } | D1::SwapGstm { .. } => "swapother",
            D1::SilTime { .. } => "siltime",
            _ => "simple",
        }
    }
}

impl Dg {
    fn text(&self) -> String {
        match self {
            Dg::One(d) => d.text(),
            Dg::Pair(a, b) => format!("pair {} | {}", a.text(), b.text()),
        }
    }
}

// ----------------------------------------------------------- the property's defect classes (oracle)

#[derive(Clone, Copy, Debug, PartialEq, Eq)]
pub enum Defect {
    Size,
    NumFoci,
    Sampling,
    Period,
    Transition,
    SilencerTime,
    Coordinate,
}

const US: u64 = 25_000;

/// unambiguous invalidity of a sampling frequency in Hz (not a float artefact near a valid divisor)
fn freq_clearly_invalid(f: f64) -> bool {
    if !f.is_finite() || f > 40000.0 * (1.0 + 1e-6) || f < (40000.0 / 65535.0) * (1.0 - 1e-6) {
        return true;
    }
    if f > 40000.0 || f < 40000.0 / 65535.0 {
        return false; // within rounding of the limits: not classified
    }
    // the code divides in f32: a quotient within an f32 ulp of an integer is a rounding artefact
    let q = 40000.0 / f;
    (q - q.round()).abs() > 1e-3 + q * 2.4e-7
}

fn sc_defect(c: &Sc) -> bool {
    match c {
        Sc::Div(_) | Sc::FreqN(_) | Sc::PeriodN(_) => false,
        Sc::Freq(b) => freq_clearly_invalid(f32::from_bits(*b) as f64),
        Sc::Period(n) => *n < US || *n > 65535 * US || *n % US != 0,
    }
}

/// defect of an STM configuration for a sequence of `size` (≥ 1) patterns
fn stmc_defect(c: &StmC, size: usize) -> Option<Defect> {
    match c {
        StmC::Sc(s) => sc_defect(s).then_some(Defect::Sampling),
        StmC::FreqN(_) | StmC::PeriodN(_) => None,
        StmC::Freq(b) => freq_clearly_invalid(f32::from_bits(*b) as f64 * size as f64).then_some(Defect::Sampling),
        StmC::Period(n) => {
            if *n % size as u64 != 0 {
                Some(Defect::Period)
            } else {
                let q = *n / size as u64;
                (q < US || q > 65535 * US || q % US != 0).then_some(Defect::Sampling)
            }
        }
    }
}

/// is a coordinate certainly outside what the device can address (±2^17 units of 0.025 mm, with the
/// transducer-offset margin on the lower x / y side); values within 0.1 mm of a limit are not classified
fn point_defect(p: &P3) -> bool {
    let lim_lo = [-124164.0 * 0.025, -125789.0 * 0.025, -131072.0 * 0.025];
    let lim_hi = 131071.0 * 0.025;
    (0..3).any(|k| {
        let v = f32::from_bits(p[k]) as f64;
        !v.is_finite() || v > lim_hi + 0.1 || v < lim_lo[k] - 0.1
    })
}

/// every coordinate clearly inside the addressable range (at least 0.1 mm away from each limit)
fn point_clearly_ok(p: &[f64; 3]) -> bool {
    let lim_lo = [-124164.0 * 0.025, -125789.0 * 0.025, -131072.0 * 0.025];
    let lim_hi = 131071.0 * 0.025;
    (0..3).all(|k| p[k].is_finite() && p[k] <= lim_hi - 0.1 && p[k] >= lim_lo[k] + 0.1)
}
fn point_clearly_bad(p: &[f64; 3]) -> bool {
    let lim_lo = [-124164.0 * 0.025, -125789.0 * 0.025, -131072.0 * 0.025];
    let lim_hi = 131071.0 * 0.025;
    (0..3).any(|k| !p[k].is_finite() || p[k] > lim_hi + 0.1 || p[k] < lim_lo[k] - 0.1)
}

/// a device pose for the oracle: translation and a rotation about z by `quarter` quarter turns (exact in f64)
#[derive(Clone, Copy, Debug)]
pub struct Pose {
    t: [f64; 3],
    quarter: u8,
}
impl Pose {
    fn rot(&self, v: [f64; 3], inverse: bool) -> [f64; 3] {
        let q = if inverse { (4 - self.quarter % 4) % 4 } else { self.quarter % 4 };
        match q {
            1 => [-v[1], v[0], v[2]],
            2 => [-v[0], -v[1], v[2]],
            3 => [v[1], -v[0], v[2]],
            _ => v,
        }
    }
    fn to_global(&self, local: [f64; 3]) -> [f64; 3] {
        let r = self.rot(local, false);
        [r[0] + self.t[0], r[1] + self.t[1], r[2] + self.t[2]]
    }
    fn to_local(&self, g: [f64; 3]) -> [f64; 3] {
        self.rot([g[0] - self.t[0], g[1] - self.t[1], g[2] - self.t[2]], true)
    }
    fn device(&self) -> AUTD3<UnitQuaternion> {
        AUTD3 {
            pos: Point3::new(self.t[0] as f32, self.t[1] as f32, self.t[2] as f32),
            rot: UnitQuaternion::from_axis_angle(&Vector3::z_axis(), self.quarter as f32 * std::f32::consts::FRAC_PI_2),
        }
    }
}

fn stm_size_defect(total: usize, max: usize) -> bool {
    total < 2 || total > max
}

pub fn defect1(d: &D1) -> Option<Defect> {
    match d {
        D1::Mod { len, cfg, .. } => {
            if *len < 2 || *len > 65536 {
                Some(Defect::Size)
            } else {
                sc_defect(cfg).then_some(Defect::Sampling)
            }
        }
        D1::Foci { n, size, cfg, base, over, .. } => {
            if *n == 0 || *n > 8 {
                Some(Defect::NumFoci)
            } else if stm_size_defect(size * n, 65536) {
                Some(Defect::Size)
            } else if let Some(x) = stmc_defect(cfg, *size) {
                Some(x)
            } else {
                let covered = over.iter().filter(|(i, j, _)| i < size && j < n).count();
                let any_base = covered < size * n;
                ((any_base && point_defect(base)) || over.iter().any(|(i, j, p)| i < size && j < n && point_defect(p)))
                    .then_some(Defect::Coordinate)
            }
        }
        D1::GainStm { size, cfg, .. } => {
            if stm_size_defect(*size, 1024) { Some(Defect::Size) } else { stmc_defect(cfg, *size) }
        }
        D1::LineF { np, cfg } | D1::CircF { np, cfg } => {
            if stm_size_defect(*np, 65536) { Some(Defect::Size) } else { stmc_defect(cfg, *np) }
        }
        D1::LineG { np, cfg } | D1::CircG { np, cfg } => {
            if stm_size_defect(*np, 1024) { Some(Defect::Size) } else { stmc_defect(cfg, *np) }
        }
        D1::Gain { tr, .. } => tr.and_then(|m| (m != 0xFF).then_some(Defect::Transition)),
        D1::SwapGain { mode, .. } => (*mode != 0xFF).then_some(Defect::Transition),
        D1::SilTime { i, p, .. } => {
            let bad = |v: u64| v % US != 0 || v / US == 0 || v / US > 65535;
            (bad(*i) || bad(*p)).then_some(Defect::SilencerTime)
        }
        _ => None,
    }
}

pub fn defect(d: &Dg) -> Option<(usize, Defect)> {
    match d {
        Dg::One(a) => defect1(a).map(|x| (0, x)),
        Dg::Pair(a, b) => defect1(a).map(|x| (0, x)).or_else(|| defect1(b).map(|x| (1, x))),
    }
}

// -------------------------------------------------------------------------- building real datagrams

pub trait Vis {
    type R;
    fn visit<D>(self, d: D) -> Self::R
    where
        D: Datagram,
        D::Error: std::error::Error,
        AUTDDriverError: From<D::Error>,
        D::G: OperationGenerator<O2 = NullOp>,
        AUTDDriverError: From<<<D::G as OperationGenerator>::O1 as Operation>::Error>;
}

fn seg_of(s: u8) -> Segment {
    if s == 0 { Segment::S0 } else { Segment::S1 }
}
fn imm(t: bool) -> Option<TransitionMode> {
    t.then_some(TransitionMode::Immediate)
}
fn tmode(m: u8) -> TransitionMode {
    match m {
        0x00 => TransitionMode::SyncIdx,
        0x01 => TransitionMode::SysTime(DcSysTime::ZERO + Duration::from_nanos(1_000_000)),
        0x02 => TransitionMode::GPIO(GPIOIn::I1),
        0xF0 => TransitionMode::Ext,
        _ => TransitionMode::Immediate,
    }
}
fn pt(p: &P3) -> Point3 {
    Point3::new(f32::from_bits(p[0]), f32::from_bits(p[1]), f32::from_bits(p[2]))
}

macro_rules! foci_n {
    ($n:literal, $v:expr, $size:expr, $cfg:expr, $seg:expr, $tr:expr, $base:expr, $over:expr, $style:expr) => {{
        let mut pts: Vec<ControlPoints<$n>> = (0..$size)
            .map(|_| ControlPoints { points: [ControlPoint::from(pt($base)); $n], intensity: EmitIntensity(0x80) })
            .collect();
        for (i, j, p) in $over.iter().rev() {
            if *i < pts.len() && *j < $n {
                #[allow(unconditional_panic)]
                {
                    pts[*i].points[*j] = ControlPoint::from(pt(p));
                }
            }
        }
        match $style {
            1 => $v.visit(FociSTM::new(pts, $cfg)),
            2 => $v.visit(WithLoopBehavior::new(FociSTM::new(pts, $cfg), finite3(), seg_of($seg), imm($tr))),
            _ => $v.visit(WithLoopBehavior::new(FociSTM::new(pts, $cfg), LoopBehavior::Infinite, seg_of($seg), imm($tr))),
        }
    }};
}
fn finite3() -> LoopBehavior {
    LoopBehavior::Finite(NonZeroU16::new(3).unwrap())
}

fn line(np: usize) -> Line {
    Line {
        start: Point3::new(-30.0, 10.0, 150.0),
        end: Point3::new(30.0, -10.0, 150.0),
        num_points: np,
        intensity: EmitIntensity(0xFF),
    }
}
fn circle(np: usize) -> Circle {
    Circle { center: Point3::new(0.0, 0.0, 150.0), radius: 30.0, num_points: np, n: Vector3::z_axis(), intensity: EmitIntensity(0xFF) }
}
fn stm_w<D: autd3_core::datagram::DatagramL>(d: D) -> WithLoopBehavior<D> {
    WithLoopBehavior::new(d, LoopBehavior::Infinite, Segment::S0, Some(TransitionMode::Immediate))
}

pub fn build<V: Vis>(d: &D1, v: V) -> V::R {
    build_s(d, 0, v)
}

/// `style`: see `World::style` (review C05 gap 4: the `Datagram for D: DatagramL` blanket path and finite loops must
/// validate exactly like the `With*` wrappers with an infinite loop)
pub fn build_s<V: Vis>(d: &D1, style: u8, v: V) -> V::R {
    match d {
        D1::Mod { len, cfg, .. } if style == 1 => v.visit(autd3::modulation::Custom::new(pr_bytes(0xC05 + *len as u64, *len), cfg.real())),
        D1::Mod { len, cfg, seg, tr } => v.visit(WithLoopBehavior::new(
            autd3::modulation::Custom::new(pr_bytes(0xC05 + *len as u64, *len), cfg.real()),
            if style == 2 { finite3() } else { LoopBehavior::Infinite },
            seg_of(*seg),
            imm(*tr),
        )),
        D1::Foci { n, size, cfg, seg, tr, base, over } => {
            let c = cfg.real();
            match n {
                0 => foci_n!(0, v, *size, c, *seg, *tr, base, over, style),
                1 => foci_n!(1, v, *size, c, *seg, *tr, base, over, style),
                2 => foci_n!(2, v, *size, c, *seg, *tr, base, over, style),
                3 => foci_n!(3, v, *size, c, *seg, *tr, base, over, style),
                4 => foci_n!(4, v, *size, c, *seg, *tr, base, over, style),
                5 => foci_n!(5, v, *size, c, *seg, *tr, base, over, style),
                6 => foci_n!(6, v, *size, c, *seg, *tr, base, over, style),
                7 => foci_n!(7, v, *size, c, *seg, *tr, base, over, style),
                8 => foci_n!(8, v, *size, c, *seg, *tr, base, over, style),
                _ => foci_n!(9, v, *size, c, *seg, *tr, base, over, style),
            }
        }
        D1::GainStm { mode, size, cfg, seg, tr } => {
            let gains: Vec<Uniform> = (0..*size)
                .map(|k| Uniform { intensity: EmitIntensity((k % 251) as u8), phase: Phase((k % 241) as u8) })
                .collect();
            let mode = match mode {
                0 => GainSTMMode::PhaseIntensityFull,
                1 => GainSTMMode::PhaseFull,
                _ => GainSTMMode::PhaseHalf,
            };
            match style {
                1 => v.visit(GainSTM::new(gains, cfg.real(), GainSTMOption { mode })),
                2 => v.visit(WithLoopBehavior::new(GainSTM::new(gains, cfg.real(), GainSTMOption { mode }), finite3(), seg_of(*seg), imm(*tr))),
                _ => v.visit(WithLoopBehavior::new(GainSTM::new(gains, cfg.real(), GainSTMOption { mode }), LoopBehavior::Infinite, seg_of(*seg), imm(*tr))),
            }
        }
        D1::LineF { np, cfg } => v.visit(stm_w(FociSTM::new(line(*np), cfg.real()))),
        D1::LineG { np, cfg } => v.visit(stm_w(GainSTM::new(line(*np), cfg.real(), GainSTMOption::default()))),
        D1::CircF { np, cfg } => v.visit(stm_w(FociSTM::new(circle(*np), cfg.real()))),
        D1::CircG { np, cfg } => v.visit(stm_w(GainSTM::new(circle(*np), cfg.real(), GainSTMOption::default()))),
        D1::Gain { seg, tr } => v.visit(WithSegment::new(
            Uniform { intensity: EmitIntensity(0x33), phase: Phase(0x44) },
            seg_of(*seg),
            tr.map(tmode),
        )),
        D1::SwapGain { seg, mode } => v.visit(SwapSegment::Gain(seg_of(*seg), tmode(*mode))),
        D1::SwapMod { seg } => v.visit(SwapSegment::Modulation(seg_of(*seg), TransitionMode::Immediate)),
        D1::SwapFoci { seg } => v.visit(SwapSegment::FociSTM(seg_of(*seg), TransitionMode::Immediate)),
        D1::SwapGstm { seg } => v.visit(SwapSegment::GainSTM(seg_of(*seg), TransitionMode::Immediate)),
        D1::SilTime { i, p, strict } => v.visit(Silencer::new(FixedCompletionTime {
            intensity: Duration::from_nanos(*i),
            phase: Duration::from_nanos(*p),
            strict_mode: *strict,
        })),
        D1::Clear => v.visit(Clear::new()),
        D1::Sync => v.visit(Synchronize::new()),
        D1::Fan => v.visit(ForceFan::new(|_| false)),
        D1::SilSteps => v.visit(Silencer::new(FixedCompletionSteps {
            intensity: NonZeroU16::MIN,
            phase: NonZeroU16::MIN,
            strict_mode: false,
        })),
    }
}

// ------------------------------------------------------------------------------- the recording link

pub struct RecLink {
    pub cpus: Vec<CPUEmulator>,
    pub open: bool,
    pub sends: usize,
}

impl Link for RecLink {
    fn open(&mut self, _: &Geometry) -> Result<(), LinkError> {
        self.open = true;
        Ok(())
    }
    fn close(&mut self) -> Result<(), LinkError> {
        self.open = false;
        Ok(())
    }
    fn send(&mut self, tx: &[TxMessage]) -> Result<(), LinkError> {
        self.sends += 1;
        for c in self.cpus.iter_mut() {
            c.send(tx);
        }
        Ok(())
    }
    fn receive(&mut self, rx: &mut [RxMessage]) -> Result<(), LinkError> {
        for c in self.cpus.iter() {
            rx[c.idx()] = c.rx();
        }
        Ok(())
    }
    fn is_open(&self) -> bool {
        self.open
    }
}

#[derive(Debug, Clone, Copy)]
pub struct NoSleep;
impl Sleep for NoSleep {
    fn sleep_until(&self, _: std::time::Instant) {}
}

fn option() -> SenderOption<NoSleep> {
    option_p(false)
}
fn option_p(parallel: bool) -> SenderOption<NoSleep> {
    SenderOption {
        send_interval: Duration::ZERO,
        receive_interval: Duration::ZERO,
        // non-zero so that an unanswered frame is an error; the emulator answers synchronously
        timeout: Some(Duration::from_micros(1)),
        parallel: if parallel { ParallelMode::On } else { ParallelMode::Off },
        sleeper: NoSleep,
    }
}

pub struct World {
    pub ctl: Controller<RecLink>,
    pub ndev: usize,
    /// send with `ParallelMode::On` (the `par_bridge` branch of `OperationHandler::pack`)
    pub par: bool,
    /// how the real datagram is wrapped: 0 = `WithLoopBehavior` / `WithSegment`, infinite loop (as written in the op
    /// line); 1 = the plain datagram (`FociSTM::new(..)`, `GainSTM::new(..)`, the bare modulation: segment 0,
    /// Immediate, infinite by default); 2 = `WithLoopBehavior` with a finite loop
    pub style: u8,
}

fn err_name(e: &AUTDDriverError) -> String {
    let s = format!("{e:?}");
    let head: String = s.chars().take_while(|c| c.is_alphanumeric()).collect();
    if head == "SamplingConfig" {
        let inner: String = s[head.len()..].trim_start_matches('(').chars().take_while(|c| c.is_alphanumeric()).collect();
        format!("{head}.{inner}")
    } else {
        head
    }
}

struct SendV<'a> {
    w: &'a mut World,
}
impl Vis for SendV<'_> {
    type R = Result<(), AUTDDriverError>;
    fn visit<D>(self, d: D) -> Self::R
    where
        D: Datagram,
        D::Error: std::error::Error,
        AUTDDriverError: From<D::Error>,
        D::G: OperationGenerator<O2 = NullOp>,
        AUTDDriverError: From<<<D::G as OperationGenerator>::O1 as Operation>::Error>,
    {
        let o = option_p(self.w.par);
        self.w.ctl.sender(o).send(d)
    }
}

struct PairV1<'a> {
    w: &'a mut World,
    b: &'a D1,
}
impl Vis for PairV1<'_> {
    type R = Result<(), AUTDDriverError>;
    fn visit<A>(self, a: A) -> Self::R
    where
        A: Datagram,
        A::Error: std::error::Error,
        AUTDDriverError: From<A::Error>,
        A::G: OperationGenerator<O2 = NullOp>,
        AUTDDriverError: From<<<A::G as OperationGenerator>::O1 as Operation>::Error>,
    {
        build(self.b, PairV2 { w: self.w, a })
    }
}
struct PairV2<'a, A> {
    w: &'a mut World,
    a: A,
}
impl<A> Vis for PairV2<'_, A>
where
    A: Datagram,
    A::Error: std::error::Error,
    AUTDDriverError: From<A::Error>,
    A::G: OperationGenerator<O2 = NullOp>,
    AUTDDriverError: From<<<A::G as OperationGenerator>::O1 as Operation>::Error>,
{
    type R = Result<(), AUTDDriverError>;
    fn visit<B>(self, b: B) -> Self::R
    where
        B: Datagram,
        B::Error: std::error::Error,
        AUTDDriverError: From<B::Error>,
        B::G: OperationGenerator<O2 = NullOp>,
        AUTDDriverError: From<<<B::G as OperationGenerator>::O1 as Operation>::Error>,
    {
        // the real tuple datagram: `impl Datagram for (D1, D2)` + `CombinedOperationGenerator`
        let o = option_p(self.w.par);
        self.w.ctl.sender(o).send((self.a, b))
    }
}

impl World {
    /// `ndev` devices at the origin, controller opened (ForceFan, Clear + Synchronize sent), silencer
    /// switched off, and something playing in every segment kind so that "unchanged" is observable.
    pub fn new(ndev: usize) -> Self {
        let mut cpus: Vec<CPUEmulator> = (0..ndev).map(|i| CPUEmulator::new(i, crate::fwc::NUM_TR)).collect();
        for c in cpus.iter_mut() {
            c.update_with_sys_time(DcSysTime::ZERO);
        }
        let devices: Vec<AUTD3<UnitQuaternion>> = (0..ndev).map(|_| AUTD3 { pos: Point3::origin(), ..Default::default() }).collect();
        Self::new_posed(cpus, devices)
    }
    /// the same with devices placed anywhere (review C05 gap 1: the focal-point check runs on device-local coordinates)
    pub fn new_posed(cpus: Vec<CPUEmulator>, devices: Vec<AUTD3<UnitQuaternion>>) -> Self {
        let ndev = devices.len();
        let link = RecLink { cpus, open: false, sends: 0 };
        let ctl = Controller::open_with_option(devices, link, option()).expect("open");
        let mut w = World { ctl, ndev, par: false, style: 0 };
        let base = [
            Dg::One(D1::SilSteps),
            Dg::One(D1::Mod { len: 1000, cfg: Sc::Div(10), seg: 0, tr: true }),
            Dg::One(D1::Mod { len: 3, cfg: Sc::Div(20), seg: 1, tr: false }),
            Dg::One(D1::Foci { n: 2, size: 10, cfg: StmC::Sc(Sc::Div(100)), seg: 0, tr: true, base: [0, 0, 0x43160000], over: vec![] }),
            Dg::One(D1::Gain { seg: 1, tr: None }),
        ];
        for d in base.iter() {
            w.send(d).expect("baseline");
        }
        w
    }
    pub fn send(&mut self, d: &Dg) -> Result<(), AUTDDriverError> {
        match d {
            Dg::One(a) => {
                let st = self.style;
                build_s(a, st, SendV { w: self })
            }
            Dg::Pair(a, b) => build(a, PairV1 { w: self, b }),
        }
    }
    pub fn snapshot(&self) -> Vec<String> {
        let mut v = vec![];
        for c in self.ctl.link().cpus.iter() {
            for r in ALL_RES {
                v.push(format!("{r:?}={}", res_obs(c, r)));
            }
        }
        v
    }
}

// --------------------------------------------------------------------------------------- the stream

struct Ctx {
    out: Out,
    worlds: [Option<World>; 2],
}

impl Ctx {
    fn take_world(&mut self, ndev: usize) -> World {
        match self.worlds[ndev - 1].take() {
            Some(w) => w,
            None => {
                self.out.count("worlds-built");
                World::new(ndev)
            }
        }
    }

    /// one case = one op line; `tag` names the generator for the distribution
    fn case(&mut self, ndev: usize, d: &Dg, tag: &str) {
        self.case_m(ndev, None, d, tag)
    }

    /// as `case` (same op line, same model answer) with the real datagram built in another style (see `World::style`)
    fn case_style(&mut self, ndev: usize, style: u8, d: &Dg, tag: &str) {
        let mut w = self.take_world(ndev);
        w.style = style;
        self.worlds[ndev - 1] = Some(w);
        self.case_m(ndev, None, d, tag);
        if let Some(w) = self.worlds[ndev - 1].as_mut() {
            w.style = 0;
        }
        self.out.count(&format!("style:{}", match style { 1 => "plain-datagram", 2 => "finite-loop", _ => "with-wrapper" }));
    }

    /// review C05 gap 3: the same send with `ParallelMode::On` on two devices (`par_bridge().try_for_each` in
    /// `OperationHandler::pack`). Implementation only (`note` line): which device's error comes back and how far the
    /// other thread got is schedule dependent, so only the property itself is checked.
    fn case_par(&mut self, d: &Dg) {
        let op = format!("note par {}", d.text());
        let mut w = self.take_world(2);
        w.par = true;
        let before = w.snapshot();
        let sends0 = w.ctl.link().sends;
        watch(op.clone());
        let r = guarded(|| w.send(d));
        unwatch();
        w.par = false;
        let (frames, after) = match guarded(|| (w.ctl.link().sends - sends0, w.snapshot())) {
            Ok(x) => x,
            Err(_) => (usize::MAX, vec![]),
        };
        self.out.line(&op, "ok");
        let res = match &r {
            Ok(Ok(())) => "ok".to_string(),
            Ok(Err(e)) => format!("err:{}", err_name(e)),
            Err(_) => "panic".to_string(),
        };
        let changed = before != after;
        if let Some((member, class)) = defect(d) {
            let mut bad: Vec<String> = vec![];
            match &r {
                Ok(Ok(())) => bad.push("reported success".into()),
                Err(m) => bad.push(format!("panicked ({m})")),
                Ok(Err(_)) => {}
            }
            if class != Defect::Coordinate && (frames != 0 || changed) {
                bad.push(format!("{frames} frame(s) reached the link{}", if changed { ", device state changed" } else { "" }));
            }
            if !bad.is_empty() {
                self.out.violation(
                    format!("{}:parallel", violation_key(d, member, class, &r)),
                    format!("ParallelMode::On, 2 devices: {class:?} defect in `{}`: {} (result {res})", d.text(), bad.join("; ")),
                    vec![op.clone()],
                );
            }
        }
        self.out.count("gen:parallel-on");
        self.out.count(&format!("parallel:result:{}", if res == "ok" { "ok" } else if res == "panic" { "panic" } else { "err" }));
        self.out.case(Some(fnv64(format!("par|{}", d.text()).as_bytes())));
        if frames == 0 && !changed && r.is_ok() {
            self.worlds[1] = Some(w);
        }
    }

    /// review C05 gap 1: devices away from the origin / rotated. `FociSTMOp::pack` checks a point after
    /// `p.transform(device.inv())`, per device. Implementation only (`note` line; the model assumes identity poses):
    /// a point clearly outside the range of SOME device must be refused (never Ok, never a panic), a point clearly
    /// inside the range of EVERY device must be accepted.
    fn case_posed(&mut self, poses: &[Pose], global: [f32; 3], n: usize, idx: (usize, usize), size: usize, tag: &str) {
        let p: P3 = [global[0].to_bits(), global[1].to_bits(), global[2].to_bits()];
        // a valid point for every pose of this stream: 150 mm above the middle between the devices
        let base: P3 = [0, 0, Z150];
        let d = D1::Foci { n, size, cfg: StmC::Sc(Sc::Div(100)), seg: 0, tr: true, base, over: vec![(idx.0, idx.1, p)] };
        let op = format!("note pose {} {}", poses.iter().map(|q| format!("{}/{}/{}/r{}", q.t[0], q.t[1], q.t[2], q.quarter)).collect::<Vec<_>>().join(","), d.text());
        let g64 = [global[0] as f64, global[1] as f64, global[2] as f64];
        let locals: Vec<[f64; 3]> = poses.iter().map(|q| q.to_local(g64)).collect();
        let bad = locals.iter().any(point_clearly_bad);
        let good = locals.iter().all(point_clearly_ok);
        watch(op.clone());
        let r = guarded(|| {
            let cpus: Vec<CPUEmulator> = (0..poses.len()).map(|i| CPUEmulator::new(i, crate::fwc::NUM_TR)).collect();
            let mut w = World::new_posed(cpus, poses.iter().map(|q| q.device()).collect());
            w.send(&Dg::One(d.clone()))
        });
        unwatch();
        self.out.line(&op, "ok");
        let res = match &r {
            Ok(Ok(())) => "ok".to_string(),
            Ok(Err(e)) => format!("err:{}", err_name(e)),
            Err(_) => "panic".to_string(),
        };
        let cls = if bad { "out-of-range-for-some-device" } else if good { "in-range-for-every-device" } else { "near-a-limit(not judged)" };
        self.out.count(&format!("gen:{tag}"));
        self.out.count(&format!("posed:{cls}:{}", if res == "ok" { "ok" } else if res == "panic" { "panic" } else { "err" }));
        self.out.case(Some(fnv64(op.as_bytes())));
        let what = if res == "panic" {
            Some("panicked".to_string())
        } else if bad && res == "ok" {
            Some(format!("reported success although the point lies outside the range of a device (local coordinates {locals:?})"))
        } else if good && res != "ok" {
            Some(format!("was refused ({res}) although the point lies inside the range of every device (local coordinates {locals:?})"))
        } else {
            None
        };
        if let Some(w) = what {
            self.out.violation(format!("C05:posed:{cls}:{res}:{}", poses.iter().map(|q| format!("{}r{}", q.t[0] + q.t[1], q.quarter)).collect::<Vec<_>>().join(",")), format!("`{op}` {w}"), vec![op.clone()]);
        }
    }

    /// as `case`, with an enable mask (`mask[i]` = device i is enabled; `None` = all enabled, the old op line).
    /// Pack-time validation runs per *enabled* device (`OperationHandler::pack` filters on `dev.enable`).
    /// Op line `casem <ndev> <mask as 0/1 string, device 0 first> <dg>`.
    fn case_m(&mut self, ndev: usize, mask: Option<&[bool]>, d: &Dg, tag: &str) {
        let op = match mask {
            None => format!("case {ndev} {}", d.text()),
            Some(m) => format!("casem {ndev} {} {}", m.iter().map(|b| if *b { '1' } else { '0' }).collect::<String>(), d.text()),
        };
        let mut w = self.take_world(ndev);
        if let Some(m) = mask {
            for (i, en) in m.iter().enumerate() {
                w.ctl.geometry_mut()[i].enable = *en;
            }
        }
        let any_enabled = mask.is_none_or(|m| m.iter().any(|b| *b));
        let before = w.snapshot();
        let sends0 = w.ctl.link().sends;
        watch(op.clone());
        let r = guarded(|| w.send(d));
        unwatch();
        if mask.is_some() {
            let _ = guarded(|| {
                for dev in w.ctl.geometry_mut().iter_mut() {
                    dev.enable = true;
                }
            });
        }
        // a panic may have left the controller half-way: the world is rebuilt below
        let (frames, after) = match guarded(|| (w.ctl.link().sends - sends0, w.snapshot())) {
            Ok(x) => x,
            Err(_) => (usize::MAX, vec![]),
        };
        let res = match &r {
            Ok(Ok(())) => "ok".to_string(),
            Ok(Err(e)) => format!("err:{}", err_name(e)),
            Err(_) => "panic".to_string(),
        };
        let answer = format!("R={res} N={frames}");
        self.out.line(&op, &answer);
        if tag == "corpus" {
            self.out.sample(format!("{op} => {answer}"));
        }
        let changed = before != after;
        // ---- oracle: the property itself ----
        let df = defect(d);
        // a disabled device never changes, whatever is sent (oracle-only clause of the mask dimension; masks with
        // at least one enabled device — with none enabled see the observation below)
        let mask_txt = mask.map(|m| m.iter().map(|b| if *b { '1' } else { '0' }).collect::<String>()).unwrap_or_default();
        if let (Some(m), true) = (mask, any_enabled) {
            let per = ALL_RES.len();
            for (i, en) in m.iter().enumerate() {
                if !*en && after.len() == before.len() && before[i * per..(i + 1) * per] != after[i * per..(i + 1) * per] {
                    self.out.violation(
                        format!("C05:disabled-device-changed:mask{mask_txt}:{}", d.text()),
                        format!("device {i} is disabled but its state changed by `{}` (result {res})", d.text()),
                        vec![op.clone()],
                    );
                }
            }
        }
        if !any_enabled {
            // OBSERVATION, not judged here (reviewer's C05 gap 2): with no enabled device nothing is packed, so no
            // pack-time validation runs; the Sender hands the tx buffer as it is to the link once and returns Ok.
            // Recorded in the distribution and compared with the model line (`sendMasked`); the property oracle is
            // applied to masks with at least one enabled device only.
            let cls = if df.is_some() { "defective" } else { "valid" };
            self.out.count(&format!("observation:all-disabled:{cls}:R={res}:N={frames}"));
            if changed {
                // the tx buffer can hold a *fresh* message id over a half-written payload (left by an earlier
                // pack-time error): the devices then execute it although nothing was packed for them
                self.out.count(&format!("observation:all-disabled:{cls}:device-state-changed"));
                if self.out.notes.len() < 12 {
                    self.out.notes.push(format!("observation (not judged): `{op}` returned {answer} and changed device state (the tx buffer held a fresh msg id over a stale / half-written payload)"));
                }
            }
            if r.is_err() {
                self.out.violation(format!("C05:all-disabled-panic:{}", d.text()), format!("`{}` panicked with every device disabled", d.text()), vec![op.clone()]);
            }
        }
        if let (Some((member, class)), true) = (df, any_enabled) {
            let mut bad: Vec<String> = vec![];
            match &r {
                Ok(Ok(())) => bad.push("reported success".into()),
                Err(m) => bad.push(format!("panicked ({m})")),
                Ok(Err(_)) => {}
            }
            if class != Defect::Coordinate {
                if frames != 0 {
                    bad.push(format!("{frames} frame(s) reached the link"));
                }
                if changed {
                    let diff: Vec<String> = before
                        .iter()
                        .zip(after.iter())
                        .filter(|(a, b)| a != b)
                        .map(|(a, _)| a.split('=').next().unwrap_or("").to_string())
                        .collect();
                    bad.push(format!("device state changed: {}", diff.join(",")));
                }
            }
            if !bad.is_empty() {
                let mut key = violation_key(d, member, class, &r);
                if mask.is_some() {
                    key.push_str(&format!(":mask{mask_txt}"));
                }
                self.out.violation(
                    key,
                    format!("{:?} defect in {} `{}`: {} (result {res})", class, if matches!(d, Dg::Pair(..)) { format!("member {member} of tuple") } else { "datagram".into() }, d.text(), bad.join("; ")),
                    vec![op.clone()],
                );
            }
        }
        // ---- statistics ----
        let kind = match d {
            Dg::One(a) => a.kind().to_string(),
            Dg::Pair(a, b) => format!("pair({},{})", a.kind(), b.kind()),
        };
        self.out.count(&format!("gen:{tag}"));
        if mask.is_some() {
            self.out.count(&format!("mask:{mask_txt}"));
        }
        self.out.count(&format!("kind:{kind}"));
        self.out.count(&format!("result:{res}"));
        self.out.count(&format!("defect:{}", df.map(|(m, c)| format!("{c:?}@{m}")).unwrap_or("none".into())));
        self.out.count(&format!("frames:{}", match frames { 0 => "0", 1 => "1", 2..=9 => "2-9", 10..=99 => "10-99", _ => "100+" }));
        let nontrivial = df.is_some() || frames > 1 || matches!(d, Dg::Pair(..));
        self.out.case(if nontrivial { Some(fnv64(format!("{}|{:?}|{res}|{frames}", shape_sig(d), mask).as_bytes())) } else { None });
        // anything that touched the devices (or a panic) invalidates the shared world
        if frames == 0 && !changed && r.is_ok() {
            self.worlds[ndev - 1] = Some(w);
        }
    }
}

/// signature of a case for the distinct-non-trivial count: the datagram with sizes kept, payload-free
fn shape_sig(d: &Dg) -> String {
    d.text()
}

/// stable key of a violation: names the defect class and the kind of input, not the seed
fn violation_key(d: &Dg, member: usize, class: Defect, r: &Result<Result<(), AUTDDriverError>, String>) -> String {
    let how = match r {
        Ok(Ok(())) => "ok".to_string(),
        Ok(Err(_)) => "late".to_string(),
        Err(m) => format!("panic:{}", panic_key(m)),
    };
    match d {
        Dg::One(a) => format!("C05:{}:{class:?}:{}:{how}", a.kind(), size_class(a)),
        Dg::Pair(a, b) => {
            if member == 1 && how == "late" && matches!(b.kind(), "gain" | "mod") {
                // the whole class is one finding: validation of the second member happens at pack time
                "C05:tuple:second-member-rejected-after-first-member-frames".to_string()
            } else {
                format!("C05:pair({},{}):{class:?}@{member}:{}:{how}", a.kind(), b.kind(), size_class(if member == 0 { a } else { b }))
            }
        }
    }
}

fn size_class(d: &D1) -> String {
    let s = |n: usize, max: usize| -> String {
        if n == 0 { "0".into() } else if n == 1 { "1".into() } else if n > max { "over".into() } else { "in".into() }
    };
    match d {
        D1::Mod { len, .. } => s(*len, 65536),
        D1::Foci { n, size, .. } => format!("N{}:{}", n, s(size * n, 65536)),
        D1::GainStm { size, .. } => s(*size, 1024),
        D1::LineF { np, .. } | D1::CircF { np, .. } => s(*np, 65536),
        D1::LineG { np, .. } | D1::CircG { np, .. } => s(*np, 1024),
        _ => "-".into(),
    }
}

// ------------------------------------------------------------------------------------- generators

/// may the two datagrams form a generated tuple?  Two members that both get frames through to the
/// same firmware resource (both valid, or one of them with a focal-point defect that shows up late)
/// would interleave their writes in the emulator's memory: that is not a datagram of the quantifier,
/// and what the emulator does with it is C19's subject.
fn pair_ok(a: &D1, b: &D1) -> bool {
    let transmits = |d: &D1| matches!(defect1(d), None | Some(Defect::Coordinate));
    // `Clear` re-arms the default strict silencer, which the firmware then holds against whatever the
    // other member plays: a firmware-side refusal, not a defect of the datagram
    let clear = |d: &D1| matches!(d, D1::Clear);
    if res_class(a) != res_class(b) && !clear(a) && !clear(b) {
        return true;
    }
    !(transmits(a) && transmits(b))
}

/// firmware resource a (valid) datagram writes: two valid members of a generated tuple never share one,
/// so that the emulator has no reason of its own to refuse the frame
fn res_class(d: &D1) -> u8 {
    match d {
        D1::Mod { .. } | D1::SwapMod { .. } => 1,
        D1::Foci { .. } | D1::GainStm { .. } | D1::LineF { .. } | D1::LineG { .. } | D1::CircF { .. } | D1::CircG { .. } => 2,
        D1::Gain { .. } | D1::SwapGain { .. } | D1::SwapFoci { .. } | D1::SwapGstm { .. } => 2,
        D1::SilTime { .. } | D1::SilSteps => 3,
        D1::Clear => 4,
        D1::Sync => 5,
        D1::Fan => 6,
    }
}

const Z150: u32 = 0x43160000; // 150.0
const NAN: u32 = 0x7fc00000;
const INF: u32 = 0x7f800000;
const NINF: u32 = 0xff800000;

fn ok_point() -> P3 {
    [0, 0, Z150]
}
fn f(x: f32) -> u32 {
    x.to_bits()
}

fn stm_cfgs_valid() -> Vec<StmC> {
    vec![StmC::Sc(Sc::Div(100)), StmC::Sc(Sc::Div(1)), StmC::Sc(Sc::Div(65535)), StmC::FreqN(f(1.0)), StmC::PeriodN(1_000_000)]
}

/// every STMConfig variant (the values are valid for most sizes ≥ 2; for size 0/1 the size wins)
fn stm_cfgs_all() -> Vec<StmC> {
    vec![
        StmC::Freq(f(1.0)),
        StmC::Period(1_000_000),
        StmC::Period(1_000_001),
        StmC::Sc(Sc::Div(10)),
        StmC::Sc(Sc::Freq(f(4000.0))),
        StmC::Sc(Sc::Period(250_000)),
        StmC::FreqN(f(1.0)),
        StmC::PeriodN(1_000_000),
        StmC::PeriodN(0),
        StmC::Freq(f(0.0)),
        StmC::Period(0),
    ]
}

fn bad_scs() -> Vec<Sc> {
    vec![
        Sc::Freq(f(0.0)),
        Sc::Freq(f(-4000.0)),
        Sc::Freq(f(40001.0)),
        Sc::Freq(f(80000.0)),
        Sc::Freq(f(0.5)),
        Sc::Freq(f(3999.0)),
        Sc::Freq(f(39999.0)),
        Sc::Freq(f(7000.0)),
        Sc::Freq(NAN),
        Sc::Freq(INF),
        Sc::Freq(NINF),
        Sc::Period(0),
        Sc::Period(24_999),
        Sc::Period(12_500),
        Sc::Period(25_001),
        Sc::Period(37_500),
        Sc::Period(65535 * US + 1),
        Sc::Period(65535 * US + US),
        Sc::Period(65536 * US),
        Sc::Period(u64::MAX),
    ]
}

fn good_scs() -> Vec<Sc> {
    vec![
        Sc::Div(1),
        Sc::Div(10),
        Sc::Div(65535),
        Sc::Freq(f(40000.0)),
        Sc::Freq(f(4000.0)),
        Sc::Freq(f(20000.0)),
        Sc::Freq(f(1.0)),
        Sc::Freq(f(40000.0 / 65535.0)),
        Sc::Period(US),
        Sc::Period(10 * US),
        Sc::Period(65535 * US),
        Sc::FreqN(f(3999.0)),
        Sc::FreqN(f(0.0)),
        Sc::FreqN(f(1e9)),
        Sc::PeriodN(0),
        Sc::PeriodN(37_500),
        Sc::PeriodN(u64::MAX),
    ]
}

fn bad_coords() -> Vec<u32> {
    vec![
        NAN,
        0xffc00000,
        0x7f800001,
        INF,
        NINF,
        f(1e9),
        f(-1e9),
        f(f32::MAX),
        f(f32::MIN),
        f(3276.9),
        f(-3276.9),
        f(5000.0),
        f(-3300.0),
    ]
}

/// coordinates right at the limits of the three axes (units of 0.025 mm), both sides, all finite
fn edge_coords(axis: usize) -> Vec<u32> {
    let lo: i32 = [-124164, -125789, -131072][axis];
    let hi: i32 = 131071;
    let mut v = vec![];
    for k in [lo - 2, lo - 1, lo, lo + 1, hi - 1, hi, hi + 1, hi + 2] {
        for h in [-0.51f64, -0.49, 0.0, 0.49, 0.51] {
            v.push(f(((k as f64 + h) * 0.025) as f32));
        }
    }
    v
}

fn mod1(len: usize) -> D1 {
    D1::Mod { len, cfg: Sc::Div(10), seg: 0, tr: false }
}
fn foci1(n: usize, size: usize, cfg: StmC) -> D1 {
    D1::Foci { n, size, cfg, seg: 0, tr: false, base: ok_point(), over: vec![] }
}
fn gstm1(mode: u8, size: usize, cfg: StmC) -> D1 {
    D1::GainStm { mode, size, cfg, seg: 0, tr: false }
}

fn rand_sc(r: &mut Rng) -> Sc {
    match r.below(10) {
        0..=3 => Sc::Div(r.range(1, 65535) as u16),
        4 => r.pick(&good_scs()).clone(),
        5 => r.pick(&bad_scs()).clone(),
        6 => Sc::Freq(f(40000.0 / r.range(1, 65535) as f32)),
        7 => Sc::Freq(f(r.range(1, 45000) as f32)),
        8 => Sc::Period(r.range(0, 70000) * US + if r.chance(1, 3) { r.range(1, US - 1) } else { 0 }),
        _ => Sc::PeriodN(r.range(0, 1 << 40)),
    }
}

fn rand_stmc(r: &mut Rng, size: usize) -> StmC {
    let s = size.max(1) as u64;
    match r.below(10) {
        0..=2 => StmC::Sc(Sc::Div(r.range(1, 65535) as u16)),
        3 => StmC::Sc(rand_sc(r)),
        4 => StmC::Freq(f(40000.0 / (r.range(1, 2000) as f32 * s as f32))),
        5 => StmC::Freq(f(r.range(1, 200) as f32)),
        6 => StmC::Period(s * US * r.range(1, 65535 / s.min(65535)).max(1)),
        7 => StmC::Period(r.range(0, 1 << 36)),
        8 => StmC::FreqN(f(r.range(0, 50000) as f32)),
        _ => StmC::PeriodN(r.range(0, 1 << 36)),
    }
}

fn rand_point(r: &mut Rng) -> P3 {
    let c = |r: &mut Rng, axis: usize| -> u32 {
        match r.below(12) {
            0 => *r.pick(&bad_coords()),
            1 => *r.pick(&edge_coords(axis)),
            _ => f((r.below(4001) as f32 - 2000.0) * 0.1),
        }
    };
    [c(r, 0), c(r, 1), c(r, 2)]
}

fn rand_d1(r: &mut Rng, big: bool) -> D1 {
    let size_pick = |r: &mut Rng, max: usize| -> usize {
        match r.below(10) {
            0 => 0,
            1 => 1,
            2 => 2,
            3 => max,
            4 => max + 1,
            5 => max + r.range(2, 5000) as usize,
            6 if big => r.range(2, max as u64) as usize,
            _ => r.range(2, 400.min(max as u64)) as usize,
        }
    };
    match r.below(16) {
        0..=2 => D1::Mod { len: size_pick(r, 65536), cfg: rand_sc(r), seg: r.below(2) as u8, tr: r.chance(1, 2) },
        3..=6 => {
            let n = match r.below(12) {
                0 => 0,
                1 => 9,
                _ => r.range(1, 8) as usize,
            };
            let total = size_pick(r, 65536);
            let size = if n == 0 { total.min(50) } else { total.div_ceil(n) + (if r.chance(1, 8) { 1 } else { 0 }) };
            let size = if total <= 1 { total } else { size };
            let mut over = vec![];
            if r.chance(1, 2) && size > 0 && n > 0 {
                for _ in 0..r.range(1, 3) {
                    let i = match r.below(4) {
                        0 => 0,
                        1 => size - 1,
                        _ => r.below(size as u64) as usize,
                    };
                    let j = r.below(n as u64) as usize;
                    if !over.iter().any(|(a, b, _): &(usize, usize, P3)| *a == i && *b == j) {
                        over.push((i, j, rand_point(r)));
                    }
                }
            }
            let base = if r.chance(1, 20) { rand_point(r) } else { ok_point() };
            D1::Foci { n, size, cfg: rand_stmc(r, size), seg: r.below(2) as u8, tr: r.chance(1, 2), base, over }
        }
        7..=8 => {
            let size = size_pick(r, 1024);
            D1::GainStm { mode: r.below(3) as u8, size, cfg: rand_stmc(r, size), seg: r.below(2) as u8, tr: r.chance(1, 2) }
        }
        9 => {
            let np = match r.below(6) {
                0 => 0,
                1 => 1,
                2 => 2,
                _ => r.range(2, 300) as usize,
            };
            let cfg = rand_stmc(r, np);
            match r.below(4) {
                0 => D1::LineF { np, cfg },
                1 => D1::LineG { np, cfg },
                2 => D1::CircF { np, cfg },
                _ => D1::CircG { np, cfg },
            }
        }
        10 => D1::Gain { seg: r.below(2) as u8, tr: *r.pick(&[None, Some(0xFF), Some(0x00), Some(0x01), Some(0x02), Some(0xF0)]) },
        11 => D1::SwapGain { seg: 1, mode: *r.pick(&[0xFF, 0x00, 0x01, 0x02, 0xF0]) },
        12..=13 => {
            let t = |r: &mut Rng| -> u64 {
                match r.below(8) {
                    0 => 0,
                    1 => r.range(1, 65535) * US + r.range(1, US - 1),
                    2 => 65536 * US,
                    3 => r.range(65536, 1 << 30) * US,
                    4 => r.range(1, 1 << 40),
                    _ => r.range(1, 65535) * US,
                }
            };
            let (i, p) = (t(r), t(r));
            let d = D1::SilTime { i, p, strict: true };
            // a valid strict setting may be refused by the firmware (it is checked against what plays)
            if defect1(&d).is_none() { D1::SilTime { i, p, strict: false } } else { d }
        }
        _ => r.pick(&[D1::Clear, D1::Sync, D1::Fan, D1::SilSteps]).clone(),
    }
}

pub fn run(args: &Args) {
    let mut ctx = Ctx { out: Out::new(&args.out), worlds: [None, None] };
    // a send that never returns (e.g. an operation that can never become done) is a finding, not a hung check
    start_watchdog(&args.out, 60);
    let thorough = args.tier == "thorough";
    let mut rng = Rng::new(args.seed ^ 0xC05_0000);

    // ---- the constants the model uses, printed from the crates
    {
        use autd3_driver::firmware::fpga::*;
        let fmax = 40000.0f32;
        let fmin = fmax / u16::MAX as f32;
        let payload = {
            use zerocopy::FromZeros;
            TxMessage::new_zeroed().payload().len()
        };
        let ans = format!(
            "unit={:08x} fmax={:08x} fmin={:08x} period={} mod={}..{} stm={} foci={} gain={} nf={} payload={} imm={}",
            FOCI_STM_FIXED_NUM_UNIT.to_bits(),
            (ULTRASOUND_FREQ.hz() as f32).to_bits(),
            fmin.to_bits(),
            autd3_driver::defined::ULTRASOUND_PERIOD.as_nanos(),
            MOD_BUF_SIZE_MIN,
            MOD_BUF_SIZE_MAX,
            STM_BUF_SIZE_MIN,
            FOCI_STM_BUF_SIZE_MAX,
            GAIN_STM_BUF_SIZE_MAX,
            FOCI_STM_FOCI_NUM_MAX,
            payload,
            TransitionMode::Immediate.mode()
        );
        ctx.out.line("consts", &ans);
    }

    // ---- corpus: the DESIGN §6 witnesses F2–F5 and the late tuple rejection, stable order
    let v100 = StmC::Sc(Sc::Div(100));
    let corpus: Vec<Dg> = vec![
        // one witness of each finding first (the runner prints the first few)
        // F2: an empty STM is "done" before anything is validated
        Dg::One(gstm1(0, 0, v100.clone())),
        // F3: size 0 with a period configuration
        Dg::One(foci1(1, 0, StmC::Period(1_000_000))),
        // F4: 65537 samples, to the segment being played
        Dg::One(D1::Mod { len: 65537, cfg: Sc::Div(10), seg: 0, tr: false }),
        // F5: non-finite focal point
        Dg::One(D1::Foci { n: 1, size: 2, cfg: v100.clone(), seg: 0, tr: false, base: ok_point(), over: vec![(1, 0, [NAN, 0, Z150])] }),
        // a tuple whose second member is refused only when it is packed, behind the first member's frame
        Dg::Pair(D1::Mod { len: 300, cfg: Sc::Div(10), seg: 0, tr: false }, D1::Gain { seg: 0, tr: Some(0) }),
        // more of each
        Dg::One(foci1(1, 0, v100.clone())),
        Dg::One(foci1(1, 0, StmC::FreqN(f(1.0)))),
        Dg::One(D1::LineF { np: 0, cfg: v100.clone() }),
        Dg::One(D1::CircG { np: 0, cfg: v100.clone() }),
        Dg::One(gstm1(0, 0, StmC::Period(1_000_000))),
        Dg::One(foci1(3, 0, StmC::PeriodN(1_000_000))),
        Dg::One(D1::LineF { np: 0, cfg: StmC::Period(1_000_000) }),
        Dg::One(D1::Mod { len: 70000, cfg: Sc::Div(10), seg: 0, tr: true }),
        Dg::One(D1::Foci { n: 1, size: 2, cfg: v100.clone(), seg: 0, tr: false, base: ok_point(), over: vec![(0, 0, [0, INF, Z150])] }),
        Dg::One(D1::Foci { n: 2, size: 100, cfg: v100.clone(), seg: 1, tr: false, base: ok_point(), over: vec![(99, 1, [0, 0, NINF])] }),
        Dg::Pair(foci1(1, 100, v100.clone()), D1::Mod { len: 1, cfg: Sc::Div(10), seg: 0, tr: false }),
        Dg::Pair(D1::Gain { seg: 1, tr: None }, gstm1(0, 1, v100.clone())),
        Dg::Pair(D1::Gain { seg: 1, tr: None }, gstm1(0, 1025, v100.clone())),
        Dg::Pair(foci1(8, 100, v100.clone()), foci1(1, 70000, v100.clone())),
    ];
    for d in &corpus {
        ctx.case(1, d, "corpus");
    }

    // ---- boundary sets -------------------------------------------------------------------------
    // modulation sizes
    let mod_sizes: Vec<usize> = if thorough {
        vec![0, 1, 2, 3, 253, 254, 255, 256, 871, 872, 873, 65535, 65536, 65537, 65538, 65791, 66000, 70000, 131072, 200000]
    } else {
        vec![0, 1, 2, 3, 254, 255, 65536, 65537, 65538, 70000]
    };
    for &len in &mod_sizes {
        for tr in [false, true] {
            ctx.case(1, &Dg::One(D1::Mod { len, cfg: Sc::Div(10), seg: 0, tr }), "mod-size");
        }
        ctx.case(2, &Dg::One(D1::Mod { len, cfg: Sc::Freq(f(4000.0)), seg: 1, tr: false }), "mod-size");
    }
    // modulation sampling configurations
    for sc in bad_scs().into_iter().chain(good_scs()) {
        ctx.case(1, &Dg::One(D1::Mod { len: 10, cfg: sc.clone(), seg: 0, tr: false }), "mod-sampling");
        ctx.case(1, &Dg::One(D1::Mod { len: 700, cfg: sc.clone(), seg: 1, tr: true }), "mod-sampling");
        // both defects: the size wins
        ctx.case(1, &Dg::One(D1::Mod { len: 1, cfg: sc.clone(), seg: 0, tr: false }), "mod-sampling");
        ctx.case(1, &Dg::One(D1::Mod { len: 65537, cfg: sc, seg: 0, tr: false }), "mod-sampling");
    }
    // the float window of SamplingConfig::division: frequencies a few ulps around exact divisors of
    // 40 kHz and around the two ends of the accepted range
    for k in [1u32, 2, 3, 7, 10, 100, 1000, 4096, 40000, 65535] {
        let centre = (40000.0f32 / k as f32).to_bits();
        for d in [0i32, 1, -1, 2, -2, 3, 5, 8, -8, 9, -9, 12, 16, 100, -100] {
            let b = (centre as i64 + d as i64) as u32;
            ctx.case(1, &Dg::One(D1::Mod { len: 10, cfg: Sc::Freq(b), seg: 1, tr: false }), "freq-window");
            if k % 2 == 0 && k <= 4096 {
                // the same sampling frequency reached through an STM of 2 patterns
                ctx.case(1, &Dg::One(gstm1(0, 2, StmC::Freq((f32::from_bits(b) / 2.0).to_bits()))), "freq-window");
            }
        }
    }
    // FociSTM: N × total size, every STMConfig variant at size 0 / 1
    for n in 0..=9usize {
        for cfg in stm_cfgs_all() {
            for size in [0usize, 1] {
                ctx.case(1, &Dg::One(foci1(n, size, cfg.clone())), "foci-size-small");
            }
        }
        let totals: Vec<usize> = if thorough { vec![2, 3, 65535, 65536, 65537, 65544, 70000, 131072] } else { vec![2, 65536, 65537, 70000] };
        for total in totals {
            if n == 0 {
                ctx.case(1, &Dg::One(foci1(0, total.min(40), v100.clone())), "foci-size");
                continue;
            }
            // the largest size with size*n <= total, and one more pattern
            let s0 = total / n;
            for size in [s0, s0 + 1] {
                if size * n > 140000 {
                    continue;
                }
                let big = size * n > 20000 && size * n <= 65536;
                if big && !thorough && !(n == 1 || n == 8) {
                    continue;
                }
                ctx.case(1, &Dg::One(foci1(n, size, v100.clone())), "foci-size");
            }
        }
    }
    // GainSTM sizes × modes × configs
    let g_sizes: Vec<usize> = if thorough { vec![0, 1, 2, 3, 4, 5, 1023, 1024, 1025, 1026, 2048, 5000] } else { vec![0, 1, 2, 5, 1024, 1025, 2048] };
    for &size in &g_sizes {
        for mode in 0..3u8 {
            ctx.case(1, &Dg::One(gstm1(mode, size, v100.clone())), "gstm-size");
        }
        if size <= 1 {
            for cfg in stm_cfgs_all() {
                ctx.case(1, &Dg::One(gstm1(0, size, cfg)), "gstm-size-small");
            }
        }
    }
    ctx.case(2, &Dg::One(gstm1(0, 1025, v100.clone())), "gstm-size");
    ctx.case(2, &Dg::One(gstm1(2, 0, v100.clone())), "gstm-size");
    // STM configurations on valid sizes: period divisibility, derived sampling configuration
    for size in [2usize, 3, 7, 10, 100] {
        let s = size as u64;
        let mut cfgs: Vec<StmC> = vec![
            StmC::Period(s * US),
            StmC::Period(s * US + 1),
            StmC::Period(s * US + s),
            StmC::Period(s * 12_500),
            StmC::Period(s * 65535 * US),
            StmC::Period(s * 65536 * US),
            StmC::Period(s * US - s),
            StmC::Period(0),
            StmC::Period(1),
            StmC::Freq(f(40000.0 / s as f32)),
            StmC::Freq(f(4000.0 / s as f32)),
            StmC::Freq(f(40001.0 / s as f32)),
            StmC::Freq(f(50000.0)),
            StmC::Freq(f(0.0)),
            StmC::Freq(f(0.1)),
            StmC::Freq(f(-1.0)),
            StmC::Freq(NAN),
            StmC::Freq(INF),
            StmC::Freq(f(33.0)),
            StmC::FreqN(f(33.0)),
            StmC::FreqN(f(0.0)),
            StmC::PeriodN(s * US + 1),
            StmC::PeriodN(1),
        ];
        for sc in bad_scs().into_iter().chain(good_scs()) {
            cfgs.push(StmC::Sc(sc));
        }
        for cfg in cfgs {
            ctx.case(1, &Dg::One(foci1(1 + size % 8, size, cfg.clone())), "stm-config");
            ctx.case(1, &Dg::One(gstm1((size % 3) as u8, size, cfg.clone())), "stm-config");
            if size == 10 {
                ctx.case(1, &Dg::One(D1::LineF { np: size, cfg: cfg.clone() }), "stm-config");
                ctx.case(1, &Dg::One(D1::CircG { np: size, cfg }), "stm-config");
            }
        }
    }
    // Line / Circle helpers
    for np in [0usize, 1, 2, 3, 50, 1024, 1025, 65536, 65537] {
        for cfg in [v100.clone(), StmC::Period(1_000_000), StmC::FreqN(f(1.0))] {
            if np > 2000 && cfg != v100 {
                continue;
            }
            ctx.case(1, &Dg::One(D1::LineF { np, cfg: cfg.clone() }), "helpers");
            ctx.case(1, &Dg::One(D1::CircF { np, cfg: cfg.clone() }), "helpers");
            if np <= 1025 || np == 65537 {
                ctx.case(1, &Dg::One(D1::LineG { np, cfg: cfg.clone() }), "helpers");
                ctx.case(1, &Dg::One(D1::CircG { np, cfg }), "helpers");
            }
        }
    }
    // Gain / SwapSegment::Gain transition modes
    for tr in [None, Some(0xFFu8), Some(0x00), Some(0x01), Some(0x02), Some(0xF0)] {
        for seg in 0..2u8 {
            ctx.case(1, &Dg::One(D1::Gain { seg, tr }), "gain-transition");
        }
        ctx.case(2, &Dg::One(D1::Gain { seg: 1, tr }), "gain-transition");
        if let Some(m) = tr {
            ctx.case(1, &Dg::One(D1::SwapGain { seg: 1, mode: m }), "gain-transition");
        }
    }
    // silencer completion times
    let times: Vec<u64> = vec![0, 1, 12_500, 24_999, US, US + 1, 2 * US, 37_500, 10 * US, 65535 * US, 65535 * US + 1, 65536 * US, 65537 * US, 1 << 40, u64::MAX];
    for &i in &times {
        for &p in &[US, 40 * US, 0, 30_000, 65536 * US] {
            let a = D1::SilTime { i, p, strict: true };
            let strict = defect1(&a).is_some();
            ctx.case(1, &Dg::One(D1::SilTime { i, p, strict }), "silencer-time");
            ctx.case(1, &Dg::One(D1::SilTime { i: p, p: i, strict: false }), "silencer-time");
        }
    }
    // focal points: NaN / ±inf / far / edge values at every index of small STMs, and at the frame
    // boundaries of large ones (first frame holds (622-24)/(8N) patterns, later ones (622-4)/(8N))
    for n in 1..=8usize {
        let size = 3usize;
        for i in 0..size {
            for j in 0..n {
                for (k, &c) in bad_coords().iter().enumerate() {
                    if !thorough && (k + i + j) % 3 != 0 {
                        continue;
                    }
                    let mut p = ok_point();
                    p[(i + j + k) % 3] = c;
                    ctx.case(1, &Dg::One(D1::Foci { n, size, cfg: v100.clone(), seg: (i % 2) as u8, tr: j % 2 == 0, base: ok_point(), over: vec![(i, j, p)] }), "point-index");
                }
            }
        }
        let first = (622 - 24) / (8 * n);
        let later = (622 - 4) / (8 * n);
        let size = first + 2 * later + 3;
        for i in [0, first - 1, first, first + 1, first + later - 1, first + later, first + 2 * later, size - 1] {
            let j = (i + n - 1) % n;
            ctx.case(1, &Dg::One(D1::Foci { n, size, cfg: v100.clone(), seg: 0, tr: true, base: ok_point(), over: vec![(i, j, [NAN, 0, Z150])] }), "point-frame-boundary");
            if thorough || i % 2 == 0 {
                ctx.case(1, &Dg::One(D1::Foci { n, size, cfg: v100.clone(), seg: 1, tr: false, base: ok_point(), over: vec![(i, j, [0, f(4000.0), Z150])] }), "point-frame-boundary");
            }
        }
    }
    for axis in 0..3usize {
        for c in edge_coords(axis) {
            let mut p = ok_point();
            p[axis] = c;
            ctx.case(1, &Dg::One(D1::Foci { n: 1, size: 2, cfg: v100.clone(), seg: 0, tr: false, base: ok_point(), over: vec![(1, 0, p)] }), "point-edge");
        }
    }
    // a defective base point (every index is bad) and an override outside the sequence (ignored)
    ctx.case(1, &Dg::One(D1::Foci { n: 2, size: 4, cfg: v100.clone(), seg: 0, tr: false, base: [NAN, NAN, NAN], over: vec![] }), "point-index");
    ctx.case(1, &Dg::One(D1::Foci { n: 2, size: 4, cfg: v100.clone(), seg: 0, tr: false, base: ok_point(), over: vec![(4, 0, [NAN, 0, 0]), (0, 2, [NAN, 0, 0])] }), "point-index");

    // ---- enable masks (review C05 gap 2): one representative of every pack-time defect class (modulation size and
    // sampling, Gain / SwapSegment::Gain transition, silencer time, focal point), generator-time classes and valid
    // datagrams, with device 0 only / device 1 only / no device enabled. Partial masks: the property oracle applies
    // in full (a check that looks only at geometry[0], or indexes operations by dev.idx(), fails here). No device:
    // recorded as an observation and compared with the model (`sendMasked`), see `case_m`.
    {
        let nan_pt = D1::Foci { n: 1, size: 3, cfg: v100.clone(), seg: 0, tr: false, base: ok_point(), over: vec![(1, 0, [NAN, 0, Z150])] };
        let reps: Vec<Dg> = vec![
            Dg::One(mod1(65537)),
            Dg::One(mod1(1)),
            Dg::One(D1::Mod { len: 10, cfg: Sc::Freq(f(7000.0)), seg: 0, tr: false }),
            Dg::One(D1::Mod { len: 700, cfg: Sc::Period(37_500), seg: 1, tr: true }),
            Dg::One(D1::Gain { seg: 0, tr: Some(0x00) }),
            Dg::One(D1::Gain { seg: 1, tr: Some(0x01) }),
            Dg::One(D1::SwapGain { seg: 1, mode: 0x02 }),
            Dg::One(D1::SilTime { i: 30_000, p: US, strict: true }),
            Dg::One(D1::SilTime { i: US, p: 65536 * US, strict: false }),
            Dg::One(nan_pt.clone()),
            Dg::One(D1::Foci { n: 2, size: 100, cfg: v100.clone(), seg: 1, tr: false, base: ok_point(), over: vec![(99, 1, [0, f(4000.0), Z150])] }),
            Dg::One(gstm1(0, 0, v100.clone())),
            Dg::One(foci1(9, 5, v100.clone())),
            Dg::One(gstm1(0, 7, StmC::Period(1_000_000))),
            Dg::Pair(D1::Gain { seg: 1, tr: None }, mod1(65537)),
            Dg::Pair(mod1(1), D1::SilSteps),
            Dg::Pair(D1::SilSteps, D1::Gain { seg: 0, tr: Some(0xF0) }),
            // valid ones: same frames as without a mask, the disabled device untouched
            Dg::One(D1::Mod { len: 10, cfg: Sc::Div(10), seg: 1, tr: false }),
            Dg::One(D1::Mod { len: 700, cfg: Sc::Div(10), seg: 1, tr: false }),
            Dg::One(D1::Gain { seg: 1, tr: None }),
            Dg::One(foci1(3, 100, v100.clone())),
            Dg::Pair(D1::Mod { len: 300, cfg: Sc::Div(10), seg: 1, tr: false }, D1::Fan),
        ];
        for d in &reps {
            for mask in [[false, true], [true, false], [false, false]] {
                ctx.case_m(2, Some(&mask), d, "enable-mask");
            }
            ctx.case_m(1, Some(&[false]), d, "enable-mask");
        }
    }

    // ---- review C05 gap 1: device poses. Two devices at x = +400 / -400 mm; one device at y = 300 mm turned a quarter
    // turn about z (its local x is the global y); a third kind with both. For every device, axis and side: points whose
    // LOCAL coordinate lies 0.15 / 1 / 50 mm inside and outside the limit (other coordinates: 0, 0, 150 in that device's
    // frame), at the first / last focus of small and frame-crossing sequences.
    {
        let kinds: Vec<Vec<Pose>> = vec![
            vec![Pose { t: [400.0, 0.0, 0.0], quarter: 0 }, Pose { t: [-400.0, 0.0, 0.0], quarter: 0 }],
            vec![Pose { t: [0.0, 300.0, 0.0], quarter: 1 }],
            vec![Pose { t: [500.0, 0.0, 0.0], quarter: 0 }, Pose { t: [-300.0, 200.0, 10.0], quarter: 3 }],
        ];
        let lim_lo = [-124164.0 * 0.025, -125789.0 * 0.025, -131072.0 * 0.025];
        let lim_hi = 131071.0 * 0.025;
        for (kk, poses) in kinds.iter().enumerate() {
            for (di, q) in poses.iter().enumerate() {
                for axis in 0..3usize {
                    for (side, lim) in [(1.0f64, lim_hi), (-1.0, lim_lo[axis])] {
                        for delta in [-50.0f64, -1.0, -0.15, 0.15, 1.0, 50.0] {
                            if !thorough && (delta == -1.0 || delta == 1.0) && (kk + di + axis) % 2 == 0 {
                                continue;
                            }
                            let mut local = [0.0f64, 0.0, 150.0];
                            local[axis] = lim + side * delta;
                            let g = q.to_global(local);
                            let gf = [g[0] as f32, g[1] as f32, g[2] as f32];
                            let (n, size, idx) = if (axis + di) % 2 == 0 { (1usize, 2usize, (1usize, 0usize)) } else { (3, 60, (59, 2)) };
                            ctx.case_posed(poses, gf, n, idx, size, "posed");
                        }
                    }
                }
            }
            // the reviewer's two examples and non-finite values
            for g in [[3400.0f32, 0.0, 150.0], [-3200.0, 0.0, 150.0], [f32::NAN, 0.0, 150.0], [0.0, f32::INFINITY, 150.0]] {
                ctx.case_posed(poses, g, 2, (1, 1), 3, "posed");
            }
        }
    }
    // ---- review C05 gap 3: pack-time classes under ParallelMode::On (2 devices)
    {
        let pts = |over: Vec<(usize, usize, P3)>| D1::Foci { n: 2, size: 3, cfg: v100.clone(), seg: 0, tr: false, base: ok_point(), over };
        let reps: Vec<Dg> = vec![
            Dg::One(mod1(0)),
            Dg::One(mod1(1)),
            Dg::One(mod1(65537)),
            Dg::One(D1::Mod { len: 10, cfg: Sc::Freq(f(7000.0)), seg: 0, tr: false }),
            Dg::One(D1::Mod { len: 700, cfg: Sc::Period(37_500), seg: 1, tr: true }),
            Dg::One(D1::Mod { len: 10, cfg: Sc::Freq(NAN), seg: 0, tr: false }),
            Dg::One(D1::Gain { seg: 0, tr: Some(0x00) }),
            Dg::One(D1::Gain { seg: 1, tr: Some(0x02) }),
            Dg::One(D1::SwapGain { seg: 1, mode: 0xF0 }),
            Dg::One(D1::SilTime { i: 30_000, p: US, strict: true }),
            Dg::One(D1::SilTime { i: US, p: 65536 * US, strict: false }),
            Dg::One(pts(vec![(0, 0, [NAN, 0, Z150])])),
            Dg::One(pts(vec![(2, 1, [0, f(4000.0), Z150])])),
            Dg::One(gstm1(0, 0, v100.clone())),
            Dg::One(foci1(9, 5, v100.clone())),
            Dg::Pair(D1::SilSteps, mod1(65537)),
            Dg::Pair(D1::Gain { seg: 0, tr: Some(0x01) }, D1::SilSteps),
            // valid: must still be Ok
            Dg::One(D1::Mod { len: 10, cfg: Sc::Div(10), seg: 1, tr: false }),
            Dg::One(D1::Gain { seg: 1, tr: None }),
        ];
        for d in &reps {
            ctx.case_par(d);
        }
    }
    // ---- review C05 gap 4: the same size / sampling / period defects sent as the plain datagram (no With* wrapper:
    // segment 0, Immediate, infinite loop by default — the op line says so) and with a finite loop. Same lines, same
    // model answers: a validation that depends on the wrapper or on the loop behaviour shows as a difference.
    {
        let mut ds: Vec<D1> = vec![];
        for len in [0usize, 1, 2, 65536, 65537, 70000] {
            ds.push(D1::Mod { len, cfg: Sc::Div(10), seg: 0, tr: true });
        }
        for sc in [Sc::Freq(f(7000.0)), Sc::Freq(f(0.0)), Sc::Period(37_500), Sc::Period(65536 * US), Sc::Freq(f(4000.0)), Sc::FreqN(f(3999.0))] {
            ds.push(D1::Mod { len: 10, cfg: sc, seg: 0, tr: true });
        }
        for (n, size) in [(1usize, 0usize), (1, 1), (3, 0), (2, 32769), (1, 65537), (0, 5), (9, 5), (2, 10)] {
            ds.push(D1::Foci { n, size, cfg: v100.clone(), seg: 0, tr: true, base: ok_point(), over: vec![] });
        }
        for cfg in [StmC::Period(1_000_001), StmC::Period(0), StmC::Freq(f(50000.0)), StmC::Sc(Sc::Period(37_500)), StmC::Period(1_000_000)] {
            ds.push(D1::Foci { n: 2, size: 10, cfg: cfg.clone(), seg: 0, tr: true, base: ok_point(), over: vec![] });
            ds.push(D1::GainStm { mode: 0, size: 10, cfg, seg: 0, tr: true });
        }
        for size in [0usize, 1, 1025, 2048, 2] {
            ds.push(D1::GainStm { mode: 1, size, cfg: v100.clone(), seg: 0, tr: true });
        }
        ds.push(D1::Foci { n: 1, size: 3, cfg: v100.clone(), seg: 0, tr: true, base: ok_point(), over: vec![(2, 0, [NAN, 0, Z150])] });
        for d in &ds {
            ctx.case_style(1, 1, &Dg::One(d.clone()), "plain-datagram");
            ctx.case_style(1, 2, &Dg::One(d.clone()), "finite-loop");
        }
    }

    // ---- observation (implementation only, one `note` line): what a pack-time rejection leaves in the tx buffer.
    // `pack_op` advances the message id before `Operation::pack` validates, and ModulationOp / FociSTMOp write
    // payload bytes before they fail; normally the next send re-packs the slot. A device that is disabled before the
    // next send is not re-packed, but the link still gets its slot: fresh id, half-written payload.
    {
        let r = guarded(|| {
            let mut w = World::new(2);
            let per = ALL_RES.len();
            let r1 = w.send(&Dg::One(D1::Mod { len: 10, cfg: Sc::Freq(f(7000.0)), seg: 0, tr: false }));
            let before = w.snapshot();
            w.ctl.geometry_mut()[0].enable = false; // the serial packer stopped at device 0: its slot is the half-written one
            let sends0 = w.ctl.link().sends;
            let r2 = w.send(&Dg::One(D1::Fan));
            let after = w.snapshot();
            let diff: Vec<String> = (0..per).filter(|&k| before[k] != after[k]).map(|k| before[k].split('=').next().unwrap_or("").to_string()).collect();
            (r1.is_err(), r2.is_ok(), w.ctl.link().sends - sends0, diff)
        });
        ctx.out.line("note stale-tx-after-pack-error", "ok");
        match r {
            Ok((true, true, 1, diff)) if !diff.is_empty() => {
                ctx.out.count("observation:stale-tx-after-pack-error:disabled-device-executes-it");
                ctx.out.notes.push(format!(
                    "observation (not judged): 2 devices; send(Modulation 10 samples @ 7000 Hz) -> Err, 0 frames; geometry[0].enable = false; send(ForceFan) -> Ok, 1 frame; the DISABLED device 0 changed {} (its tx slot kept the fresh message id and the half-written payload of the refused datagram)",
                    diff.join(",")
                ));
            }
            Ok(x) => ctx.out.count(&format!("observation:stale-tx-after-pack-error:other:{}/{}/{}/{}", x.0, x.1, x.2, x.3.len())),
            Err(p) => ctx.out.violation("C05:stale-tx-scenario-panic".into(), format!("panic: {p}"), vec!["note stale-tx-after-pack-error".into()]),
        }
    }

    // ---- tuples: every defect class in either member, next to partners of every frame footprint ----
    let partners: Vec<D1> = vec![
        D1::Clear,
        D1::SilSteps,
        D1::Gain { seg: 1, tr: None },
        D1::Mod { len: 10, cfg: Sc::Div(10), seg: 1, tr: false },
        D1::Mod { len: 300, cfg: Sc::Div(10), seg: 1, tr: false },
        D1::Mod { len: 2000, cfg: Sc::Div(10), seg: 1, tr: false },
        foci1(1, 5, v100.clone()),
        foci1(1, 200, v100.clone()),
        foci1(5, 40, v100.clone()),
        foci1(8, 30, v100.clone()),
        gstm1(0, 3, v100.clone()),
        gstm1(2, 9, v100.clone()),
    ];
    let defective: Vec<D1> = vec![
        mod1(0),
        mod1(1),
        mod1(65537),
        D1::Mod { len: 10, cfg: Sc::Freq(f(7000.0)), seg: 0, tr: false },
        D1::Mod { len: 10, cfg: Sc::Period(37_500), seg: 0, tr: false },
        foci1(1, 0, v100.clone()),
        foci1(1, 1, v100.clone()),
        foci1(2, 32769, v100.clone()),
        foci1(0, 5, v100.clone()),
        foci1(9, 5, v100.clone()),
        foci1(1, 0, StmC::Period(1_000_000)),
        foci1(2, 10, StmC::Period(1_000_001)),
        foci1(2, 10, StmC::Freq(f(50000.0))),
        foci1(2, 10, StmC::Sc(Sc::Period(37_500))),
        gstm1(0, 0, v100.clone()),
        gstm1(1, 1, v100.clone()),
        gstm1(2, 1025, v100.clone()),
        gstm1(0, 0, StmC::PeriodN(1_000_000)),
        gstm1(0, 7, StmC::Period(1_000_000)),
        gstm1(0, 4, StmC::Sc(Sc::Freq(f(7000.0)))),
        D1::LineF { np: 1, cfg: v100.clone() },
        D1::LineG { np: 0, cfg: v100.clone() },
        D1::CircF { np: 0, cfg: StmC::Period(1_000_000) },
        D1::CircG { np: 1, cfg: v100.clone() },
        D1::Gain { seg: 0, tr: Some(0x00) },
        D1::Gain { seg: 1, tr: Some(0xF0) },
        D1::SwapGain { seg: 1, mode: 0x01 },
        D1::SilTime { i: 30_000, p: US, strict: true },
        D1::SilTime { i: US, p: 0, strict: false },
        D1::SilTime { i: 65536 * US, p: US, strict: true },
        D1::Foci { n: 1, size: 3, cfg: v100.clone(), seg: 0, tr: false, base: ok_point(), over: vec![(2, 0, [NAN, 0, Z150])] },
        D1::Foci { n: 3, size: 200, cfg: v100.clone(), seg: 0, tr: false, base: ok_point(), over: vec![(150, 2, [0, INF, Z150])] },
    ];
    for (k, bad) in defective.iter().enumerate() {
        for (m, p) in partners.iter().enumerate() {
            if !thorough && (k + m) % 2 == 1 && !matches!(p, D1::Gain { .. } | D1::Mod { len: 300, .. }) {
                continue;
            }
            if !pair_ok(bad, p) {
                continue;
            }
            ctx.case(1, &Dg::Pair(bad.clone(), p.clone()), "tuple-first");
            ctx.case(1, &Dg::Pair(p.clone(), bad.clone()), "tuple-second");
        }
    }
    // both members defective: the first member's error wins
    for (k, a) in defective.iter().enumerate() {
        let b = &defective[(k * 7 + 3) % defective.len()];
        if !pair_ok(a, b) {
            continue;
        }
        ctx.case(if k % 5 == 0 { 2 } else { 1 }, &Dg::Pair(a.clone(), b.clone()), "tuple-both");
    }
    // valid tuples (frame interleaving of the two operations)
    for (k, a) in partners.iter().enumerate() {
        for (m, b) in partners.iter().enumerate() {
            if !pair_ok(a, b) || (!thorough && (k * 3 + m) % 3 != 0) {
                continue;
            }
            ctx.case(1, &Dg::Pair(a.clone(), b.clone()), "tuple-valid");
        }
    }

    // ---- random, mostly valid or singly defective ---------------------------------------------------
    let n_rand = if thorough { 40000 } else { 2500 };
    for k in 0..n_rand {
        let big = k % 40 == 0;
        let ndev = if rng.chance(1, 6) { 2 } else { 1 };
        let d = if rng.chance(1, 4) {
            let a = rand_d1(&mut rng, false);
            let mut b = rand_d1(&mut rng, false);
            if !pair_ok(&a, &b) {
                b = if res_class(&a) == 5 { D1::Fan } else { D1::Sync };
            }
            Dg::Pair(a, b)
        } else {
            Dg::One(rand_d1(&mut rng, big))
        };
        ctx.case(ndev, &d, "random");
    }

    ctx.out.finish(
        "reject",
        "a case is one Controller::send over the recording link; non-trivial = the datagram carries a defect of the quantifier, or is a tuple, or needs more than one frame; distinct by the full datagram text, result and frame count",
    );
}
