//! `pbcodec` stream (C18): the real `autd3-protobuf` conversions for `TxRawData`, `RxMessage` and
//! `Geometry` against the Lean model, plus the implementation oracle (round trips are the identity;
//! a message whose byte count does not fit its declared element count is answered with an error —
//! never `Ok`, never a panic, never a crash).
//!
//! Every call into the frame / acknowledgement decoders runs in a CHILD process (`vh pbcodec-child`,
//! this same binary): an out-of-bounds `copy_nonoverlapping` may abort, corrupt the heap or appear to
//! succeed; the parent treats abort / signal / timeout / unparsable output as the answer `crash` and
//! restarts the child after every suspicious answer. Geometry and `f32` lines are safe code and run
//! in-process.
use crate::common::*;
use autd3_core::geometry::{Geometry, Point3, Quaternion, UnitQuaternion, Vector3};
use autd3_core::link::{RxMessage as CoreRx, TxMessage};
use autd3_driver::autd3_device::AUTD3;
use autd3_protobuf::{AUTDProtoBufError, FromMessage, TxRawData};
use std::io::{BufRead, Write};
use std::mem::size_of;
use std::process::{Child, ChildStdin, Command, Stdio};
use std::sync::mpsc::{Receiver, channel};
use std::time::Duration;
use zerocopy::{FromZeros, IntoBytes};

// ------------------------------------------------------------------------------------------------
// shared with the Lean driver

/// 31-bit LCG, bits 16..23 of each state (same as `Autd3.Drv.C18.lcgBytes`)
fn lcg_bytes(seed: u64, len: usize) -> Vec<u8> {
    let mut s = seed % 2147483648;
    (0..len)
        .map(|_| {
            s = (s * 1103515245 + 12345) % 2147483648;
            ((s / 65536) % 256) as u8
        })
        .collect()
}

struct Layout {
    tx: usize,
    header: usize,
    msg_id: usize,
    slot2: usize,
    payload: usize,
    payload_len: usize,
    rx: usize,
    rx_data: usize,
    rx_ack: usize,
}

/// measured on the real types (public accessors only)
fn layout() -> Layout {
    let mut t = TxMessage::new_zeroed();
    let base = &t as *const TxMessage as usize;
    let msg_id = &t.header.msg_id as *const u8 as usize - base;
    let slot2 = &t.header.slot_2_offset as *const u16 as usize - base;
    let header = size_of::<autd3_core::link::Header>();
    let payload_len = t.payload().len();
    let payload = t.payload_mut().as_ptr() as usize - base;
    // RxMessage: which byte does `data` / `ack` occupy
    let r = CoreRx::new(0xAA, 0x55);
    let rb = r.as_bytes();
    let rx_data = rb.iter().position(|&b| b == 0xAA).unwrap_or(99);
    let rx_ack = rb.iter().position(|&b| b == 0x55).unwrap_or(99);
    Layout { tx: size_of::<TxMessage>(), header, msg_id, slot2, payload, payload_len, rx: size_of::<CoreRx>(), rx_data, rx_ack }
}

fn f32_canon(x: f32) -> u32 {
    if x.is_nan() { 0x7fc00000 } else { x.to_bits() }
}

fn err_name(e: &AUTDProtoBufError) -> String {
    let d = format!("{e:?}");
    let name: String = d.chars().take_while(|c| c.is_ascii_alphanumeric()).collect();
    format!("err {name}")
}

/// frames for `txenc`: every byte settable through the public fields comes from the generator; the
/// padding byte of the header stays 0
fn mk_frames(n: usize, seed: u64, l: &Layout) -> Vec<TxMessage> {
    let bytes = lcg_bytes(seed, n * l.tx);
    let mut frames = vec![TxMessage::new_zeroed(); n];
    for (f, c) in frames.iter_mut().zip(bytes.chunks(l.tx.max(1))) {
        f.header.msg_id = c[l.msg_id];
        f.header.slot_2_offset = u16::from_le_bytes([c[l.slot2], c[l.slot2 + 1]]);
        f.payload_mut().copy_from_slice(&c[l.payload..l.payload + l.payload_len]);
    }
    frames
}

fn tx_answer(r: Result<Result<Vec<TxMessage>, AUTDProtoBufError>, String>) -> String {
    match r {
        Err(_) => "panic".into(),
        Ok(Err(e)) => err_name(&e),
        Ok(Ok(frames)) => {
            if frames.len() > (1 << 20) {
                return format!("ok {} huge", frames.len());
            }
            let all = fnv64(frames.as_bytes());
            let mut hdr = Vec::with_capacity(frames.len() * 3);
            let mut pay = Vec::new();
            for f in &frames {
                hdr.push(f.header.msg_id);
                hdr.extend_from_slice(&f.header.slot_2_offset.to_le_bytes());
                pay.extend_from_slice(f.payload());
            }
            let re = TxRawData::from(frames.as_slice());
            format!(
                "ok {} {:016x} {:016x} {:016x} {} {} {:016x}",
                frames.len(),
                all,
                fnv64(&hdr),
                fnv64(&pay),
                re.n,
                re.data.len(),
                fnv64(&re.data)
            )
        }
    }
}

fn rx_answer(r: Result<Result<Vec<CoreRx>, AUTDProtoBufError>, String>) -> String {
    match r {
        Err(_) => "panic".into(),
        Ok(Err(e)) => err_name(&e),
        Ok(Ok(rx)) => {
            let d: Vec<u8> = rx.iter().map(|r| r.data()).collect();
            let a: Vec<u8> = rx.iter().map(|r| r.ack()).collect();
            let re: autd3_protobuf::RxMessage = rx.clone().into();
            format!("ok {} {:016x} {:016x} {} {:016x}", rx.len(), fnv64(&d), fnv64(&a), re.data.len(), fnv64(&re.data))
        }
    }
}

fn opt_hex(s: &str) -> Option<Vec<u8>> {
    if s == "-" { Some(vec![]) } else { unhex(s) }
}

/// the implementation's answer to one frame / acknowledgement op line (runs in the child)
fn codec_answer(line: &str) -> String {
    let w: Vec<&str> = line.split_whitespace().collect();
    let l = layout();
    let num = |s: &str| s.parse::<u64>().ok();
    match w.as_slice() {
        ["txenc", n, seed] => {
            let (Some(n), Some(seed)) = (num(n), num(seed)) else { return "bad-op".into() };
            let frames = mk_frames(n as usize, seed, &l);
            let msg = TxRawData::from(frames.as_slice());
            let (mn, ml, h) = (msg.n, msg.data.len(), fnv64(&msg.data));
            let rt = match guarded(|| Vec::<TxMessage>::from_msg(msg)) {
                Ok(Ok(f2)) => {
                    if f2 == frames { "same".to_string() } else { "differ".to_string() }
                }
                Ok(Err(e)) => err_name(&e),
                Err(_) => "panic".into(),
            };
            format!("{mn} {ml} {h:016x} {rt}")
        }
        ["txdec", n, len, seed] => {
            let (Some(n), Some(len), Some(seed)) = (num(n), num(len), num(seed)) else { return "bad-op".into() };
            if n > u32::MAX as u64 {
                return "bad-op".into();
            }
            let msg = TxRawData { n: n as u32, data: lcg_bytes(seed, len as usize) };
            tx_answer(guarded(|| Vec::<TxMessage>::from_msg(msg)))
        }
        ["txdecx", n, h] => {
            let (Some(n), Some(data)) = (num(n), opt_hex(h)) else { return "bad-op".into() };
            if n > u32::MAX as u64 {
                return "bad-op".into();
            }
            let msg = TxRawData { n: n as u32, data };
            tx_answer(guarded(|| Vec::<TxMessage>::from_msg(msg)))
        }
        ["rxenc", count, seed] => {
            let (Some(count), Some(seed)) = (num(count), num(seed)) else { return "bad-op".into() };
            let b = lcg_bytes(seed, 2 * count as usize);
            let rx: Vec<CoreRx> = b.chunks(2).map(|c| CoreRx::new(c[0], c[1])).collect();
            let msg: autd3_protobuf::RxMessage = rx.clone().into();
            let (ml, h) = (msg.data.len(), fnv64(&msg.data));
            let rt = match guarded(|| Vec::<CoreRx>::from_msg(msg)) {
                Ok(Ok(r2)) => {
                    if r2 == rx { "same".to_string() } else { "differ".to_string() }
                }
                Ok(Err(e)) => err_name(&e),
                Err(_) => "panic".into(),
            };
            format!("{ml} {h:016x} {rt}")
        }
        ["rxdec", len, seed] => {
            let (Some(len), Some(seed)) = (num(len), num(seed)) else { return "bad-op".into() };
            let msg = autd3_protobuf::RxMessage { data: lcg_bytes(seed, len as usize) };
            rx_answer(guarded(|| Vec::<CoreRx>::from_msg(msg)))
        }
        ["rxdecx", h] => {
            let Some(data) = opt_hex(h) else { return "bad-op".into() };
            let msg = autd3_protobuf::RxMessage { data };
            rx_answer(guarded(|| Vec::<CoreRx>::from_msg(msg)))
        }
        // the simulator link itself (`autd3-link-simulator`): an in-process gRPC peer on the loopback interface
        // answers `read_data` with the given payload / records what `send_data` delivers
        ["simrx", n, len, seed] => {
            let (Some(n), Some(len), Some(seed)) = (num(n), num(len), num(seed)) else { return "bad-op".into() };
            sim_rx_answer(n as usize, lcg_bytes(seed, len as usize))
        }
        // can the in-process peer be started here at all (loopback interface)? not an op line
        ["simprobe"] => with_sim(|_| "ok 1 0 0 0".into()),
        ["simtx", n, seed] => {
            let (Some(n), Some(seed)) = (num(n), num(seed)) else { return "bad-op".into() };
            sim_tx_answer(&mk_frames(n as usize, seed, &l))
        }
        _ => "bad-op".into(),
    }
}

// ------------------------------------------------------------------------------------------------
// the real `Simulator` link against an in-process peer (child process only)

struct MockSim {
    payload: std::sync::Arc<std::sync::Mutex<Vec<u8>>>,
    last_tx: std::sync::Arc<std::sync::Mutex<Option<TxRawData>>>,
}

#[tonic::async_trait]
impl autd3_protobuf::simulator_server::Simulator for MockSim {
    async fn config_geomety(&self, _: tonic::Request<autd3_protobuf::Geometry>) -> Result<tonic::Response<autd3_protobuf::GeometryResponse>, tonic::Status> {
        Ok(tonic::Response::new(autd3_protobuf::GeometryResponse {}))
    }
    async fn update_geomety(&self, _: tonic::Request<autd3_protobuf::Geometry>) -> Result<tonic::Response<autd3_protobuf::GeometryResponse>, tonic::Status> {
        Ok(tonic::Response::new(autd3_protobuf::GeometryResponse {}))
    }
    async fn send_data(&self, r: tonic::Request<TxRawData>) -> Result<tonic::Response<autd3_protobuf::SendResponse>, tonic::Status> {
        *self.last_tx.lock().unwrap() = Some(r.into_inner());
        Ok(tonic::Response::new(autd3_protobuf::SendResponse {}))
    }
    async fn read_data(&self, _: tonic::Request<autd3_protobuf::ReadRequest>) -> Result<tonic::Response<autd3_protobuf::RxMessage>, tonic::Status> {
        Ok(tonic::Response::new(autd3_protobuf::RxMessage { data: self.payload.lock().unwrap().clone() }))
    }
    async fn close(&self, _: tonic::Request<autd3_protobuf::CloseRequest>) -> Result<tonic::Response<autd3_protobuf::CloseResponse>, tonic::Status> {
        Ok(tonic::Response::new(autd3_protobuf::CloseResponse {}))
    }
}

struct SimWorld {
    payload: std::sync::Arc<std::sync::Mutex<Vec<u8>>>,
    last_tx: std::sync::Arc<std::sync::Mutex<Option<TxRawData>>>,
    link: autd3_link_simulator::Simulator,
    _server_rt: tokio::runtime::Runtime,
}

thread_local! {
    static SIM: std::cell::RefCell<Option<Result<SimWorld, String>>> = const { std::cell::RefCell::new(None) };
}

fn sim_open() -> Result<SimWorld, String> {
    use autd3_core::link::Link;
    let payload = std::sync::Arc::new(std::sync::Mutex::new(Vec::new()));
    let last_tx = std::sync::Arc::new(std::sync::Mutex::new(None));
    let server_rt = tokio::runtime::Builder::new_multi_thread().worker_threads(1).enable_all().build().map_err(|e| e.to_string())?;
    let incoming = {
        let _g = server_rt.enter();
        tonic::transport::server::TcpIncoming::bind("127.0.0.1:0".parse().unwrap()).map_err(|e| e.to_string())?
    };
    let addr = incoming.local_addr().map_err(|e| e.to_string())?;
    let service = autd3_protobuf::simulator_server::SimulatorServer::new(MockSim { payload: payload.clone(), last_tx: last_tx.clone() });
    server_rt.spawn(async move {
        let _ = tonic::transport::Server::builder().serve_with_incoming(service, incoming).await;
    });
    let geometry = Geometry::from_msg(autd3_protobuf::Geometry { devices: vec![autd3_protobuf::geometry::Autd3 { pos: None, rot: None, sound_speed: None }] })
        .map_err(|e| format!("{e:?}"))?;
    let mut link = autd3_link_simulator::Simulator::new(addr);
    Link::open(&mut link, &geometry).map_err(|e| format!("{e:?}"))?;
    Ok(SimWorld { payload, last_tx, link, _server_rt: server_rt })
}

fn with_sim(f: impl FnOnce(&mut SimWorld) -> String) -> String {
    SIM.with(|c| {
        let mut c = c.borrow_mut();
        if c.is_none() {
            *c = Some(sim_open());
        }
        match c.as_mut().unwrap() {
            Ok(w) => f(w),
            Err(_) => "bad-op".into(), // no loopback peer could be started here: reported by the parent as a broken obligation
        }
    })
}

/// `Link::receive` of the real `Simulator` into the first `n` elements of a larger allocation (two guard elements
/// behind them): `ok <n> <fnv of the n elements afterwards> <guard changed 0|1> 0` / `err <kind>`
fn sim_rx_answer(n: usize, data: Vec<u8>) -> String {
    use autd3_core::link::Link;
    with_sim(|w| {
        *w.payload.lock().unwrap() = data;
        let old = CoreRx::new(0xA5, 0x5A);
        let mut buf = vec![old; n + 2];
        let r = guarded(|| Link::receive(&mut w.link, &mut buf[..n]));
        let buf = std::hint::black_box(buf);
        let guard = buf[n..].iter().any(|g| *g != old) as u8;
        match r {
            Err(_) => "panic".into(),
            Ok(Err(_)) if guard == 0 => "err LinkError".into(),
            Ok(Err(_)) => "ok 0 0 1 1".into(), // an error AND a write behind the buffer
            Ok(Ok(())) => {
                let bytes: Vec<u8> = buf[..n].iter().flat_map(|r| [r.data(), r.ack()]).collect();
                format!("ok {n} {:016x} {guard} 0", fnv64(&bytes))
            }
        }
    })
}

/// `Link::send` of the real `Simulator`: what the peer received, `<n> <len> <fnv> same` / `err <kind>`
fn sim_tx_answer(frames: &[TxMessage]) -> String {
    use autd3_core::link::Link;
    with_sim(|w| {
        *w.last_tx.lock().unwrap() = None;
        match guarded(|| Link::send(&mut w.link, frames)) {
            Err(_) => "panic".into(),
            Ok(Err(_)) => "err LinkError".into(),
            Ok(Ok(())) => match w.last_tx.lock().unwrap().take() {
                Some(m) => format!("{} {} {:016x} same", m.n, m.data.len(), fnv64(&m.data)),
                None => "0 0 0 differ".into(),
            },
        }
    })
}

fn child_main() {
    let stdin = std::io::stdin();
    let stdout = std::io::stdout();
    for line in stdin.lock().lines() {
        let Ok(line) = line else { break };
        let a = codec_answer(&line);
        let mut o = stdout.lock();
        let _ = writeln!(o, "{a}");
        let _ = o.flush();
    }
}

// ------------------------------------------------------------------------------------------------
// parent side of the child protocol

struct Worker {
    child: Child,
    stdin: ChildStdin,
    rx: Receiver<String>,
}

impl Worker {
    fn spawn() -> Worker {
        let exe = std::env::current_exe().expect("current_exe");
        let mut child = Command::new(exe)
            .arg("pbcodec-child")
            .stdin(Stdio::piped())
            .stdout(Stdio::piped())
            .stderr(Stdio::null())
            .spawn()
            .expect("spawn child");
        let stdin = child.stdin.take().unwrap();
        let stdout = child.stdout.take().unwrap();
        let (txc, rx) = channel();
        std::thread::spawn(move || {
            let r = std::io::BufReader::new(stdout);
            for line in r.split(b'\n') {
                match line {
                    Ok(l) => {
                        if txc.send(String::from_utf8_lossy(&l).into_owned()).is_err() {
                            break;
                        }
                    }
                    Err(_) => break,
                }
            }
        });
        Worker { child, stdin, rx }
    }
    fn kill(mut self) -> String {
        let _ = self.child.kill();
        match self.child.wait() {
            Ok(st) => format!("{st}"),
            Err(e) => format!("{e}"),
        }
    }
}

fn valid_answer(s: &str) -> bool {
    let w: Vec<&str> = s.split(' ').collect();
    let hexish = |t: &str| !t.is_empty() && t.len() <= 20 && t.chars().all(|c| c.is_ascii_hexdigit());
    match w.as_slice() {
        ["panic"] | ["bad-op"] => true,
        ["err", name] => !name.is_empty() && name.len() < 40 && name.chars().all(|c| c.is_ascii_alphanumeric()),
        ["ok", n, "huge"] => hexish(n),
        ["ok", rest @ ..] => (4..=7).contains(&rest.len()) && rest.iter().all(|t| hexish(t)),
        [a, b, rt] => hexish(a) && hexish(b) && matches!(*rt, "same" | "differ" | "panic"),
        [a, b, "err", name] => hexish(a) && hexish(b) && name.chars().all(|c| c.is_ascii_alphanumeric()),
        [a, b, c, rt] => hexish(a) && hexish(b) && hexish(c) && matches!(*rt, "same" | "differ" | "panic"),
        [a, b, c, "err", name] => hexish(a) && hexish(b) && hexish(c) && name.chars().all(|c| c.is_ascii_alphanumeric()),
        _ => false,
    }
}

struct Ctx {
    out: Out,
    worker: Option<Worker>,
    l: Layout,
    spawns: u64,
}

impl Ctx {
    /// ask the child; `(canonical answer, detail for the report)`
    fn ask(&mut self, op: &str) -> (String, String) {
        if self.worker.is_none() {
            self.worker = Some(Worker::spawn());
            self.spawns += 1;
        }
        let w = self.worker.as_mut().unwrap();
        let sent = writeln!(w.stdin, "{op}").and_then(|_| w.stdin.flush());
        let got = if sent.is_ok() { w.rx.recv_timeout(Duration::from_secs(30)).ok() } else { None };
        match got {
            Some(a) if valid_answer(&a) => {
                // the compared line says only *that* an error was returned (the property asks for "an
                // error"); which variant it was goes to the distribution and the violation text
                match a.find("err ") {
                    Some(i) if i == 0 || a.as_bytes()[i - 1] == b' ' => {
                        let kind = a[i..].to_string();
                        self.out.count(&format!("error kind returned: {}", &kind[4..]));
                        (format!("{}err", &a[..i]), format!("[{kind}]"))
                    }
                    _ => (a, String::new()),
                }
            }
            Some(a) => {
                let st = self.worker.take().unwrap().kill();
                ("crash".into(), format!("child printed garbage `{}` ({st})", a.chars().take(60).collect::<String>()))
            }
            None => {
                // died (abort / signal) or hung
                let mut w = self.worker.take().unwrap();
                let st = match w.child.try_wait() {
                    Ok(Some(st)) => format!("child ended: {st}"),
                    _ => {
                        let st = w.kill();
                        format!("child hung or closed its output, killed ({st})")
                    }
                };
                ("crash".into(), st)
            }
        }
    }
    fn restart(&mut self) {
        if let Some(w) = self.worker.take() {
            let _ = w.kill();
        }
    }
}

// ------------------------------------------------------------------------------------------------
// frame / acknowledgement cases

fn tx_enc_case(ctx: &mut Ctx, n: usize, seed: u64) {
    let op = format!("txenc {n} {seed}");
    let (a, detail) = ctx.ask(&op);
    ctx.out.line(&op, &a);
    ctx.out.case(if n > 0 { Some(fnv64(op.as_bytes())) } else { None });
    ctx.out.count("tx-encode-roundtrip");
    // oracle: the message holds exactly the frames' bytes and decodes to the same frames
    let frames = mk_frames(n, seed, &ctx.l);
    let expect = format!("{} {} {:016x} same", n, n * ctx.l.tx, fnv64(frames.as_bytes()));
    if a != expect {
        ctx.out.violation(
            format!("tx-roundtrip:n={n}:seed={seed}"),
            format!("{n} frames -> TxRawData -> frames: got `{a}`, the property demands `{expect}` (n, bytes, hash of the frames' bytes, identical frames) {detail}"),
            vec![op],
        );
        ctx.restart();
    }
}

fn tx_dec_case(ctx: &mut Ctx, n: u64, len: usize, seed: u64, tag: &str) {
    let op = format!("txdec {n} {len} {seed}");
    let (a, detail) = ctx.ask(&op);
    ctx.out.line(&op, &a);
    let fits = (n as u128) * (ctx.l.tx as u128) == len as u128;
    ctx.out.case(if fits && n == 0 { None } else { Some(fnv64(format!("{n}:{len}").as_bytes())) });
    let kind = if a.starts_with("ok") { "ok".to_string() } else { a.clone() };
    ctx.out.count(&format!("tx-decode[{tag}] -> {kind}"));
    if fits {
        let data = lcg_bytes(seed, len);
        // frames' bytes = data; re-encoded message = (n, data)
        let h = fnv64(&data);
        let w: Vec<&str> = a.split(' ').collect();
        let good = w.len() == 8
            && w[0] == "ok"
            && w[1] == n.to_string()
            && w[2] == format!("{h:016x}")
            && w[5] == n.to_string()
            && w[6] == len.to_string()
            && w[7] == format!("{h:016x}");
        if !good {
            ctx.out.violation(
                format!("tx-roundtrip-msg:n={n}:seed={seed}"),
                format!("well-formed TxRawData{{n: {n}, data: {len} bytes}} -> frames -> TxRawData: got `{a}`; expected {n} frames with the message's bytes (hash {h:016x}) and the same message back {detail}"),
                vec![op],
            );
            ctx.restart();
        }
    } else if a != "err" {
        ctx.out.violation(
            format!("tx-mismatch:n={n}:len={len}"),
            format!(
                "TxRawData{{n: {n}, data: {len} bytes}} (one frame is {} bytes, so {n} frames need {}): from_msg answered `{a}` instead of an error {detail}",
                ctx.l.tx,
                (n as u128) * (ctx.l.tx as u128)
            ),
            vec![op],
        );
        ctx.restart();
    }
}

fn rx_enc_case(ctx: &mut Ctx, count: usize, seed: u64) {
    let op = format!("rxenc {count} {seed}");
    let (a, detail) = ctx.ask(&op);
    ctx.out.line(&op, &a);
    ctx.out.case(if count > 0 { Some(fnv64(op.as_bytes())) } else { None });
    ctx.out.count("rx-encode-roundtrip");
    let b = lcg_bytes(seed, 2 * count);
    // the bytes of the message are data0 ack0 data1 ack1 …
    let expect = format!("{} {:016x} same", 2 * count, fnv64(&b));
    if a != expect {
        ctx.out.violation(
            format!("rx-roundtrip:count={count}:seed={seed}"),
            format!("{count} acknowledgements -> RxMessage -> acknowledgements: got `{a}`, the property demands `{expect}` {detail}"),
            vec![op],
        );
        ctx.restart();
    }
}

fn rx_dec_case(ctx: &mut Ctx, len: usize, seed: u64, tag: &str) {
    let op = format!("rxdec {len} {seed}");
    let (a, detail) = ctx.ask(&op);
    ctx.out.line(&op, &a);
    let whole = len % ctx.l.rx.max(1) == 0;
    ctx.out.case(if len == 0 { None } else { Some(fnv64(format!("rx{len}").as_bytes())) });
    let kind = if a.starts_with("ok") { "ok".to_string() } else { a.clone() };
    ctx.out.count(&format!("rx-decode[{tag}] -> {kind}"));
    if whole {
        let data = lcg_bytes(seed, len);
        let d: Vec<u8> = data.iter().step_by(2).copied().collect();
        let k: Vec<u8> = data.iter().skip(1).step_by(2).copied().collect();
        let expect = format!("ok {} {:016x} {:016x} {} {:016x}", len / 2, fnv64(&d), fnv64(&k), len, fnv64(&data));
        if a != expect {
            ctx.out.violation(
                format!("rx-roundtrip-msg:len={len}:seed={seed}"),
                format!("RxMessage of {len} bytes -> acknowledgements -> RxMessage: got `{a}`, expected `{expect}` {detail}"),
                vec![op],
            );
            ctx.restart();
        }
    } else if a != "err" {
        ctx.out.violation(
            format!("rx-odd:len={len}"),
            format!("RxMessage with {len} bytes (not a whole number of {}-byte acknowledgements): from_msg answered `{a}` instead of an error {detail}", ctx.l.rx),
            vec![op],
        );
        ctx.restart();
    }
}

/// the real simulator link's `receive` on a reply of `len` bytes into a buffer of `n` acknowledgements
fn sim_rx_case(ctx: &mut Ctx, n: usize, len: usize, seed: u64) {
    let op = format!("simrx {n} {len} {seed}");
    let (a, detail) = ctx.ask(&op);
    ctx.out.line(&op, &a);
    ctx.out.case(Some(fnv64(format!("simrx{n}:{len}").as_bytes())));
    let old: Vec<u8> = (0..n).flat_map(|_| [0xA5u8, 0x5A]).collect();
    let (class, expect) = if len % 2 != 0 {
        ("odd", "err".to_string())
    } else if len == 2 * n {
        ("exact", format!("ok {n} {:016x} 0 0", fnv64(&lcg_bytes(seed, len))))
    } else {
        ("other-count", format!("ok {n} {:016x} 0 0", fnv64(&old)))
    };
    ctx.out.count(&format!("simulator-link receive[{class}] -> {}", a.split(' ').next().unwrap_or("")));
    if a != expect {
        ctx.out.violation(
            format!("sim-link-receive:{class}:n={n}:len={len}"),
            format!("Simulator::receive of a {len}-byte reply into {n} acknowledgements answered `{a}`, the property demands `{expect}` (odd length: an error; nothing written outside the buffer; only a reply of exactly {n} elements is copied) {detail}"),
            vec![op],
        );
        ctx.restart();
    }
}

/// the real simulator link's `send`: the peer receives the frames byte for byte
fn sim_tx_case(ctx: &mut Ctx, n: usize, seed: u64) {
    let op = format!("simtx {n} {seed}");
    let (a, detail) = ctx.ask(&op);
    ctx.out.line(&op, &a);
    ctx.out.case(if n > 0 { Some(fnv64(op.as_bytes())) } else { None });
    ctx.out.count("simulator-link send");
    let frames = mk_frames(n, seed, &ctx.l);
    let bytes: Vec<u8> = frames.iter().flat_map(|f| f.as_bytes().to_vec()).collect();
    let expect = format!("{n} {} {:016x} same", bytes.len(), fnv64(&bytes));
    if a != expect {
        ctx.out.violation(
            format!("sim-link-send:n={n}"),
            format!("Simulator::send of {n} frames: the peer received `{a}`, the frames are `{expect}` {detail}"),
            vec![op],
        );
        ctx.restart();
    }
}

// ------------------------------------------------------------------------------------------------
// geometry

#[derive(Clone, Copy)]
struct PoseW {
    w: [u32; 8], // px py pz rw ri rj rk ss (bit patterns)
}

fn observe(g: &Geometry) -> Vec<PoseW> {
    g.iter()
        .map(|dev| {
            let p = dev[0].position();
            let r = dev.rotation();
            PoseW { w: [p.x.to_bits(), p.y.to_bits(), p.z.to_bits(), r.w.to_bits(), r.i.to_bits(), r.j.to_bits(), r.k.to_bits(), dev.sound_speed.to_bits()] }
        })
        .collect()
}

fn pose_str(p: &PoseW) -> String {
    let c = |b: u32| format!("{:08x}", f32_canon(f32::from_bits(b)));
    format!("{}{}{}/{}{}{}{}/{}", c(p.w[0]), c(p.w[1]), c(p.w[2]), c(p.w[3]), c(p.w[4]), c(p.w[5]), c(p.w[6]), c(p.w[7]))
}

fn join_semi(xs: Vec<String>) -> String {
    if xs.is_empty() { "-".into() } else { xs.join(";") }
}

fn devmsg_str(m: &autd3_protobuf::geometry::Autd3) -> String {
    let c = |x: f32| format!("{:08x}", f32_canon(x));
    let p = m.pos.map(|p| format!("{}{}{}", c(p.x), c(p.y), c(p.z))).unwrap_or("-".into());
    let r = m.rot.map(|q| format!("{}{}{}{}", c(q.w), c(q.x), c(q.y), c(q.z))).unwrap_or("-".into());
    let s = m.sound_speed.map(c).unwrap_or("-".into());
    format!("{p},{r},{s}")
}

fn dec_str(r: Result<Result<Geometry, AUTDProtoBufError>, String>) -> (String, Option<Geometry>) {
    match r {
        Err(_) => ("panic".into(), None),
        Ok(Err(_)) => ("err".into(), None),
        Ok(Ok(g)) => (format!("dec {}", join_semi(observe(&g).iter().map(pose_str).collect())), Some(g)),
    }
}

/// device from bit patterns; `raw` keeps the four quaternion words as they are (`new_unchecked`)
fn device(pos: [u32; 3], q: UnitQuaternion, ss: u32) -> autd3_core::geometry::Device {
    let mut d: autd3_core::geometry::Device =
        AUTD3 { pos: Point3::new(f32::from_bits(pos[0]), f32::from_bits(pos[1]), f32::from_bits(pos[2])), rot: q }.into();
    d.sound_speed = f32::from_bits(ss);
    d
}

fn ulps(a: u32, b: u32) -> u64 {
    // distance on the ordered line of finite floats
    let key = |x: u32| -> i64 { if x & 0x8000_0000 != 0 { -((x & 0x7fff_ffff) as i64) } else { x as i64 } };
    (key(a) - key(b)).unsigned_abs()
}

/// one geometry: correspondence line + oracle. `plain[i]` = device i was built the way users build
/// devices (finite position, unit quaternion from a nalgebra constructor, finite sound speed).
fn geo_case(ctx: &mut Ctx, g: &Geometry, plain: &[bool], tag: &str) {
    let poses = observe(g);
    let op = format!(
        "geo {}",
        join_semi(poses.iter().map(|p| p.w.iter().map(|x| format!("{x:08x}")).collect::<String>()).collect())
    );
    let msg = autd3_protobuf::Geometry::from(g);
    let msg_s = join_semi(msg.devices.iter().map(devmsg_str).collect());
    let (dec_s, g2) = dec_str(guarded(|| Geometry::from_msg(msg.clone())));
    ctx.out.line(&op, &format!("msg {msg_s} {dec_s}"));
    ctx.out.case(if poses.is_empty() { None } else { Some(fnv64(op.as_bytes())) });
    ctx.out.count(&format!("geometry[{tag}] devices={}", if poses.len() <= 2 { poses.len().to_string() } else if poses.len() <= 8 { "3..8".into() } else { "9..16".into() }));
    // ---- oracle: same device poses and sound speeds
    let key = format!("geo-roundtrip:{:016x}", fnv64(op.as_bytes()));
    let Some(g2) = g2 else {
        ctx.out.violation(key, format!("geometry of {} devices -> message -> geometry: `{dec_s}`", poses.len()), vec![op]);
        return;
    };
    let back = observe(&g2);
    if back.len() != poses.len() {
        ctx.out.violation(key, format!("geometry of {} devices came back with {} devices", poses.len(), back.len()), vec![op]);
        return;
    }
    for (i, (a, b)) in poses.iter().zip(back.iter()).enumerate() {
        if !plain[i] {
            ctx.out.count("geometry device: raw (correspondence only)");
            continue;
        }
        let f = |x: u32| f32::from_bits(x);
        let mut bad = None;
        if a.w[7] != b.w[7] {
            bad = Some(format!("sound speed {:08x} came back as {:08x}", a.w[7], b.w[7]));
        }
        for c in 0..3 {
            if f(a.w[c]) != f(b.w[c]) {
                bad = Some(format!("position[{c}] {:?} ({:08x}) came back as {:?} ({:08x})", f(a.w[c]), a.w[c], f(b.w[c]), b.w[c]));
            }
        }
        let mut maxu = 0;
        for c in 3..7 {
            let d = (f(a.w[c]) as f64 - f(b.w[c]) as f64).abs();
            // re-normalisation of a unit quaternion: relative error of a few 2^-24 on components ≤ 1
            if !(d <= 2.0f64.powi(-22)) {
                bad = Some(format!("rotation[{}] {:?} ({:08x}) came back as {:?} ({:08x})", c - 3, f(a.w[c]), a.w[c], f(b.w[c]), b.w[c]));
            }
            maxu = maxu.max(ulps(a.w[c], b.w[c]));
        }
        ctx.out.count(&format!(
            "rotation drift after round trip: {}",
            match maxu { 0 => "bit-identical", 1 => "1 ulp", 2 => "2 ulp", _ => ">2 ulp (components near 0)" }
        ));
        if a.w[..3] == b.w[..3] { ctx.out.count("position: bit-identical") } else { ctx.out.count("position: equal as numbers, sign of zero differs") }
        // oracle only (the model's `geo` line carries transducer 0 and the quaternion): transducer 0 sits at the local
        // origin, so the rotation never shows in its position. Every other transducer of the rebuilt device must be
        // where the original has it; the device axes likewise. The decoder re-normalises the quaternion (a few 2^-24
        // per component), which moves a transducer at most |local offset| (≤ 220 mm) times that: compared as numbers
        // within 2^-18·(|position| + 256 mm); a rebuilt device with a conjugated / identity / mixed-up rotation is off
        // by up to hundreds of millimetres.
        {
            let (da, db) = (&g[i], &g2[i]);
            let mut worst: Option<(usize, usize, f32, f32)> = None;
            let mut skipped = false;
            if da.num_transducers() != db.num_transducers() {
                bad = Some(format!("{} transducers came back as {}", da.num_transducers(), db.num_transducers()));
            } else {
                for (t, (ta, tb)) in da.iter().zip(db.iter()).enumerate() {
                    let (pa, pb) = (ta.position(), tb.position());
                    for c in 0..3 {
                        let (x, y) = (pa[c], pb[c]);
                        if !x.is_finite() || !y.is_finite() {
                            skipped = true;
                            continue;
                        }
                        let tol = 2.0f64.powi(-18) * (x.abs() as f64 + 256.0);
                        let d = (x as f64 - y as f64).abs();
                        if d > tol && worst.map(|w| (w.2 as f64 - w.3 as f64).abs() < d).unwrap_or(true) {
                            worst = Some((t, c, x, y));
                        }
                    }
                }
                if let Some((t, c, x, y)) = worst {
                    bad = Some(format!("transducer {t} position[{c}] {x:?} came back as {y:?} (transducer 0 and the quaternion agree: the rebuilt device is rotated differently)"));
                }
                for (name, va, vb) in [("x", da.x_direction(), db.x_direction()), ("y", da.y_direction(), db.y_direction()), ("axial", da.axial_direction(), db.axial_direction())] {
                    for c in 0..3 {
                        if va[c].is_finite() && vb[c].is_finite() && (va[c] as f64 - vb[c] as f64).abs() > 2.0f64.powi(-18) {
                            bad = Some(format!("{name} direction[{c}] {:?} came back as {:?}", va[c], vb[c]));
                        }
                    }
                }
            }
            ctx.out.count(if skipped { "all 249 transducers + axes compared within tolerance (oracle only; non-finite coordinates skipped)" } else { "all 249 transducers + axes compared within tolerance (oracle only)" });
        }
        if let Some(what) = bad {
            ctx.out.violation(key.clone(), format!("device {i} of {} [{tag}]: {what}", poses.len()), vec![op.clone()]);
        }
    }
}

fn geodec_case(ctx: &mut Ctx, devs: Vec<autd3_protobuf::geometry::Autd3>, tag: &str) {
    let op = format!("geodec {}", join_semi(devs.iter().map(devmsg_str).collect()));
    let n = devs.len();
    let msg = autd3_protobuf::Geometry { devices: devs.clone() };
    let (dec_s, g2) = dec_str(guarded(|| Geometry::from_msg(msg)));
    ctx.out.line(&op, &dec_s);
    ctx.out.case(if n == 0 { None } else { Some(fnv64(op.as_bytes())) });
    ctx.out.count(&format!("geometry-decode[{tag}]"));
    // oracle: never an error/panic; one device per entry; a present sound speed is taken over bit for bit
    let key = format!("geo-decode:{:016x}", fnv64(op.as_bytes()));
    match g2 {
        None => ctx.out.violation(key, format!("decoding a geometry message of {n} devices: `{dec_s}`"), vec![op]),
        Some(g2) => {
            let back = observe(&g2);
            if back.len() != n {
                ctx.out.violation(key, format!("geometry message of {n} devices decoded to {} devices", back.len()), vec![op]);
            } else {
                for (i, (m, b)) in devs.iter().zip(back.iter()).enumerate() {
                    if let Some(s) = m.sound_speed {
                        if !s.is_nan() && s.to_bits() != b.w[7] {
                            ctx.out.violation(key.clone(), format!("device {i}: sound speed {:08x} decoded as {:08x}", s.to_bits(), b.w[7]), vec![op.clone()]);
                        }
                    }
                }
            }
        }
    }
}

const F32_EDGE: [u32; 28] = [
    0x00000000, 0x80000000, 0x00000001, 0x80000001, 0x00000002, 0x007fffff, 0x00800000, 0x00800001, 0x00ffffff,
    0x01000000, 0x33800000, 0x34000000, 0x3effffff, 0x3f000000, 0x3f7fffff, 0x3f800000, 0x3f800001, 0xbf800000,
    0x40000000, 0x40400000, 0x4b800000, 0x5f000000, 0x7e7fffff, 0x7f000000, 0x7f7fffff, 0xff7fffff, 0x7f800000, 0xff800000,
];

fn rnd_f32_bits(rng: &mut Rng) -> u32 {
    match rng.below(8) {
        0 => *rng.pick(&F32_EDGE),
        1 => (rng.next() >> 32) as u32,                                  // anything (may be NaN/inf)
        2 => 0x3f000000 + rng.below(0x01000000) as u32,                 // [0.5, 2)
        3 => (rng.below(2) as u32) << 31 | rng.below(0x00800000) as u32, // subnormal
        4 => (rng.below(2) as u32) << 31 | (0x7f000000 + rng.below(0x00800000) as u32), // huge
        5 => (rng.below(2) as u32) << 31 | (0x1f000000 + rng.below(0x02000000) as u32), // squares underflow
        _ => (rng.below(2) as u32) << 31 | (0x30000000 + rng.below(0x20000000) as u32), // moderate
    }
}

fn f32_case(ctx: &mut Ctx, op: &str, a: u32, b: u32) {
    let (x, y) = (std::hint::black_box(f32::from_bits(a)), std::hint::black_box(f32::from_bits(b)));
    let r = match op {
        "mul" => x * y,
        "add" => x + y,
        "sub" => x - y,
        "div" => x / y,
        _ => x.sqrt(),
    };
    ctx.out.line(&format!("f32 {op} {a:08x} {b:08x}"), &format!("{:08x}", f32_canon(r)));
    ctx.out.count("f32 arithmetic lines (model of nalgebra's normalisation vs hardware)");
}

fn finite_pos_bits(rng: &mut Rng) -> u32 {
    match rng.below(10) {
        0 => 0,
        1 => 0x80000000, // -0.0
        2 => ((rng.below(2_000_001) as f32 - 1_000_000.0) / 1000.0).to_bits(),
        3 => ((rng.below(4001) as f32 - 2000.0) * 0.25).to_bits(),
        4 => (rng.below(2) as u32) << 31 | rng.below(0x00800000) as u32, // subnormal
        5 => (rng.below(2) as u32) << 31 | 0x7f7fffff,                   // ±MAX
        6 => (rng.below(2) as u32) << 31 | rng.below(0x7f800000) as u32, // any finite
        _ => ((rng.below(600_001) as f32 - 300_000.0) / 512.0).to_bits(),
    }
}

fn unit_quat(rng: &mut Rng) -> (UnitQuaternion, &'static str) {
    let angle = |rng: &mut Rng| (rng.below(6_283_186) as f32 - 3_141_593.0) / 1_000_000.0;
    match rng.below(8) {
        0 => (UnitQuaternion::identity(), "identity"),
        1 => {
            let ax = match rng.below(3) { 0 => Vector3::x_axis(), 1 => Vector3::y_axis(), _ => Vector3::z_axis() };
            (UnitQuaternion::from_axis_angle(&ax, angle(rng)), "axis-angle")
        }
        2 => (UnitQuaternion::from_euler_angles(angle(rng), angle(rng), angle(rng)), "euler"),
        3 => {
            // quarter/half turns: components 0, ±1, ±√½, ±½
            let k = rng.below(4) as f32;
            let ax = match rng.below(3) { 0 => Vector3::x_axis(), 1 => Vector3::y_axis(), _ => Vector3::z_axis() };
            (UnitQuaternion::from_axis_angle(&ax, k * std::f32::consts::FRAC_PI_2), "quarter-turns")
        }
        4 => {
            let mut c = [0f32; 4];
            loop {
                for x in c.iter_mut() {
                    *x = rng.below(21) as f32 - 10.0;
                }
                if c.iter().any(|x| *x != 0.0) {
                    break;
                }
            }
            (UnitQuaternion::from_quaternion(Quaternion::new(c[0], c[1], c[2], c[3])), "from-integers")
        }
        5 => {
            // tiny rotation: w ≈ 1, vector part near the rounding threshold of the norm
            let e = f32::from_bits(0x30000000 + rng.below(0x0c000000) as u32);
            (UnitQuaternion::from_quaternion(Quaternion::new(1.0, e, -e * 0.5, e * 0.25)), "tiny-angle")
        }
        _ => {
            let mut c = [0f32; 4];
            for x in c.iter_mut() {
                *x = (rng.below(2_000_001) as f32 - 1_000_000.0) / 1_000_000.0;
            }
            if c.iter().all(|x| *x == 0.0) {
                c[0] = 1.0;
            }
            (UnitQuaternion::from_quaternion(Quaternion::new(c[0], c[1], c[2], c[3])), "from-random")
        }
    }
}

fn raw_quat(rng: &mut Rng) -> UnitQuaternion {
    let mut c = [0u32; 4];
    match rng.below(5) {
        0 => {} // all zero: 0/0
        1 => {
            for x in c.iter_mut() {
                *x = (rng.below(2) as u32) << 31 | (0x5f000000 + rng.below(0x20000000) as u32); // squares overflow
            }
        }
        2 => {
            for x in c.iter_mut() {
                *x = (rng.below(2) as u32) << 31 | rng.below(0x20000000) as u32; // squares underflow
            }
        }
        3 => {
            for x in c.iter_mut() {
                *x = rnd_f32_bits(rng);
            }
        }
        _ => {
            for x in c.iter_mut() {
                *x = (rng.below(2) as u32) << 31 | (0x3c000000 + rng.below(0x06000000) as u32);
            }
        }
    }
    UnitQuaternion::new_unchecked(Quaternion::new(f32::from_bits(c[0]), f32::from_bits(c[1]), f32::from_bits(c[2]), f32::from_bits(c[3])))
}

// ------------------------------------------------------------------------------------------------

pub fn run(args: &Args) {
    if args.stream == "pbcodec-child" {
        child_main();
        return;
    }
    let thorough = args.tier == "thorough";
    let mut rng = Rng::new(args.seed ^ 0xC18);
    let mut ctx = Ctx { out: Out::new(&args.out), worker: None, l: layout(), spawns: 0 };
    let s = ctx.l.tx; // size_of::<TxMessage>()

    // ---- the constants the model was generated with
    {
        let l = &ctx.l;
        let g = Geometry::from_msg(autd3_protobuf::Geometry { devices: vec![autd3_protobuf::geometry::Autd3 { pos: None, rot: None, sound_speed: None }] }).unwrap();
        let a = format!(
            "{} {} {} {} {} {} {} {} {} {:08x}",
            l.tx, l.header, l.msg_id, l.slot2, l.payload, l.payload_len, l.rx, l.rx_data, l.rx_ack, g[0].sound_speed.to_bits()
        );
        ctx.out.line("sizes", &a);
    }

    // ---- corpus first: the F14 witnesses (DESIGN section 6) with stable keys
    for (n, len) in [(1u64, s + 1), (1, s - 1), (1, 2 * s), (1, 0), (0, 1), (0, s), (2, s), (64, 64 * s + 1), (3, 3 * s - 2)] {
        tx_dec_case(&mut ctx, n, len, 14, "F14-corpus");
    }
    for len in [1usize, 3, 5, 21, 499] {
        rx_dec_case(&mut ctx, len, 14, "F14-corpus");
    }

    // ---- frames -> message -> frames: every count 0..=64, arbitrary bytes
    let seeds = if thorough { 6 } else { 2 };
    for n in 0..=64usize {
        for k in 0..seeds {
            tx_enc_case(&mut ctx, n, rng.below(1 << 31) + k);
        }
    }
    for &n in if thorough { &[65usize, 100, 128, 249, 250, 1000][..] } else { &[65usize, 249][..] } {
        tx_enc_case(&mut ctx, n, rng.below(1 << 31));
    }
    // ---- well-formed message -> frames -> message: arbitrary bytes incl. the header's padding byte
    for n in 0..=64u64 {
        for _ in 0..seeds {
            tx_dec_case(&mut ctx, n, n as usize * s, rng.below(1 << 31), "well-formed");
        }
    }
    for &n in if thorough { &[65u64, 100, 249, 1000][..] } else { &[65u64, 249][..] } {
        tx_dec_case(&mut ctx, n, n as usize * s, rng.below(1 << 31), "well-formed");
    }

    // ---- every (declared count, actual length) mismatch in a window around the true size
    let win: i64 = if thorough { 24 } else { 3 };
    for n in 0..=64u64 {
        let t = (n as usize * s) as i64;
        let mut lens: Vec<i64> = (-win..=win).map(|d| t + d).collect();
        lens.extend([t - s as i64, t + s as i64, t - 2 * s as i64, t + 2 * s as i64, t / 2, 2 * t, 0, 1, t - (s / 2) as i64, t + (s / 2) as i64]);
        lens.sort();
        lens.dedup();
        for len in lens {
            if len < 0 || len == t {
                continue;
            }
            let tag = if len < t { "short" } else { "long" };
            let tag = if (len as usize) % s == 0 { if len < t { "short, whole frames" } else { "long, whole frames" } } else { tag };
            tx_dec_case(&mut ctx, n, len as usize, 1 + rng.below(1000), tag);
        }
    }
    // full sweep of lengths for the smallest counts
    let (nmax, lmax) = if thorough { (4u64, 8 * s + 3) } else { (1u64, 2 * s + 3) };
    for n in 0..=nmax {
        for len in 0..=lmax {
            if len as u64 != n * s as u64 {
                tx_dec_case(&mut ctx, n, len, 7, "sweep");
            }
        }
    }
    // declared counts far from the data: the count field is a u32
    for (n, len) in [
        (u32::MAX as u64, 0usize),
        (u32::MAX as u64, s),
        (1u64 << 31, 2 * s),
        (6_861_000, 18_704),       // n·size ≡ 18704 (mod 2^32): the 32-bit overflow of the product
        ((1u64 << 32) / 2 + 1, s), // 2n ≡ 2 (mod 2^32)
        (100_000, s),
        (65_536, 0),
    ] {
        tx_dec_case(&mut ctx, n, len, 3, "count far from data");
    }

    // ---- acknowledgements
    for count in 0..=64usize {
        rx_enc_case(&mut ctx, count, rng.below(1 << 31));
        rx_dec_case(&mut ctx, 2 * count, rng.below(1 << 31), "whole");
    }
    for &count in if thorough { &[65usize, 100, 255, 256, 1000, 65535][..] } else { &[65usize, 256][..] } {
        rx_enc_case(&mut ctx, count, rng.below(1 << 31));
        rx_dec_case(&mut ctx, 2 * count, rng.below(1 << 31), "whole");
    }
    for len in (1..=(if thorough { 1025usize } else { 259 })).step_by(2) {
        rx_dec_case(&mut ctx, len, rng.below(1 << 31), "odd");
    }
    for &len in &[4097usize, 65535, 131071] {
        rx_dec_case(&mut ctx, len, 5, "odd");
    }
    // ---- the simulator link itself (`autd3-link-simulator`): replies of every length in a window around the true
    //      size, odd lengths, other device counts; frames through `send`
    // without a loopback interface the peer cannot be started: the cases are skipped (and counted), never guessed
    let sim_ok = ctx.ask("simprobe").0 == "ok 1 0 0 0";
    ctx.out.count(if sim_ok { "simulator-link: in-process gRPC peer started" } else { "simulator-link: NO loopback peer here, cases skipped" });
    for n in if !sim_ok { 1..=0usize } else if thorough { 0..=17usize } else { 0..=8usize } {
        for len in 0..=(2 * n + 5) {
            sim_rx_case(&mut ctx, n, len, rng.below(1 << 31));
        }
    }
    for &(n, len) in &[(16usize, 33usize), (16, 31), (64, 129), (64, 128), (3, 1025), (1, 0), (249, 499)] {
        if sim_ok {
            sim_rx_case(&mut ctx, n, len, rng.below(1 << 31));
        }
    }
    for n in [0usize, 1, 2, 3, 16] {
        if sim_ok {
            sim_tx_case(&mut ctx, n, rng.below(1 << 31));
        }
    }
    ctx.restart();
    let spawns = ctx.spawns;
    ctx.out.count_n("child processes started", spawns);

    // ---- geometry: 0..=16 devices, arbitrary poses and sound speeds
    let rounds = if thorough { 160 } else { 8 };
    for round in 0..rounds {
        for ndev in 0..=16usize {
            let mut devs = vec![];
            let mut plain = vec![];
            let mut tag = "users' constructors";
            for _ in 0..ndev {
                let raw = round % 4 == 3 && rng.chance(1, 3);
                let pos = [finite_pos_bits(&mut rng), finite_pos_bits(&mut rng), finite_pos_bits(&mut rng)];
                let ss = match rng.below(6) {
                    0 => 340_000.0f32.to_bits(),
                    1 => ((rng.below(60_001) as f32 + 310_000.0) * 1.0).to_bits(),
                    2 => (340.0f32 + rng.below(100) as f32 / 7.0).to_bits(),
                    3 => rng.below(0x7f800000) as u32,
                    4 => 0x80000000 | rng.below(0x7f800000) as u32,
                    _ => (331_300.0f32 + 606.0 * (rng.below(400) as f32 / 10.0)).to_bits(),
                };
                if raw {
                    tag = "with raw (non-unit / non-finite) devices";
                    let pos = if rng.chance(1, 4) { [rnd_f32_bits(&mut rng), rnd_f32_bits(&mut rng), rnd_f32_bits(&mut rng)] } else { pos };
                    let ss = if rng.chance(1, 4) { rnd_f32_bits(&mut rng) } else { ss };
                    devs.push(device(pos, raw_quat(&mut rng), ss));
                    plain.push(false);
                } else {
                    let (q, kind) = unit_quat(&mut rng);
                    ctx.out.count(&format!("rotation kind: {kind}"));
                    devs.push(device(pos, q, ss));
                    plain.push(true);
                }
            }
            let mut g = Geometry::new(devs);
            // the enable flag is not part of a device's pose: disabled devices travel like any other
            // (every other round: each device disabled with probability 1/3, so also below/between enabled ones)
            if round % 2 == 1 {
                let mut any = false;
                for d in g.iter_mut() {
                    if rng.chance(1, 3) {
                        d.enable = false;
                        any = true;
                    }
                }
                if any {
                    ctx.out.count("geometry with disabled devices");
                }
            }
            geo_case(&mut ctx, &g, &plain, tag);
        }
    }
    // messages with absent optional fields (the peer may omit them)
    for mask in 0..8u32 {
        for _ in 0..(if thorough { 12 } else { 3 }) {
            let n = rng.range(1, 3) as usize;
            let devs: Vec<_> = (0..n)
                .map(|i| {
                    let m = if i == 0 { mask } else { rng.below(8) as u32 };
                    let f = |b: u32| f32::from_bits(b);
                    let (q, _) = unit_quat(&mut rng);
                    // the message may carry any four numbers: mostly a unit quaternion scaled by a power of two / an integer
                    let sc = *rng.pick(&[1.0f32, 1.0, 2.0, 0.5, 3.0, 1024.0, 1.0e-3]);
                    autd3_protobuf::geometry::Autd3 {
                        pos: (m & 1 != 0).then(|| autd3_protobuf::Point3 { x: f(finite_pos_bits(&mut rng)), y: f(finite_pos_bits(&mut rng)), z: f(finite_pos_bits(&mut rng)) }),
                        rot: (m & 2 != 0).then(|| autd3_protobuf::Quaternion { w: q.w * sc, x: q.i * sc, y: q.j * sc, z: q.k * sc }),
                        sound_speed: (m & 4 != 0).then(|| f(rng.below(0x7f800000) as u32)),
                    }
                })
                .collect();
            geodec_case(&mut ctx, devs, "optional fields");
        }
    }
    geodec_case(&mut ctx, vec![], "optional fields");
    for _ in 0..(if thorough { 300 } else { 40 }) {
        // arbitrary bit patterns in every field
        let f = |b: u32| f32::from_bits(b);
        let d = autd3_protobuf::geometry::Autd3 {
            pos: Some(autd3_protobuf::Point3 { x: f(rnd_f32_bits(&mut rng)), y: f(rnd_f32_bits(&mut rng)), z: f(rnd_f32_bits(&mut rng)) }),
            rot: Some(autd3_protobuf::Quaternion { w: f(rnd_f32_bits(&mut rng)), x: f(rnd_f32_bits(&mut rng)), y: f(rnd_f32_bits(&mut rng)), z: f(rnd_f32_bits(&mut rng)) }),
            sound_speed: Some(f(rnd_f32_bits(&mut rng))),
        };
        geodec_case(&mut ctx, vec![d], "arbitrary bit patterns");
    }

    // ---- the model's f32 arithmetic against the hardware
    for &a in &F32_EDGE {
        for &b in &F32_EDGE {
            for op in ["mul", "add", "sub", "div"] {
                f32_case(&mut ctx, op, a, b);
            }
        }
        f32_case(&mut ctx, "sqrt", a, 0);
    }
    for _ in 0..(if thorough { 120_000 } else { 6_000 }) {
        let (a, b) = (rnd_f32_bits(&mut rng), rnd_f32_bits(&mut rng));
        let op = *rng.pick(&["mul", "add", "sub", "div", "sqrt", "add", "div"]);
        // results near the subnormal / overflow boundaries: pair a value with a near-reciprocal exponent
        let b = if rng.chance(1, 4) { (b & 0x807fffff) | ((((254u32.wrapping_sub(a >> 23 & 0xff)) as i32 + rng.below(5) as i32 - 2).clamp(0, 254) as u32) << 23) } else { b };
        f32_case(&mut ctx, op, a, if op == "sqrt" { 0 } else { b });
    }

    ctx.out.sample(format!("txdec 1 {} 14  (one frame declared, one byte too many)", s + 1));
    ctx.out.sample(format!("txdec 64 {} <seed> (64 frames of arbitrary bytes, decoded and re-encoded)", 64 * s));
    ctx.out.sample("rxdec 3 14  (odd-length acknowledgement payload)".into());
    ctx.out.sample("geo <16 devices × (position, unit quaternion, sound speed) as bit patterns>".into());
    ctx.out.finish(
        "pbcodec",
        "a case is one conversion call (or encode+decode pair) on one message; non-trivial = at least one frame / acknowledgement / device, or a malformed message; distinct by (declared count, length) for frame decodes, by length for acknowledgement decodes, by full input otherwise; f32 arithmetic lines are not counted as cases",
    );
}
