//! `fw_c02` stream (C02): device state depends on the last datagram per resource, not on history;
//! Clear restores the power-on observable state; the SDK defaults are a fix-point of that state.
//!
//! World A (written to the correspondence files) runs history + probe; silent worlds: B = history only,
//! C = fresh + probe, D = power-on.  Oracle:
//!   * every resource the probe does not address is identical in A and B — now and after the clock
//!     advanced (so a probe that silently restarts a finished loop is seen);
//!   * every resource the probe addresses is identical in A and C;
//!   * after Clear, every resource of A equals D;
//!   * sending the SDK defaults to D changes nothing.
use crate::common::*;
use crate::fw_c01::{Accept, T0};
use crate::fwc::*;
use autd3::prelude::*;

#[derive(Clone)]
pub enum Step {
    Send(Spec),
    /// a tuple datagram `(a, b)` (both operations share frames)
    Pair(Spec, Spec),
    Clk(u64), // relative advance in ns
}

fn alphabet(thorough: bool) -> Vec<Spec> {
    let m = |seg: u8, n: usize, tr: Tr, rep: u16, seed: u64| Spec::Mod { seg, tr, rep, div: 10, n, seed };
    let mut v = vec![
        m(0, 2, None, 0xFFFF, 1),
        m(1, 3, Some((0xFF, 0)), 0xFFFF, 2),
        m(0, 32769, None, 0xFFFF, 3),
        m(1, 40000, None, 0xFFFF, 4),
        m(0, 65536, Some((0xFF, 0)), 0xFFFF, 5),
        m(1, 4, Some((0x00, 0)), 0, 6), // finite loop, SyncIdx transition to S1
        Spec::Gain { seg: 0, tr: Some((0xFF, 0)), seed: 7 },
        Spec::Gain { seg: 1, tr: None, seed: 8 },
        Spec::GainStm { mode: 0, seg: 0, tr: Some((0xFF, 0)), rep: 0xFFFF, div: 100, size: 65, seed: 9 },
        Spec::GainStm { mode: 2, seg: 1, tr: None, rep: 0xFFFF, div: 100, size: 6, seed: 10 },
        Spec::Foci { n: 1, seg: 0, tr: Some((0xFF, 0)), rep: 0xFFFF, div: 100, ss: 21760, size: 4097, seed: 11 },
        Spec::Foci { n: 3, seg: 1, tr: None, rep: 0xFFFF, div: 100, ss: 21760, size: 1366, seed: 12 },
        Spec::Foci { n: 8, seg: 1, tr: Some((0x00, 0)), rep: 1, div: 100, ss: 21760, size: 2, seed: 13 },
        Spec::SilSteps(5, 20, true),
        Spec::SilSteps(10, 40, false),
        Spec::SilRate(300, 7),
        Spec::Pwe(14),
        Spec::PhaseCorr(15),
        Spec::Debug([0x21u64 << 56 | 3, 0x51u64 << 56 | 9, 0x10u64 << 56, 0xF0u64 << 56 | 1]),
        Spec::Fan(true),
        Spec::Reads(true),
        Spec::GpioIn(0b0101),
        Spec::CpuGpio(0xA0),
        Spec::SwapMod(1, (0xFF, 0)),
        Spec::SwapGain(1, (0xFF, 0)),
        Spec::Sync,
        // ---- coverage review C02
        // gap 1: transitions that stay pending while unrelated probes arrive (SysTime far enough in the future to
        // outlive the clock advances of a case, a GPIO pin that `gpioin 5` never raises, Ext)
        Spec::Mod { seg: 1, tr: Some((0x01, T0 + 700_000_000)), rep: 0, div: 11, n: 4, seed: 26 },
        Spec::Foci { n: 2, seg: 1, tr: Some((0x02, 1)), rep: 2, div: 40, ss: 21761, size: 3, seed: 27 },
        Spec::Mod { seg: 1, tr: Some((0xF0, 0)), rep: 0xFFFF, div: 5000, n: 6, seed: 28 },
        Spec::SwapMod(1, (0x01, T0 + 900_000_000)),
        // gap 2: clearing a flag that is set
        Spec::Fan(false),
        Spec::Reads(false),
        Spec::CpuGpio(0x20),
        Spec::CpuGpio(0),
        // gaps 3, 4: finite loops of every kind, with and without a transition; other divisions / sound speed, so that
        // "the last datagram wins" is visible for those registers too
        Spec::GainStm { mode: 1, seg: 1, tr: Some((0x00, 0)), rep: 2, div: 0xFFFF, size: 3, seed: 29 },
        Spec::Mod { seg: 1, tr: None, rep: 3, div: 5000, n: 255, seed: 30 },
        Spec::Foci { n: 4, seg: 0, tr: None, rep: 1, div: 0xFFFF, ss: 21761, size: 3, seed: 31 },
        Spec::GainStm { mode: 0, seg: 0, tr: None, rep: 0, div: 40, size: 2, seed: 32 },
        // gap 5: the 16-byte STM swaps in the default tier
        Spec::SwapFoci(1, (0xFF, 0)),
        Spec::SwapGainStm(0, (0xFF, 0)),
    ];
    if thorough {
        v.extend([
            m(0, 254, None, 0xFFFF, 21),
            m(1, 255, None, 3, 22),
            m(1, 32768, None, 0xFFFF, 23),
            Spec::GainStm { mode: 1, seg: 0, tr: None, rep: 0xFFFF, div: 100, size: 1024, seed: 24 },
            Spec::Foci { n: 1, seg: 1, tr: None, rep: 0xFFFF, div: 100, ss: 21760, size: 9000, seed: 25 },
            Spec::SwapFoci(0, (0x00, 0)),
            Spec::SwapGainStm(1, (0x02, 2)),
            Spec::Clear,
        ]);
    }
    v
}

struct Silent {
    w: World,
    dead: bool,
}
impl Silent {
    fn new(n: usize) -> Self {
        Silent { w: World::new(n, T0), dead: false }
    }
    fn apply(&mut self, st: &Step) -> String {
        if self.dead {
            return "dead".into();
        }
        let w = &mut self.w;
        let r = guarded(|| match st {
            Step::Send(s) => w.send_spec(s, usize::MAX).result,
            Step::Pair(x, y) => w.send_pair_spec(x, y, usize::MAX).result,
            Step::Clk(d) => {
                let t = w.t + d;
                w.clk(t);
                "ok".into()
            }
        });
        match r {
            Ok(x) => x,
            Err(_) => {
                self.dead = true;
                "panic".into()
            }
        }
    }
}

fn snapshot(w: &World, with_dyn: bool) -> Vec<Vec<String>> {
    w.cpus
        .iter()
        .map(|c| {
            ALL_RES
                .iter()
                // a read-back accessor that panics is an observation ("P…"), not the end of the stream
                .map(|r| guarded(|| if with_dyn { format!("{}|{}", res_obs(c, *r), res_dyn(c, *r)) } else { res_obs(c, *r) }).unwrap_or_else(|m| format!("P:{}", panic_key(&m))))
                .collect()
        })
        .collect()
}

pub fn run_case(out: &mut Out, ndev: usize, history: &[Step], probe: &Spec, tag: &str) {
    let mut a = Session::new(out, ndev, T0);
    let mut b = Silent::new(ndev);
    let mut c = Silent::new(ndev);
    a.send(&Spec::Clear);
    b.apply(&Step::Send(Spec::Clear));
    c.apply(&Step::Send(Spec::Clear));
    // every datagram of world A carries an expectation (accepted / refused) computed from the datagrams sent so far
    // alone (`fw_c01::Accept`: transition rules, strict-silencer guard, SysTime margin, what a segment holds):
    // what a device accepts depends on the last datagram per resource, not on how it got there
    let mut exp = Accept::power_on();
    let mut acceptance: Option<String> = None;
    let mut judge = |exp: &mut Accept, sp: &Spec, now: u64, ans: &str, acceptance: &mut Option<String>| {
        let e = exp.step(sp, now);
        if ans != "panic" && ans != "dead" && ans.starts_with("R=ok") != e.is_ok() && acceptance.is_none() {
            *acceptance = Some(format!("`{}` answered {} but the datagrams sent so far say it {}", sp.text(), ans.split(' ').next().unwrap_or(""), match e { Ok(()) => "must be accepted".to_string(), Err(w) => format!("must be refused ({w})") }));
        }
    };
    for st in history {
        match st {
            Step::Send(s) => {
                let now = a.w.t;
                let ans = a.send(s);
                judge(&mut exp, s, now, &ans, &mut acceptance);
            }
            Step::Pair(x, y) => {
                // the real tuple type; the expectation: both members in order (only judged when both must be accepted)
                let now = a.w.t;
                let ans = a.pair_real(x, y);
                let (e1, e2) = (exp.step(x, now), exp.step(y, now));
                if e1.is_ok() && e2.is_ok() && ans != "panic" && !ans.starts_with("R=ok") && acceptance.is_none() {
                    acceptance = Some(format!("tuple `({} , {})` answered {} but both members must be accepted", x.text(), y.text(), ans.split(' ').next().unwrap_or("")));
                }
            }
            Step::Clk(d) => {
                let t = a.w.t + d;
                a.clk(t);
                // the fresh world lives through the same clock (nothing else), so that what is *playing* after an
                // Immediate request can be compared with it
                c.apply(st);
            }
        }
        b.apply(st);
    }
    let hist_desc: Vec<String> = history.iter().map(|s| match s { Step::Send(x) => x.kind().to_string(), Step::Pair(x, y) => format!("({},{})", x.text(), y.text()), Step::Clk(d) => format!("clk{d}") }).collect();
    let key = format!("C02:{}:after[{}]", probe.text(), hist_desc.join(","));
    if a.dead || b.dead {
        // a firmware-model abort is C19's subject; here the case simply cannot be evaluated
        out.case(None);
        out.count("not-evaluable:panic");
        return;
    }
    let now = a.w.t;
    let ra = a.send(probe);
    judge(&mut exp, probe, now, &ra, &mut acceptance);
    let mut exp_c = Accept::power_on();
    let ec = exp_c.step(probe, c.w.t);
    let rc = c.apply(&Step::Send(probe.clone()));
    if rc != "panic" && (rc == "ok") != ec.is_ok() && acceptance.is_none() {
        acceptance = Some(format!("on a fresh device `{}` answered {rc} but it {}", probe.text(), match ec { Ok(()) => "must be accepted".to_string(), Err(w) => format!("must be refused ({w})") }));
    }
    let accepted = ra.starts_with("R=ok");
    let mut verdict: Option<String> = None;
    if ra == "panic" {
        out.case(None);
        out.count("not-evaluable:panic");
        return;
    }
    let touched = touches(probe);
    // (1) untouched resources: A == B, now and after 1.5 ms, 100 ms
    if verdict.is_none() {
        for adv in [0u64, 1_500_000, 100_000_000] {
            if adv > 0 {
                let t = a.w.t + adv;
                a.clk(t);
                b.apply(&Step::Clk(adv));
                if a.dead || b.dead {
                    out.case(None);
                    out.count("not-evaluable:panic");
                    return;
                }
            }
            let (sa, sb) = (snapshot(&a.w, true), snapshot(&b.w, true));
            'outer: for d in 0..ndev {
                for (k, r) in ALL_RES.iter().enumerate() {
                    if touched.contains(r) {
                        continue;
                    }
                    if sa[d][k] != sb[d][k] {
                        verdict = Some(format!(
                            "dev {d}: resource {r:?} is not addressed by `{}` but changed (clock +{adv} ns): `{}` instead of `{}`",
                            probe.kind(), sa[d][k], sb[d][k]
                        ));
                        break 'outer;
                    }
                }
            }
            if verdict.is_some() {
                break;
            }
        }
    }
    // (2) addressed resources: A == C when both accepted. After an Immediate request on an infinite loop (or a Gain with
    // its transition) also what is playing — segment and index as a function of the clock — must not depend on the
    // history (Props/C02 `playing_after_probe`): a finished finite loop, a pending transition … leave nothing behind
    let immediate_infinite = matches!(
        probe,
        Spec::Mod { tr: Some((0xFF, _)), rep: 0xFFFF, .. } | Spec::Foci { tr: Some((0xFF, _)), rep: 0xFFFF, .. } | Spec::GainStm { tr: Some((0xFF, _)), rep: 0xFFFF, .. } | Spec::Gain { tr: Some((0xFF, _)), .. }
    );
    if rc == "ok" {
        c.apply(&Step::Clk(1_500_000));
        c.apply(&Step::Clk(100_000_000));
    }
    if verdict.is_none() && accepted && rc == "ok" && !c.dead && !matches!(probe, Spec::Clear) {
        if immediate_infinite {
            a.out.count("probe:playing-compared-with-fresh-device");
        }
        let (sa, sc) = (snapshot(&a.w, immediate_infinite), snapshot(&c.w, immediate_infinite));
        'o2: for d in 0..ndev {
            for (k, r) in ALL_RES.iter().enumerate() {
                if touched.contains(r) && sa[d][k] != sc[d][k] {
                    verdict = Some(format!("dev {d}: resource {r:?} after `{}` differs from the same datagram on a fresh device: `{}` vs `{}`", probe.kind(), sa[d][k], sc[d][k]));
                    break 'o2;
                }
            }
        }
    }
    // (2b) hidden state of the addressed resource (the CPU's copies of mode / cycle / loop count of a segment) shows in
    // what a follow-up swap to that segment is allowed to do: after an accepted write WITHOUT transition, the matching
    // SwapSegment must be accepted exactly when the datagrams sent say so — on this history and on a fresh device
    // (review C02 gap 5: Gain, Modulation, FociSTM, GainSTM; Immediate for an infinite loop, SyncIdx for a finite one)
    if verdict.is_none() && accepted && rc == "ok" {
        let follow = match probe {
            Spec::Gain { seg, tr: None, .. } => Some(Spec::SwapGain(*seg, (0xFF, 0))),
            Spec::Gain { seg, .. } => Some(Spec::SwapGain(*seg, (0xFF, 0))),
            Spec::Mod { seg, tr: None, rep, .. } => Some(Spec::SwapMod(*seg, if *rep == 0xFFFF { (0xFF, 0) } else { (0x00, 0) })),
            Spec::Foci { seg, tr: None, rep, .. } => Some(Spec::SwapFoci(*seg, if *rep == 0xFFFF { (0xFF, 0) } else { (0x00, 0) })),
            Spec::GainStm { seg, tr: None, rep, .. } => Some(Spec::SwapGainStm(*seg, if *rep == 0xFFFF { (0xFF, 0) } else { (0x00, 0) })),
            _ => None,
        };
        if let Some(follow) = follow {
            let now = a.w.t;
            let fa = a.send(&follow);
            let ea = exp.step(&follow, now);
            let ecf = exp_c.step(&follow, c.w.t);
            let fc = c.apply(&Step::Send(follow.clone()));
            a.out.count(&format!("follow-up:{}:{}", follow.kind(), if fa.starts_with("R=ok") { "accepted" } else { "refused" }));
            if fa != "panic" && fa.starts_with("R=ok") != ea.is_ok() {
                verdict = Some(format!(
                    "after `{}`, the follow-up `{}` answered {} after this history but the datagrams sent say it {}",
                    probe.text(), follow.text(), fa.split(' ').next().unwrap_or(""), match ea { Ok(()) => "must be accepted".to_string(), Err(w) => format!("must be refused ({w})") }
                ));
            } else if fc != "panic" && (fc == "ok") != ecf.is_ok() {
                verdict = Some(format!("after `{}` on a fresh device, the follow-up `{}` answered {fc} but it {}", probe.text(), follow.text(), match ecf { Ok(()) => "must be accepted".to_string(), Err(w) => format!("must be refused ({w})") }));
            }
            if fa == "panic" || fc == "panic" {
                out.case(None);
                out.count("not-evaluable:panic");
                return;
            }
        }
    }
    // (3) Clear returns to the power-on observable state
    if verdict.is_none() {
        let rclr = a.send(&Spec::Clear);
        if rclr == "panic" {
            out.case(None);
            out.count("not-evaluable:panic");
            return;
        } else {
            let mut d0 = Silent::new(ndev);
            d0.apply(&Step::Clk(a.w.t - T0));
            let t = a.w.t;
            a.clk(t); // make "now playing" comparable: both worlds updated at the same time
            // … now, and one second later (a transition request that was pending when Clear arrived must be gone)
            'o3: for adv in [0u64, 1_000_000_000] {
                if adv > 0 {
                    let t = a.w.t + adv;
                    a.clk(t);
                    d0.apply(&Step::Clk(adv));
                    if a.dead || d0.dead {
                        break;
                    }
                }
                let (sa, sd) = (snapshot(&a.w, true), snapshot(&d0.w, true));
                for d in 0..ndev {
                    for (k, r) in ALL_RES.iter().enumerate() {
                        // clock synchronisation is not configuration: Clear does not undo Synchronize
                        if *r != Res::Sync && sa[d][k] != sd[d][k] {
                            verdict = Some(format!("dev {d}: after Clear (+{adv} ns) resource {r:?} is `{}`, power-on state is `{}`", sa[d][k], sd[d][k]));
                            break 'o3;
                        }
                    }
                }
            }
        }
    }
    let log = a.log.clone();
    let sig = fnv64(key.as_bytes());
    out.case(if accepted { Some(sig) } else { None });
    out.count(&format!("probe:{}", probe.kind()));
    out.count(&format!("history-depth:{}", history.len()));
    if let Some(t) = match probe { Spec::Mod { tr, .. } | Spec::Foci { tr, .. } | Spec::GainStm { tr, .. } => *tr, Spec::SwapMod(_, t) | Spec::SwapFoci(_, t) | Spec::SwapGainStm(_, t) => Some(*t), _ => None } {
        out.count(&format!("probe-transition:{:#04x}", t.0));
    }
    if let Some(what) = acceptance {
        out.violation(format!("C02:acceptance:{}:after[{}]:{tag}", probe.text(), hist_desc.join(",")), what, log.clone());
    }
    if let Some(what) = verdict {
        out.violation(format!("{key}:{tag}"), what, log);
    }
}

/// review C02 gap 6: the firmware_version() query sequence in a history. While a query is outstanding the state byte is
/// not refreshed; the closing query must put state reading back exactly as it was. World A: Reads(b), the six queries
/// with a clock tick inside, clock; silent world X: Reads(b), clock. Compared: every resource and the rx data byte.
fn firminfo_case(out: &mut Out, ndev: usize, reads: bool, probe: &Spec) {
    let mut a = Session::new(out, ndev, T0);
    let mut x = Silent::new(ndev);
    a.send(&Spec::Clear);
    x.apply(&Step::Send(Spec::Clear));
    a.send(&Spec::Reads(reads));
    x.apply(&Step::Send(Spec::Reads(reads)));
    for ty in 1..=5u8 {
        a.send(&Spec::FirmInfo(ty));
        if ty == 3 {
            let t = a.w.t + 1_000_000;
            a.clk(t);
            x.apply(&Step::Clk(1_000_000));
        }
    }
    a.send(&Spec::FirmInfo(6));
    let ra = a.send(probe);
    let rx = x.apply(&Step::Send(probe.clone()));
    let t = a.w.t + 2_000_000;
    a.clk(t);
    x.apply(&Step::Clk(2_000_000));
    let log = a.log.clone();
    let mut verdict = None;
    if a.dead || x.dead {
        out.case(None);
        out.count("not-evaluable:panic");
        return;
    }
    if ra.starts_with("R=ok") != (rx == "ok") {
        verdict = Some(format!("`{}` answered {} after a firmware_version sequence, {rx} without", probe.text(), ra.split(' ').next().unwrap_or("")));
    }
    let (sa, sx) = (snapshot(&a.w, true), snapshot(&x.w, true));
    for d in 0..ndev {
        if verdict.is_none() && sa[d] != sx[d] {
            let k = (0..ALL_RES.len()).find(|&k| sa[d][k] != sx[d][k]).unwrap();
            verdict = Some(format!("dev {d}: resource {:?} is `{}` after a firmware_version sequence, `{}` without", ALL_RES[k], sa[d][k], sx[d][k]));
        }
        let (da, dx) = (a.w.cpus[d].rx().data(), x.w.cpus[d].rx().data());
        if verdict.is_none() && da != dx {
            verdict = Some(format!("dev {d}: the state byte is {da:#04x} after a firmware_version sequence, {dx:#04x} without (state reading {})", if reads { "enabled" } else { "disabled" }));
        }
    }
    out.case(Some(fnv64(format!("firminfo|{ndev}|{reads}|{}", probe.text()).as_bytes())));
    out.count("firmware-version-sequence-in-history");
    if let Some(what) = verdict {
        out.violation(format!("C02:firminfo-sequence:reads{}:{}", reads as u8, probe.text()), what, log);
    }
}

/// the SDK's own defaults sent to a power-on device change nothing observable
fn defaults_case(out: &mut Out) {
    let ndev = 2;
    let mut a = Session::new(out, ndev, T0);
    let d0 = Silent::new(ndev);
    // the transition *request* that accompanies a send (Immediate by default) is not part of the defaults
    let strip = |mut v: Vec<Vec<String>>| {
        for d in v.iter_mut() {
            for (k, r) in ALL_RES.iter().enumerate() {
                if matches!(r, Res::ModReq | Res::StmReq) {
                    d[k] = d[k].split(' ').next().unwrap_or("").to_string();
                }
            }
        }
        v
    };
    let base = strip(snapshot(&d0.w, false));
    let specs = vec![
        Spec::SilSteps(10, 40, true),
        Spec::PweDefault,
        Spec::ModRaw { seg: 0, tr: Some((0xFF, 0)), rep: 0xFFFF, div: 0xFFFF, bytes: vec![0xFF, 0xFF] },
    ];
    let mut verdict = None;
    for s in &specs {
        let r = a.send(s);
        if !r.starts_with("R=ok") {
            verdict = Some(format!("default `{}` was not accepted by a power-on device: {r}", s.kind()));
            break;
        }
        let sa = strip(snapshot(&a.w, false));
        if sa != base {
            let (d, k) = (0..ndev).flat_map(|d| (0..ALL_RES.len()).map(move |k| (d, k))).find(|&(d, k)| sa[d][k] != base[d][k]).unwrap();
            verdict = Some(format!("sending the default `{}` to a power-on device changed {:?}: `{}` vs `{}`", s.kind(), ALL_RES[k], sa[d][k], base[d][k]));
            break;
        }
    }
    // the real default datagrams of the SDK (not expressible in the stream grammar): implementation only
    if verdict.is_none() {
        let w = &mut a.w;
        let r = guarded(|| {
            let mut msgs = vec![];
            let o = w.send_dg(Silencer::default(), usize::MAX);
            msgs.push(("Silencer::default()", o.result));
            let o = w.send_dg(autd3::modulation::Static::default(), usize::MAX);
            msgs.push(("Static::default()", o.result));
            let o = w.send_dg(Null::new(), usize::MAX);
            msgs.push(("Null", o.result));
            let o = w.send_dg(autd3_driver::datagram::PhaseCorrection::new(|_| |_| Phase::ZERO), usize::MAX);
            msgs.push(("PhaseCorrection(0)", o.result));
            msgs
        });
        match r {
            Err(p) => verdict = Some(format!("panic while sending SDK defaults: {p}")),
            Ok(msgs) => {
                if let Some((n, r)) = msgs.iter().find(|(_, r)| r != "ok") {
                    verdict = Some(format!("default {n} not accepted: {r}"));
                } else {
                    let sa = strip(snapshot(&a.w, false));
                    if sa != base {
                        let (d, k) = (0..ndev).flat_map(|d| (0..ALL_RES.len()).map(move |k| (d, k))).find(|&(d, k)| sa[d][k] != base[d][k]).unwrap();
                        verdict = Some(format!("the SDK defaults changed {:?} of a power-on device: `{}` vs `{}`", ALL_RES[k], sa[d][k], base[d][k]));
                    }
                }
            }
        }
    }
    // closed form of the default pulse width table: round(512*asin(i/255)/pi), numerically (support only)
    if verdict.is_none() {
        let t: Vec<u16> = d0.w.cpus[0].fpga().pulse_width_encoder_table().iter().map(|p| p.pulse_width()).collect();
        for (i, &v) in t.iter().enumerate() {
            let exact = 512.0 * (i as f64 / 255.0).asin() / std::f64::consts::PI;
            if (v as f64 - exact).abs() > 0.5 + 1e-9 {
                verdict = Some(format!("default pulse width table entry {i} is {v}, closed form gives {exact:.4}"));
                break;
            }
        }
    }
    let log = a.log.clone();
    out.case(Some(0xDEFA));
    out.count("defaults-case");
    if let Some(what) = verdict {
        out.violation("C02:defaults".into(), what, log);
    }
}

pub fn run(args: &Args) {
    let mut out = Out::new(&args.out);
    let thorough = args.tier == "thorough";
    let mut rng = Rng::new(args.seed ^ 0xC02);
    let alpha = alphabet(thorough);

    // ---- corpus: F1 (Clear after a >32768-sample modulation), F12 (GPIOOutputs after a finished finite loop)
    run_case(&mut out, 1, &[Step::Send(Spec::Mod { seg: 0, tr: None, rep: 0xFFFF, div: 10, n: 40000, seed: 1 })], &Spec::Clear, "F1");
    run_case(
        &mut out,
        1,
        &[Step::Send(Spec::Mod { seg: 1, tr: Some((0x00, 0)), rep: 0, div: 10, n: 4, seed: 2 }), Step::Clk(3_000_000)],
        &Spec::Debug([0, 0, 0, 0]),
        "F12",
    );
    run_case(
        &mut out,
        1,
        &[Step::Send(Spec::Foci { n: 1, seg: 1, tr: Some((0x00, 0)), rep: 0, div: 100, ss: 21760, size: 4, seed: 2 }), Step::Clk(30_000_000)],
        &Spec::SilRate(256, 256),
        "F12-stm",
    );
    // (the swap chain starts the loop on the first clock update after the lap boundary and notices its end on a later
    // one: two updates at least)
    // a finite loop that has run to its end parks the index on the last entry; an infinite-loop write to that same
    // (now playing) segment must play from the clock again, exactly as on a fresh device
    run_case(
        &mut out,
        1,
        &[Step::Send(Spec::Mod { seg: 1, tr: Some((0x00, 0)), rep: 0, div: 10, n: 4, seed: 2 }), Step::Clk(30_000_000), Step::Clk(30_000_000), Step::Clk(1_000_000)],
        &Spec::Mod { seg: 1, tr: Some((0xFF, 0)), rep: 0xFFFF, div: 10, n: 8, seed: 3 },
        "finished-finite-loop-then-rewrite",
    );
    run_case(
        &mut out,
        1,
        &[Step::Send(Spec::Foci { n: 1, seg: 1, tr: Some((0x00, 0)), rep: 1, div: 100, ss: 21760, size: 4, seed: 2 }), Step::Clk(300_000_000), Step::Clk(300_000_000), Step::Clk(1_000_000)],
        &Spec::GainStm { mode: 0, seg: 1, tr: Some((0xFF, 0)), rep: 0xFFFF, div: 100, size: 5, seed: 3 },
        "finished-finite-loop-then-rewrite-stm",
    );
    defaults_case(&mut out);

    // ---- exhaustive: every (history element, probe) pair; thorough: every triple over the first 16 letters
    for h in &alpha {
        for p in &alpha {
            run_case(&mut out, 1, &[Step::Send(h.clone())], p, "pair");
        }
    }
    if thorough {
        let small: Vec<&Spec> = alpha.iter().filter(|s| !matches!(s, Spec::Mod { n, .. } if *n > 40000) && !matches!(s, Spec::GainStm { size, .. } if *size > 100)).take(18).collect();
        for h1 in &small {
            for h2 in &small {
                for p in &small {
                    run_case(&mut out, 1, &[Step::Send((*h1).clone()), Step::Send((*h2).clone())], p, "triple");
                }
            }
        }
    }
    // ---- tuple datagrams in the history: a flag/configuration datagram travelling in the second slot must be in force
    // when its send returns, not when some later, unrelated datagram arrives (every probe of the alphabet follows)
    let tuples: Vec<(Spec, Spec)> = vec![
        (Spec::SilRate(300, 7), Spec::Fan(true)),
        (Spec::Pwe(3), Spec::GpioIn(0b1010)),
        (Spec::Mod { seg: 1, tr: None, rep: 0xFFFF, div: 10, n: 2, seed: 31 }, Spec::Fan(true)),
        (Spec::Fan(true), Spec::Reads(true)),
        (Spec::Gain { seg: 1, tr: None, seed: 32 }, Spec::GpioIn(0b0011)),
        (Spec::Mod { seg: 0, tr: None, rep: 0xFFFF, div: 10, n: 700, seed: 33 }, Spec::SilSteps(4, 9, false)),
        (Spec::CpuGpio(0xA0), Spec::Debug([0x21u64 << 56 | 3, 0, 0, 0x10u64 << 56])),
    ];
    for (k, (x, y)) in tuples.iter().enumerate() {
        for (j, p) in alpha.iter().enumerate() {
            if thorough || (j + k) % 2 == 0 {
                run_case(&mut out, 1, &[Step::Pair(x.clone(), y.clone())], p, "tuple");
            }
        }
    }
    // ---- the firmware_version() sequence as a history (gap 6)
    for (j, p) in alpha.iter().enumerate() {
        if thorough || j % 3 == 0 || matches!(p, Spec::Reads(_) | Spec::Clear | Spec::Fan(_)) {
            firminfo_case(&mut out, 1 + j % 2, j % 4 != 1, p);
        }
    }
    // ---- every page of the STM memory: a FociSTM of maximal length for each N (its frames end on different foci
    // counts for each N, so every way a frame can meet a 4096-foci page boundary occurs) written over a segment
    // whose every page holds another STM's data; a shorter one in thorough mode
    for n in 1..=8usize {
        for seg in if thorough { vec![0u8, 1] } else { vec![(n % 2) as u8] } {
            let fill = Spec::Foci { n: 1, seg, tr: None, rep: 0xFFFF, div: 300, ss: 21760, size: 65536, seed: 40 + n as u64 };
            let mut sizes = vec![65536 / n];
            if thorough {
                sizes.push(65536 / n - 1 - (n * 37) % 900);
            }
            for size in sizes {
                let probe = Spec::Foci { n, seg, tr: None, rep: 0xFFFF, div: 100, ss: 21760, size, seed: 50 + n as u64 };
                run_case(&mut out, 1, &[Step::Send(fill.clone())], &probe, "pages");
            }
        }
    }
    // ---- random deeper histories with clock advances, 1..3 devices
    let nrand = if thorough { 400 } else { 60 };
    for _ in 0..nrand {
        let depth = rng.range(2, if thorough { 40 } else { 10 }) as usize;
        let mut hist = vec![];
        for _ in 0..depth {
            if rng.chance(1, 4) {
                hist.push(Step::Clk(*rng.pick(&[0u64, 1_000, 250_000, 1_000_000, 100_000_000])));
            } else if rng.chance(1, 8) {
                let (x, y) = rng.pick(&tuples).clone();
                hist.push(Step::Pair(x, y));
            } else {
                hist.push(Step::Send(rng.pick(&alpha).clone()));
            }
        }
        let probe = rng.pick(&alpha).clone();
        run_case(&mut out, rng.range(1, 3) as usize, &hist, &probe, "random");
    }
    out.sample("reset 1 1000000000000 / send clear / send mod 0 - 65535 10 32769 3 / send mod 0 - 65535 10 2 1 / clk … / send clear / clk …".into());
    out.sample("reset 1 … / send clear / send mod 1 0:0 0 10 4 2 / clk +3ms / send debug 0 0 0 0 / clk +1.5ms / clk +100ms / send clear".into());
    out.finish(
        "fw_c02",
        "a case = Clear + history + probe (+ follow-up swap) + clock advances + Clear + clock on world A, mirrored by silent worlds B (no probe), C (fresh + probe), D (power-on); non-trivial = the probe was accepted; distinct by (history kinds, probe text). Every datagram of world A carries an acceptance expectation computed from the datagrams alone (violation C02:acceptance:…). Invisible to the model (same grammar): pending SysTime / GPIO / Ext transitions, flags cleared after being set, finite loops of every kind, other divisions and sound speed, tuples through the real tuple type, the firmware_version sequence in a history",
    );
}
