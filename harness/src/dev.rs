//! Driving the real driver + firmware emulator in-process.
#![allow(dead_code)]
use autd3::prelude::*;
use autd3_core::datagram::{Datagram, Operation};
use autd3_driver::firmware::{
    cpu::TxMessage,
    operation::{OperationGenerator, OperationHandler},
};
use autd3_firmware_emulator::{CPUEmulator, cpu::params::ERR_BIT};
use zerocopy::FromZeros;

pub fn create_geometry(n: usize) -> Geometry {
    Geometry::new(
        (0..n)
            .map(|_| {
                AUTD3 {
                    pos: Point3::origin(),
                    ..Default::default()
                }
                .into()
            })
            .collect(),
    )
}

pub fn new_tx(n: usize) -> Vec<TxMessage> {
    vec![TxMessage::new_zeroed(); n]
}

/// pack → deliver to every emulator → stop at the first error acknowledgement (what `Sender` does,
/// without the link). `on_frame` sees every frame after it was delivered.
pub fn send_with<D>(
    cpus: &mut [CPUEmulator],
    d: D,
    geometry: &Geometry,
    tx: &mut [TxMessage],
    mut on_frame: impl FnMut(&[TxMessage], &[CPUEmulator]),
) -> Result<(), AUTDDriverError>
where
    D: Datagram,
    AUTDDriverError: From<D::Error>,
    D::G: OperationGenerator,
    AUTDDriverError: From<<<D::G as OperationGenerator>::O1 as Operation>::Error>
        + From<<<D::G as OperationGenerator>::O2 as Operation>::Error>,
{
    let generator = d.operation_generator(geometry, false)?;
    let mut op = OperationHandler::generate(generator, geometry);
    loop {
        if OperationHandler::is_done(&op) {
            break;
        }
        OperationHandler::pack(&mut op, geometry, tx, false)?;
        for cpu in cpus.iter_mut() {
            cpu.send(tx);
        }
        on_frame(tx, cpus);
        for cpu in cpus.iter() {
            if (cpu.rx().ack() & ERR_BIT) == ERR_BIT {
                return Err(AUTDDriverError::firmware_err(cpu.rx().ack()));
            }
        }
    }
    Ok(())
}

pub fn send<D>(
    cpu: &mut CPUEmulator,
    d: D,
    geometry: &Geometry,
    tx: &mut [TxMessage],
) -> Result<(), AUTDDriverError>
where
    D: Datagram,
    AUTDDriverError: From<D::Error>,
    D::G: OperationGenerator,
    AUTDDriverError: From<<<D::G as OperationGenerator>::O1 as Operation>::Error>
        + From<<<D::G as OperationGenerator>::O2 as Operation>::Error>,
{
    send_with(std::slice::from_mut(cpu), d, geometry, tx, |_, _| {})
}
