//! `wrappers` stream (C14): trees of `Group` / `Cache` / `BoxedGain` (+ `WithSegment` at the root) over
//! identity-dependent leaf gains are built from op lines with the **real** types, sent through the
//! real driver to the firmware emulator, and the drives read back per enabled device.  The Lean
//! model (`Model/GainWrap.lean`) answers the same lines.  The oracle states the property on the
//! implementation: drives = what the leaf gains compute when called directly (selected by key,
//! `Drive::NULL` without key); mismatched keys give `Err`, never a panic.
//!
//! The harness is built with `autd3-driver/lightweight` on (pulled in by `autd3-protobuf`), where
//! `into_boxed` needs `Send + Sync`; `Cache` (an `Rc`) can therefore not be boxed here, and every
//! nesting that contains a `Cache` is exercised through statically typed shapes (`dispatch!`),
//! cache-free subtrees also through `BoxedGain` (shape `D`).
use crate::common::*;
use autd3::gain::{Cache, Custom, Group};
use autd3::prelude::*;
use autd3_core::derive::*;
use autd3_core::datagram::{Datagram, Operation};
use autd3_driver::datagram::{BoxedGain, IntoBoxedGain, WithSegment};
use autd3_driver::firmware::{
    cpu::TxMessage,
    operation::{OperationGenerator, OperationHandler},
};
use autd3_firmware_emulator::{CPUEmulator, cpu::params::ERR_BIT};
use std::any::Any;
use std::collections::{BTreeMap, BTreeSet, HashMap};
use std::sync::{Arc, Mutex};
use zerocopy::FromZeros;

// ------------------------------------------------------------------------------------------ trees

type Km = Vec<Vec<Option<u8>>>;

#[derive(Clone, PartialEq, Debug)]
enum Node {
    L(u32),
    H(u32),
    E(u32),
    B(Box<Node>),
    C(u32, Box<Node>),
    G(Arc<Km>, Vec<(u8, Node)>),
}

fn key_char(k: u8) -> char {
    if k < 10 { (b'0' + k) as char } else { (b'a' + (k - 10)) as char }
}

impl Node {
    fn show(&self) -> String {
        match self {
            Node::L(s) => format!("L{s}"),
            Node::H(s) => format!("H{s}"),
            Node::E(s) => format!("E{s}"),
            Node::B(x) => format!("B({})", x.show()),
            Node::C(id, x) => format!("C{id}({})", x.show()),
            Node::G(km, gm) => {
                let rows: Vec<String> = km
                    .iter()
                    .map(|r| r.iter().map(|c| c.map(key_char).unwrap_or('.')).collect())
                    .collect();
                let es: Vec<String> = gm.iter().map(|(k, g)| format!("{}:{}", key_char(*k), g.show())).collect();
                format!("G[{}]{{{}}}", rows.join("|"), es.join(","))
            }
        }
    }
    /// the tree without salts, ids and key maps (stable part of oracle keys)
    fn shape(&self) -> String {
        match self {
            Node::L(_) => "L".into(),
            Node::H(_) => "H".into(),
            Node::E(_) => "E".into(),
            Node::B(x) => format!("B({})", x.shape()),
            Node::C(_, x) => format!("C({})", x.shape()),
            Node::G(_, gm) => {
                let s: BTreeSet<String> = gm.iter().map(|(_, g)| g.shape()).collect();
                format!("G{{{}}}", s.into_iter().collect::<Vec<_>>().join(","))
            }
        }
    }
    fn caches(&self, out: &mut Vec<(u32, Node)>) {
        match self {
            Node::B(x) => x.caches(out),
            Node::C(id, x) => {
                out.push((*id, (**x).clone()));
                x.caches(out)
            }
            Node::G(_, gm) => gm.iter().for_each(|(_, g)| g.caches(out)),
            _ => {}
        }
    }
    fn depth(&self) -> usize {
        match self {
            Node::B(x) | Node::C(_, x) => 1 + x.depth(),
            Node::G(_, gm) => 1 + gm.iter().map(|(_, g)| g.depth()).max().unwrap_or(0),
            _ => 0,
        }
    }
    /// does the result of `init_full` ignore the filter it is given? (Group ignores it, Custom too)
    fn filter_free(&self) -> bool {
        match self {
            Node::L(_) | Node::E(_) | Node::G(..) => true,
            Node::H(_) => false,
            Node::B(x) | Node::C(_, x) => x.filter_free(),
        }
    }
}

/// the drive function of the leaves — same arithmetic as `drv` in `Model/GainWrap.lean`
fn drv(salt: u32, d: usize, t: usize) -> Drive {
    let (s, d, t) = (salt as u64, d as u64, t as u64);
    Drive {
        phase: Phase(((s * 37 + d * 101 + t * 3 + 11) % 256) as u8),
        intensity: EmitIntensity(((s * 59 + d * 13 + t * 5 + 1) % 256) as u8),
    }
}

/// SPECIFICATION (not the model): the drive the tree is meant to give transducer `t` of device `d` —
/// what the leaf gains compute when called directly, selected by key, `NULL` without key.
fn den(n: &Node, d: usize, t: usize) -> Drive {
    match n {
        Node::L(s) | Node::H(s) | Node::E(s) => drv(*s, d, t),
        Node::B(x) | Node::C(_, x) => den(x, d, t),
        Node::G(km, gm) => match km[d][t] {
            None => Drive::NULL,
            Some(k) => gm.iter().find(|(kk, _)| *kk == k).map(|(_, g)| den(g, d, t)).unwrap_or(Drive::NULL),
        },
    }
}

fn used_keys(km: &Km, mask: &[bool]) -> BTreeSet<u8> {
    km.iter().zip(mask).filter(|(_, e)| **e).flat_map(|(r, _)| r.iter().flatten().copied()).collect()
}

/// every `Group` in the tree has exactly the keys its key map uses on the enabled devices, and no
/// leaf fails
fn well_keyed(n: &Node, mask: &[bool]) -> bool {
    match n {
        Node::L(_) | Node::H(_) => true,
        Node::E(_) => false,
        Node::B(x) | Node::C(_, x) => well_keyed(x, mask),
        Node::G(km, gm) => {
            used_keys(km, mask) == gm.iter().map(|(k, _)| *k).collect::<BTreeSet<u8>>()
                && gm.iter().all(|(_, g)| well_keyed(g, mask))
        }
    }
}

// ------------------------------------------------------------------------------- real gain types

type BoxFT = Box<dyn Fn(&Transducer) -> Drive + Send + Sync>;
type BoxF = Box<dyn Fn(&Device) -> BoxFT + Send + Sync>;
type Cus = Custom<'static, BoxFT, BoxF>;
type BoxFK = Box<dyn Fn(&Transducer) -> Option<u8> + Send + Sync>;
type BoxFD = Box<dyn Fn(&Device) -> BoxFK + Send + Sync>;
type Grp<G> = Group<u8, BoxFK, BoxFD, G>;

fn custom(salt: u32) -> Cus {
    Custom::new(Box::new(move |dev: &Device| {
        let d = dev.idx();
        Box::new(move |tr: &Transducer| drv(salt, d, tr.idx())) as BoxFT
    }) as BoxF)
}

fn filter_str(filter: Option<&HashMap<usize, BitVec>>) -> String {
    match filter {
        None => "-".into(),
        Some(f) => {
            let sorted: BTreeMap<usize, String> =
                f.iter().map(|(d, b)| (*d, b.iter().map(|x| if x { '1' } else { '0' }).collect())).collect();
            sorted.iter().map(|(d, b)| format!("d{d}:{b}")).collect::<Vec<_>>().join(",")
        }
    }
}

type Log = Arc<Mutex<Vec<String>>>;

/// holo-style leaf (mirrored by `holoLeaf` in the model): honours the filter, tabulates enabled
/// devices only, `generate` consumes the entry; records the arguments `init_full` was given.
#[derive(Gain, Debug)]
struct HGain {
    salt: u32,
    log: Log,
}
struct HGen {
    data: HashMap<usize, Vec<Drive>>,
}
struct HCalc {
    row: Vec<Drive>,
}
impl GainCalculator for HCalc {
    fn calc(&self, tr: &Transducer) -> Drive {
        self.row[tr.idx()]
    }
}
impl GainCalculatorGenerator for HGen {
    type Calculator = HCalc;
    fn generate(&mut self, device: &Device) -> HCalc {
        HCalc { row: self.data.remove(&device.idx()).unwrap() }
    }
}
impl Gain for HGain {
    type G = HGen;
    fn init(self) -> Result<HGen, GainError> {
        unimplemented!()
    }
    fn init_full(
        self,
        geometry: &Geometry,
        filter: Option<&HashMap<usize, BitVec>>,
        parallel: bool,
    ) -> Result<HGen, GainError> {
        self.log.lock().unwrap().push(format!("H{}@{}:{}", self.salt, parallel as u8, filter_str(filter)));
        let salt = self.salt;
        Ok(HGen {
            data: geometry
                .devices()
                .map(|dev| {
                    (
                        dev.idx(),
                        dev.iter()
                            .map(|tr| {
                                let inside = match filter {
                                    None => true,
                                    Some(f) => f.get(&dev.idx()).and_then(|b| b.get(tr.idx())).unwrap_or(false),
                                };
                                if inside { drv(salt, dev.idx(), tr.idx()) } else { Drive::NULL }
                            })
                            .collect(),
                    )
                })
                .collect(),
        })
    }
}

/// a gain whose `init` fails
#[derive(Gain, Debug)]
struct EGain {
    salt: u32,
}
impl Gain for EGain {
    type G = HGen;
    fn init(self) -> Result<HGen, GainError> {
        Err(GainError::new(format!("leaf {} failed", self.salt)))
    }
}

struct Cx {
    pool: HashMap<u32, Box<dyn Any>>,
    log: Log,
}

trait Build: Gain + DatagramS<G = GainOperationGenerator<<Self as Gain>::G>, Error = GainError> + Sized + 'static {
    fn sk() -> Sk;
    fn matches(n: &Node) -> bool;
    fn build(n: &Node, cx: &mut Cx) -> Self;
}
impl Build for Cus {
    fn sk() -> Sk {
        Sk::L
    }
    fn matches(n: &Node) -> bool {
        matches!(n, Node::L(_))
    }
    fn build(n: &Node, _: &mut Cx) -> Self {
        let Node::L(s) = n else { unreachable!() };
        custom(*s)
    }
}
impl Build for HGain {
    fn sk() -> Sk {
        Sk::H
    }
    fn matches(n: &Node) -> bool {
        matches!(n, Node::H(_))
    }
    fn build(n: &Node, cx: &mut Cx) -> Self {
        let Node::H(s) = n else { unreachable!() };
        HGain { salt: *s, log: cx.log.clone() }
    }
}
impl Build for EGain {
    fn sk() -> Sk {
        Sk::E
    }
    fn matches(n: &Node) -> bool {
        matches!(n, Node::E(_))
    }
    fn build(n: &Node, _: &mut Cx) -> Self {
        let Node::E(s) = n else { unreachable!() };
        EGain { salt: *s }
    }
}
impl<G: Build> Build for Cache<G> {
    fn sk() -> Sk {
        Sk::C(Box::new(G::sk()))
    }
    fn matches(n: &Node) -> bool {
        matches!(n, Node::C(_, x) if G::matches(x))
    }
    fn build(n: &Node, cx: &mut Cx) -> Self {
        let Node::C(id, x) = n else { unreachable!() };
        if let Some(c) = cx.pool.get(id) {
            // a clone of the same cache (shares `gain` and `cache`)
            return c.downcast_ref::<Cache<G>>().expect("cache id reused with another type").clone();
        }
        let c = Cache::new(G::build(x, cx));
        cx.pool.insert(*id, Box::new(c.clone()));
        c
    }
}
impl<G: Build> Build for Grp<G> {
    fn sk() -> Sk {
        Sk::G(Box::new(G::sk()))
    }
    fn matches(n: &Node) -> bool {
        matches!(n, Node::G(_, gm) if gm.iter().all(|(_, g)| G::matches(g)))
    }
    fn build(n: &Node, cx: &mut Cx) -> Self {
        let Node::G(km, gm) = n else { unreachable!() };
        let km = km.clone();
        let key_map: BoxFD = Box::new(move |dev: &Device| {
            let row = km[dev.idx()].clone();
            Box::new(move |tr: &Transducer| row[tr.idx()]) as BoxFK
        });
        Group::new(key_map, gm.iter().map(|(k, g)| (*k, G::build(g, cx))).collect())
    }
}
/// `B(x)`: `x.into_boxed()` with `x` a leaf, another box, or a group of boxes
impl Build for BoxedGain {
    fn sk() -> Sk {
        Sk::D
    }
    fn matches(n: &Node) -> bool {
        match n {
            Node::B(x) => match &**x {
                Node::L(_) | Node::H(_) | Node::E(_) => true,
                Node::B(_) => BoxedGain::matches(x),
                Node::G(..) => Grp::<BoxedGain>::matches(x),
                Node::C(..) => false,
            },
            _ => false,
        }
    }
    fn build(n: &Node, cx: &mut Cx) -> Self {
        let Node::B(x) = n else { unreachable!() };
        match &**x {
            Node::L(_) => Cus::build(x, cx).into_boxed(),
            Node::H(_) => HGain::build(x, cx).into_boxed(),
            Node::E(_) => EGain::build(x, cx).into_boxed(),
            Node::B(_) => BoxedGain::build(x, cx).into_boxed(),
            Node::G(..) => Grp::<BoxedGain>::build(x, cx).into_boxed(),
            Node::C(..) => unreachable!(),
        }
    }
}

type Wrap = Option<(Segment, Option<TransitionMode>)>;

fn do_send<D>(
    cpus: &mut [CPUEmulator],
    d: D,
    geometry: &Geometry,
    tx: &mut [TxMessage],
    par: bool,
) -> Result<(), AUTDDriverError>
where
    D: Datagram,
    AUTDDriverError: From<D::Error>,
    D::G: OperationGenerator,
    AUTDDriverError: From<<<D::G as OperationGenerator>::O1 as Operation>::Error>
        + From<<<D::G as OperationGenerator>::O2 as Operation>::Error>,
{
    let generator = d.operation_generator(geometry, par)?;
    let mut op = OperationHandler::generate(generator, geometry);
    loop {
        if OperationHandler::is_done(&op) {
            break;
        }
        OperationHandler::pack(&mut op, geometry, tx, false)?;
        for (cpu, dev) in cpus.iter_mut().zip(geometry.iter()) {
            if dev.enable {
                cpu.send(tx);
                if (cpu.rx().ack() & ERR_BIT) == ERR_BIT {
                    return Err(AUTDDriverError::firmware_err(cpu.rx().ack()));
                }
            }
        }
    }
    Ok(())
}

fn run_typed<G: Build>(n: &Node, wrap: Wrap, par: bool, env: &mut Env) -> Result<(), AUTDDriverError> {
    let g = G::build(n, &mut env.cx);
    match wrap {
        None => do_send(&mut env.cpus, g, &env.geometry, &mut env.tx, par),
        Some((segment, transition_mode)) => do_send(
            &mut env.cpus,
            WithSegment { inner: g, segment, transition_mode },
            &env.geometry,
            &mut env.tx,
            par,
        ),
    }
}

macro_rules! dispatch {
    ($sk:expr, $n:expr, $wrap:expr, $par:expr, $env:expr; $($t:ty),* $(,)?) => {{
        $( if <$t as Build>::sk() == *$sk {
            assert!(<$t as Build>::matches($n), "harness: tree does not have the announced shape");
            return Some(run_typed::<$t>($n, $wrap, $par, $env));
        } )*
        None
    }};
}

/// the statically typed shapes; `sk` selects the type (an empty group alone does not determine it)
fn run_node(sk: &Sk, n: &Node, wrap: Wrap, par: bool, env: &mut Env) -> Option<Result<(), AUTDDriverError>> {
    type D = BoxedGain;
    dispatch!(sk, n, wrap, par, env;
        Cus, HGain, EGain, D,
        Cache<Cus>, Cache<HGain>, Cache<EGain>, Cache<D>,
        Cache<Cache<Cus>>, Cache<Cache<Cache<Cus>>>,
        Cache<Grp<Cus>>, Cache<Grp<HGain>>, Cache<Grp<D>>,
        Cache<Grp<Cache<Cus>>>, Cache<Grp<Cache<HGain>>>, Cache<Grp<Cache<D>>>,
        Cache<Cache<Grp<Cus>>>, Cache<Grp<Grp<Cus>>>,
        Grp<Cus>, Grp<HGain>, Grp<D>,
        Grp<Cache<Cus>>, Grp<Cache<HGain>>, Grp<Cache<EGain>>, Grp<Cache<D>>,
        Grp<Grp<Cus>>, Grp<Grp<HGain>>, Grp<Grp<D>>,
        Grp<Cache<Cache<Cus>>>, Grp<Cache<Grp<Cus>>>, Grp<Cache<Grp<D>>>,
        Grp<Grp<Cache<Cus>>>, Grp<Grp<Cache<D>>>, Grp<Grp<Grp<Cus>>>,
    )
}

// ---------------------------------------------------------------------------------- one history

struct CacheInfo {
    first_mask: Option<Vec<bool>>,
    poisoned: bool,
    inner: Node,
    /// the root tree it was first initialised in (for caches whose content depends on the filter)
    root_sig: String,
    sk: Sk,
}

struct Env {
    dims: Vec<usize>,
    geometry: Geometry,
    cpus: Vec<CPUEmulator>,
    tx: Vec<TxMessage>,
    cx: Cx,
    info: BTreeMap<u32, CacheInfo>,
    replay: Vec<String>,
    dead: bool,
    next_id: u32,
    next_salt: u32,
}

fn start(out: &mut Out, dims: &[usize]) -> Env {
    let geometry = Geometry::new(
        dims.iter()
            .map(|&n| {
                Device::new(
                    UnitQuaternion::identity(),
                    (0..n).map(|i| Transducer::new(Point3::new(i as f32, 0., 0.))).collect(),
                )
            })
            .collect(),
    );
    let line = format!("geo {}", dims.iter().map(|n| n.to_string()).collect::<Vec<_>>().join(" "));
    out.line(&line, "ok");
    Env {
        dims: dims.to_vec(),
        cpus: dims.iter().enumerate().map(|(i, &n)| CPUEmulator::new(i, n)).collect(),
        tx: vec![TxMessage::new_zeroed(); dims.len()],
        geometry,
        cx: Cx { pool: HashMap::new(), log: Arc::new(Mutex::new(vec![])) },
        info: BTreeMap::new(),
        replay: vec![line],
        dead: false,
        next_id: 1,
        next_salt: 1,
    }
}

fn wrap_str(w: Wrap) -> &'static str {
    match w {
        None => "-",
        Some((Segment::S0, None)) => "0",
        Some((Segment::S1, None)) => "1",
        Some((Segment::S0, Some(_))) => "0i",
        Some((Segment::S1, Some(_))) => "1i",
    }
}

fn mask_str(m: &[bool]) -> String {
    m.iter().map(|&b| if b { '1' } else { '0' }).collect()
}

#[derive(PartialEq, Clone, Copy, Debug)]
enum Expect {
    /// well keyed, caches fresh or valid for this mask: must be `Ok` with exactly the spec drives
    OkDen,
    /// mismatched keys / failing leaf / cache of another mask: must be `Err`
    MustErr,
    /// only: must not panic
    NoPanic,
}

/// one `send`: writes the op line with the implementation's answer, runs the oracle, updates the
/// cache bookkeeping.  Returns the answer.
fn send(out: &mut Out, env: &mut Env, wrap: Wrap, par: bool, mask: &[bool], node: &Node, tag: &str) -> String {
    let sk = Sk::of(node);
    send_sk(out, env, wrap, par, mask, node, &sk, tag)
}

/// skeleton of every cache node of a tree of skeleton `sk`
fn cache_sks(n: &Node, sk: &Sk, out: &mut BTreeMap<u32, Sk>) {
    match (n, sk) {
        (Node::C(id, x), Sk::C(s)) => {
            out.insert(*id, sk.clone());
            cache_sks(x, s, out)
        }
        (Node::G(_, gm), Sk::G(s)) => gm.iter().for_each(|(_, g)| cache_sks(g, s, out)),
        _ => {}
    }
}

#[allow(clippy::too_many_arguments)]
fn send_sk(out: &mut Out, env: &mut Env, wrap: Wrap, par: bool, mask: &[bool], node: &Node, sk: &Sk, tag: &str) -> String {
    if env.dead {
        // a panic ended this history (emulators and shared caches are in an unknown state)
        return "dead".into();
    }
    for (dev, &e) in env.geometry.iter_mut().zip(mask) {
        dev.enable = e;
    }
    let op = format!("send {} {} {} {}", wrap_str(wrap), par as u8, mask_str(mask), node.show());
    env.replay.push(op.clone());
    // ---- expectation from the bookkeeping (before the send)
    let mut caches = vec![];
    node.caches(&mut caches);
    let root_sig = node.show();
    let mut cache_ok = true;
    let mut cache_known = true;
    for (id, inner) in &caches {
        if let Some(ci) = env.info.get(id) {
            assert!(ci.inner == *inner, "cache id {id} reused with a different inner gain");
            if ci.poisoned {
                cache_known = false;
            } else if let Some(m) = &ci.first_mask {
                if m != mask {
                    cache_ok = false;
                }
                if !inner.filter_free() && ci.root_sig != root_sig {
                    cache_known = false;
                }
            }
        }
    }
    let wk = well_keyed(node, mask);
    let expect = if !cache_known {
        Expect::NoPanic
    } else if wk && cache_ok {
        Expect::OkDen
    } else {
        Expect::MustErr
    };
    // ---- the real thing
    env.cx.log.lock().unwrap().clear();
    let target = match wrap {
        None => Segment::S0,
        Some((s, _)) => s,
    };
    let res = guarded(|| run_node(sk, node, wrap, par, env));
    let (answer, kind): (String, &str) = match &res {
        Err(_) => ("panic".into(), "panic"),
        Ok(None) => panic!("harness: no static type for tree {}", node.show()),
        Ok(Some(Err(e))) => {
            let msg = e.to_string();
            if msg.contains("Unknown group key") {
                ("err unknown-key".into(), "err:unknown-key")
            } else if let Some(rest) = msg.strip_prefix("Unused group keys: ") {
                let mut ks: Vec<u32> = rest.split(", ").filter_map(|s| s.trim().parse().ok()).collect();
                ks.sort();
                (
                    format!("err unused-keys {}", ks.iter().map(|k| k.to_string()).collect::<Vec<_>>().join(",")),
                    "err:unused-keys",
                )
            } else if msg.contains("Cache is initialized with different geometry") {
                ("err cache-geometry".into(), "err:cache-geometry")
            } else if msg.contains("leaf") {
                ("err leaf".into(), "err:leaf")
            } else {
                (format!("err other {msg}"), "err:other")
            }
        }
        Ok(Some(Ok(()))) => {
            let tm = match wrap {
                None | Some((_, Some(_))) => "i",
                Some((_, None)) => "-",
            };
            let mut s = format!("ok seg={} tm={tm}", target as u8);
            for (i, cpu) in env.cpus.iter().enumerate() {
                if mask[i] {
                    let ds = cpu.fpga().drives_at(target, 0);
                    let bytes: Vec<u8> = ds.iter().flat_map(|d| [d.phase.0, d.intensity.0]).collect();
                    s.push_str(&format!(" d{i}={}@{}", hex(&bytes), cpu.fpga().req_stm_segment() as u8));
                }
            }
            let mut log = env.cx.log.lock().unwrap().clone();
            log.sort();
            for l in log {
                s.push(' ');
                s.push_str(&l);
            }
            (s, "ok")
        }
    };
    out.line(&op, &answer);
    out.count(&format!("outcome:{kind}"));
    out.count(&format!("expect:{expect:?}"));
    out.count(&format!("disabled-devices:{}", mask.iter().filter(|e| !**e).count()));
    out.count(&format!("wrap:{}", wrap_str(wrap)));
    out.count(&format!("depth:{}", node.depth()));
    let shape = node.shape();
    let nontrivial = node.depth() > 0 && (kind != "ok" || mask.iter().any(|e| *e));
    out.case(if nontrivial {
        Some(fnv64(format!("{shape}|{}|{kind}|{}|{:?}", mask_str(mask), wrap_str(wrap), env.dims).as_bytes()))
    } else {
        None
    });
    // ---- oracle: the property on the implementation
    let keybase = format!("{shape}:mask={}:{tag}", mask_str(mask));
    match (&res, expect) {
        (Err(p), _) => out.violation(
            format!("wrappers:panic:{keybase}"),
            format!("panic ({p}) instead of drives or an error, sending {} with enable mask {}", node.show(), mask_str(mask)),
            env.replay.clone(),
        ),
        (Ok(Some(Ok(()))), Expect::OkDen) => {
            'outer: for (i, cpu) in env.cpus.iter().enumerate() {
                if !mask[i] {
                    continue;
                }
                let ds = cpu.fpga().drives_at(target, 0);
                for t in 0..env.dims[i] {
                    let want = den(node, i, t);
                    if ds[t] != want {
                        out.violation(
                            format!("wrappers:drives:{keybase}"),
                            format!(
                                "device {i} transducer {t} holds {:?} but the gain selected for it computes {:?} (tree {}, mask {})",
                                ds[t], want, node.show(), mask_str(mask)
                            ),
                            env.replay.clone(),
                        );
                        break 'outer;
                    }
                }
            }
        }
        (Ok(Some(Err(e))), Expect::OkDen) => out.violation(
            format!("wrappers:spurious-error:{keybase}"),
            format!("`{e}` for a well-keyed tree {} with mask {}", node.show(), mask_str(mask)),
            env.replay.clone(),
        ),
        (Ok(Some(Ok(()))), Expect::MustErr) => out.violation(
            format!("wrappers:accepted-mismatch:{keybase}"),
            format!("Ok for mismatched keys / failing inner gain / cache of another geometry: {} mask {}", node.show(), mask_str(mask)),
            env.replay.clone(),
        ),
        _ => {}
    }
    // the key named by "Unknown group key" must be one a key map uses and a gain map lacks
    if let Ok(Some(Err(e))) = &res {
        let msg = e.to_string();
        if let Some(k) = msg.strip_prefix("Unknown group key: ").and_then(|s| s.trim().parse::<u8>().ok()) {
            fn unknown_somewhere(n: &Node, mask: &[bool], k: u8) -> bool {
                match n {
                    Node::B(x) | Node::C(_, x) => unknown_somewhere(x, mask, k),
                    Node::G(km, gm) => {
                        (used_keys(km, mask).contains(&k) && !gm.iter().any(|(kk, _)| *kk == k))
                            || gm.iter().any(|(_, g)| unknown_somewhere(g, mask, k))
                    }
                    _ => false,
                }
            }
            if !unknown_somewhere(node, mask, k) {
                out.violation(
                    format!("wrappers:wrong-unknown-key:{keybase}"),
                    format!("reports unknown key {k}, which no group of {} lacks", node.show()),
                    env.replay.clone(),
                );
            }
        }
    }
    // ---- bookkeeping
    let ok = matches!(res, Ok(Some(Ok(()))));
    let mut sks = BTreeMap::new();
    cache_sks(node, sk, &mut sks);
    for (id, inner) in caches {
        let sk = sks[&id].clone();
        let ci = env.info.entry(id).or_insert(CacheInfo {
            first_mask: None,
            poisoned: false,
            inner,
            root_sig: root_sig.clone(),
            sk,
        });
        if ci.first_mask.is_none() {
            if ok {
                ci.first_mask = Some(mask.to_vec());
                ci.root_sig = root_sig.clone();
            } else {
                ci.poisoned = true;
            }
        }
    }
    if res.is_err() {
        env.dead = true;
    }
    answer
}

// ------------------------------------------------------------------------------------ generators

/// shape skeletons: what the statically typed dispatch list can build
#[derive(Clone, PartialEq, Debug)]
enum Sk {
    L,
    H,
    E,
    /// cache-free subtree through `BoxedGain`
    D,
    C(Box<Sk>),
    G(Box<Sk>),
}

impl Sk {
    fn of(n: &Node) -> Sk {
        match n {
            Node::L(_) => Sk::L,
            Node::H(_) => Sk::H,
            Node::E(_) => Sk::E,
            Node::B(_) => Sk::D,
            Node::C(_, x) => Sk::C(Box::new(Sk::of(x))),
            Node::G(_, gm) => Sk::G(Box::new(gm.first().map(|(_, g)| Sk::of(g)).unwrap_or(Sk::L))),
        }
    }
    fn name(&self) -> String {
        match self {
            Sk::L => "L".into(),
            Sk::H => "H".into(),
            Sk::E => "E".into(),
            Sk::D => "D".into(),
            Sk::C(x) => format!("C({})", x.name()),
            Sk::G(x) => format!("G{{{}}}", x.name()),
        }
    }
}

fn c(x: Sk) -> Sk {
    Sk::C(Box::new(x))
}
fn g(x: Sk) -> Sk {
    Sk::G(Box::new(x))
}

/// all shapes of `run_node` except the failing-leaf ones
fn catalogue() -> Vec<Sk> {
    use Sk::*;
    vec![
        L, H, D,
        c(L), c(H), c(D), c(c(L)), c(c(c(L))),
        c(g(L)), c(g(H)), c(g(D)), c(g(c(L))), c(g(c(H))), c(g(c(D))), c(c(g(L))), c(g(g(L))),
        g(L), g(H), g(D),
        g(c(L)), g(c(H)), g(c(D)),
        g(g(L)), g(g(H)), g(g(D)),
        g(c(c(L))), g(c(g(L))), g(c(g(D))), g(g(c(L))), g(g(c(D))), g(g(g(L))),
    ]
}

#[derive(Clone, Copy, PartialEq, Debug)]
enum Plant {
    Unknown,
    Unused,
    Both,
    LeafErr,
}

struct Filler<'a> {
    rng: &'a mut Rng,
    mask: Vec<bool>,
    dims: Vec<usize>,
    /// plant at the n-th eligible site
    plant: Option<(Plant, u32)>,
    planted: bool,
    /// reuse caches of the history (same skeleton, valid for this mask, filter independent)
    reuse: bool,
    used_ids: BTreeSet<u32>,
}

fn gen_km(rng: &mut Rng, dims: &[usize]) -> Km {
    let nk = rng.range(1, 4) as usize;
    let mut alphabet: Vec<u8> = vec![];
    while alphabet.len() < nk {
        let k = if rng.chance(3, 4) { rng.below(6) as u8 + 10 } else { rng.below(36) as u8 };
        if !alphabet.contains(&k) {
            alphabet.push(k);
        }
    }
    let style = rng.below(6);
    let mut km: Km = dims.iter().map(|&n| vec![None; n]).collect();
    match style {
        0 | 1 => {
            // independent cells, some without key
            for row in km.iter_mut() {
                for cell in row.iter_mut() {
                    if !rng.chance(1, 4) {
                        *cell = Some(*rng.pick(&alphabet));
                    }
                }
            }
        }
        2 => {
            // one key (or none) per device: every key is absent on the other devices
            for row in km.iter_mut() {
                let k = if rng.chance(1, 5) { None } else { Some(*rng.pick(&alphabet)) };
                row.iter_mut().for_each(|cell| *cell = k);
            }
        }
        3 => {
            // single-transducer groups on a background of no key / one key
            let bg = if rng.chance(1, 2) { None } else { Some(alphabet[0]) };
            for row in km.iter_mut() {
                row.iter_mut().for_each(|cell| *cell = bg);
            }
            for &k in alphabet.iter().skip(1) {
                let d = rng.below(dims.len() as u64) as usize;
                let t = rng.below(dims[d] as u64) as usize;
                km[d][t] = Some(k);
            }
        }
        4 => {
            // split by transducer index (like the doc example), same on every device
            for row in km.iter_mut() {
                let n = row.len();
                for (t, cell) in row.iter_mut().enumerate() {
                    *cell = Some(alphabet[(t * alphabet.len()) / n.max(1)]);
                }
            }
        }
        _ => {
            // everything under one key
            for row in km.iter_mut() {
                row.iter_mut().for_each(|cell| *cell = Some(alphabet[0]));
            }
        }
    }
    km
}

impl Filler<'_> {
    fn salt(&mut self, env: &mut Env) -> u32 {
        env.next_salt += 1 + self.rng.below(3) as u32;
        env.next_salt
    }
    fn plant_here(&mut self, kinds: &[Plant]) -> Option<Plant> {
        if self.planted {
            return None;
        }
        if let Some((p, n)) = self.plant {
            if kinds.contains(&p) {
                if n == 0 {
                    self.planted = true;
                    return Some(p);
                }
                self.plant = Some((p, n - 1));
            }
        }
        None
    }
    fn group(&mut self, env: &mut Env, child: &dyn Fn(&mut Self, &mut Env) -> Node) -> Node {
        let km = gen_km(self.rng, &self.dims);
        let used = used_keys(&km, &self.mask);
        let mut keys: Vec<u8> = used.iter().copied().collect();
        match self.plant_here(&[Plant::Unknown, Plant::Unused, Plant::Both]) {
            None => {}
            Some(p) => {
                if (p == Plant::Unknown || p == Plant::Both) && !keys.is_empty() {
                    let i = self.rng.below(keys.len() as u64) as usize;
                    keys.remove(i);
                }
                if p == Plant::Unused || p == Plant::Both {
                    // prefer a key the map uses on a disabled device only; else one it never uses
                    let all: BTreeSet<u8> = used_keys(&km, &vec![true; self.dims.len()]);
                    let only_disabled: Vec<u8> = all.difference(&used).copied().collect();
                    let k = if !only_disabled.is_empty() && self.rng.chance(2, 3) {
                        *self.rng.pick(&only_disabled)
                    } else {
                        (0..36u8).find(|k| !all.contains(k)).unwrap()
                    };
                    keys.push(k);
                }
            }
        }
        // gain_map order is irrelevant (HashMap); shuffle what we print
        for i in (1..keys.len()).rev() {
            let j = self.rng.below(i as u64 + 1) as usize;
            keys.swap(i, j);
        }
        let gm = keys.into_iter().map(|k| (k, child(self, env))).collect();
        Node::G(Arc::new(km), gm)
    }
    /// cache-free subtree built through `BoxedGain`: `B(leaf | B(..) | G{B(..)…})`
    fn dynamic(&mut self, env: &mut Env, depth: u32) -> Node {
        let pick = if depth == 0 { self.rng.below(2) } else { self.rng.below(5) };
        let inner = match pick {
            0 => {
                if self.plant_here(&[Plant::LeafErr]).is_some() {
                    Node::E(self.salt(env))
                } else {
                    Node::L(self.salt(env))
                }
            }
            1 => Node::H(self.salt(env)),
            2 => self.dynamic(env, depth - 1),
            _ => self.group(env, &|f, env| f.dynamic(env, depth - 1)),
        };
        Node::B(Box::new(inner))
    }
    fn fill(&mut self, env: &mut Env, sk: &Sk) -> Node {
        match sk {
            Sk::L => Node::L(self.salt(env)),
            Sk::H => Node::H(self.salt(env)),
            Sk::E => Node::E(self.salt(env)),
            Sk::D => self.dynamic(env, 2),
            Sk::C(x) => {
                if self.reuse && self.rng.chance(1, 2) {
                    let me = Sk::C(x.clone());
                    let cands: Vec<u32> = env
                        .info
                        .iter()
                        .filter(|(id, ci)| {
                            ci.sk == me
                                && !ci.poisoned
                                && ci.first_mask.as_deref() == Some(&self.mask[..])
                                && ci.inner.filter_free()
                                && !self.used_ids.contains(id)
                                && well_keyed(&ci.inner, &self.mask)
                        })
                        .map(|(id, _)| *id)
                        .collect();
                    if !cands.is_empty() {
                        let id = *self.rng.pick(&cands);
                        let mut inner_ids = vec![];
                        env.info[&id].inner.caches(&mut inner_ids);
                        if inner_ids.iter().all(|(i, _)| !self.used_ids.contains(i)) {
                            self.used_ids.insert(id);
                            return Node::C(id, Box::new(env.info[&id].inner.clone()));
                        }
                    }
                }
                let inner = self.fill(env, x);
                let id = env.next_id;
                env.next_id += 1;
                self.used_ids.insert(id);
                Node::C(id, Box::new(inner))
            }
            Sk::G(x) => {
                let x = (**x).clone();
                self.group(env, &move |f, env| f.fill(env, &x))
            }
        }
    }
}

fn all_masks(n: usize) -> Vec<Vec<bool>> {
    (0..(1u32 << n)).rev().map(|m| (0..n).map(|i| (m >> i) & 1 == 1).collect()).collect()
}

fn pick_dims(rng: &mut Rng, n: usize, allow_full: bool) -> Vec<usize> {
    if allow_full && rng.chance(1, 14) {
        return vec![249; n];
    }
    let same = rng.chance(1, 3);
    let base = *rng.pick(&[1usize, 2, 3, 4, 5, 8]);
    (0..n).map(|_| if same { base } else { *rng.pick(&[1usize, 2, 3, 4, 5, 8]) }).collect()
}

fn pick_wrap(rng: &mut Rng) -> Wrap {
    match rng.below(8) {
        0 => Some((Segment::S0, None)),
        1 => Some((Segment::S1, None)),
        2 => Some((Segment::S0, Some(TransitionMode::Immediate))),
        3 => Some((Segment::S1, Some(TransitionMode::Immediate))),
        _ => None,
    }
}

fn parse_km(rows: &[&str]) -> Arc<Km> {
    Arc::new(
        rows.iter()
            .map(|r| {
                r.chars()
                    .map(|ch| match ch {
                        '.' => None,
                        '0'..='9' => Some(ch as u8 - b'0'),
                        _ => Some(ch as u8 - b'a' + 10),
                    })
                    .collect()
            })
            .collect(),
    )
}

fn grp(rows: &[&str], gm: Vec<(char, Node)>) -> Node {
    Node::G(parse_km(rows), gm.into_iter().map(|(k, n)| (if k.is_ascii_digit() { k as u8 - b'0' } else { k as u8 - b'a' + 10 }, n)).collect())
}
fn cache(id: u32, n: Node) -> Node {
    Node::C(id, Box::new(n))
}
fn boxed(n: Node) -> Node {
    Node::B(Box::new(n))
}

fn m(s: &str) -> Vec<bool> {
    s.chars().map(|ch| ch == '1').collect()
}

/// DESIGN §6 F13 witnesses and the other hand-picked histories; always first, stable keys
fn corpus(out: &mut Out) {
    use Node::*;
    // F13: Group{Cache(..)} with a device disabled
    for mask in ["01", "10", "11", "00"] {
        let mut env = start(out, &[3, 3]);
        let t = grp(&["aaa", "aaa"], vec![('a', cache(1, L(1)))]);
        send(out, &mut env, None, false, &m(mask), &t, "F13-group-cache");
        if !env.dead {
            send(out, &mut env, None, false, &m(mask), &t, "F13-group-cache-again");
        }
    }
    // F13: nested Group with a device disabled
    for mask in ["01", "10", "11"] {
        let mut env = start(out, &[3, 3]);
        let t = grp(&["aab", "aab"], vec![('a', grp(&["ab.", "ab."], vec![('a', L(1)), ('b', L(2))])), ('b', grp(&["..c", "..c"], vec![('c', L(3))]))]);
        send(out, &mut env, None, false, &m(mask), &t, "F13-nested-group");
    }
    // Group over a holo-style gain (calculators exist for enabled devices only)
    for mask in ["011", "101", "110", "100"] {
        let mut env = start(out, &[2, 3, 2]);
        let t = grp(&["ab", "a.b", "bb"], vec![('a', H(4)), ('b', H(5))]);
        send(out, &mut env, Some((Segment::S1, Some(TransitionMode::Immediate))), true, &m(mask), &t, "group-holo");
    }
    // Cache{Group{Cache}} and boxed groups with disabled devices, repeated
    {
        let mut env = start(out, &[2, 2, 2, 2]);
        let t = cache(9, grp(&["ab", "ab", "..", "b."], vec![('a', cache(1, L(7))), ('b', cache(2, L(8)))]));
        for _ in 0..3 {
            if !env.dead {
                send(out, &mut env, None, false, &m("1011"), &t, "cache-group-cache");
            }
        }
        if !env.dead {
            let t2 = grp(&["cc", "cc", "cc", "cc"], vec![('c', cache(1, L(7)))]);
            send(out, &mut env, None, false, &m("1011"), &t2, "inner-cache-reused");
        }
    }
    {
        let mut env = start(out, &[3, 1]);
        let t = boxed(grp(&["a.b", "b"], vec![('a', boxed(boxed(H(3)))), ('b', boxed(grp(&["xyx", "."], vec![('x', boxed(L(1))), ('y', boxed(H(2)))])))]));
        send(out, &mut env, None, false, &m("11"), &t, "boxed-groups");
        send(out, &mut env, None, true, &m("10"), &t, "boxed-groups");
        let t = boxed(grp(&["a.b", "b"], vec![('a', boxed(boxed(H(3)))), ('b', boxed(grp(&["xyx", "x"], vec![('x', boxed(L(1))), ('y', boxed(H(2)))])))]));
        send(out, &mut env, Some((Segment::S1, None)), false, &m("01"), &t, "boxed-groups");
    }
    // mismatched keys
    {
        let mut env = start(out, &[3, 3]);
        // unknown key b
        send(out, &mut env, None, false, &m("11"), &grp(&["ab.", "a.a"], vec![('a', L(3))]), "unknown-key");
        // unused keys b (empty group), c
        send(out, &mut env, None, false, &m("11"), &grp(&["a..", "a.a"], vec![('a', L(3)), ('b', L(4)), ('c', L(1))]), "unused-keys");
        // both: the unknown key is reported
        send(out, &mut env, None, false, &m("11"), &grp(&["ab.", "a.a"], vec![('a', L(3)), ('c', L(1))]), "unknown-and-unused");
        // key b lives on the disabled device only: it counts as unused
        send(out, &mut env, None, false, &m("01"), &grp(&["ab.", "a.a"], vec![('a', L(3)), ('b', L(5))]), "key-on-disabled-device");
        send(out, &mut env, None, false, &m("01"), &grp(&["ab.", "a.a"], vec![('a', L(3))]), "key-on-disabled-device-ok");
        // empty key map, empty gain map; empty key map, one gain
        send(out, &mut env, None, false, &m("11"), &grp(&["...", "..."], vec![]), "no-keys");
        send(out, &mut env, None, false, &m("11"), &grp(&["...", "..."], vec![('a', L(1))]), "no-keys-one-gain");
        // nothing enabled
        send(out, &mut env, None, false, &m("00"), &grp(&["aaa", "bbb"], vec![]), "nothing-enabled");
        // inner group lacks a key
        send(out, &mut env, None, false, &m("11"), &grp(&["aaa", "aaa"], vec![('a', grp(&["xy.", "x.."], vec![('x', L(1))]))]), "inner-unknown-key");
        send(out, &mut env, None, false, &m("11"), &grp(&["aaa", "aaa"], vec![('a', cache(1, grp(&["xy.", "x.."], vec![('x', L(1)), ('y', L(2)), ('z', L(3))])))]), "inner-unused-key");
    }
    // a cache whose first initialisation failed has lost its gain
    {
        let mut env = start(out, &[2, 2]);
        let t = cache(1, E(5));
        send(out, &mut env, None, false, &m("11"), &t, "cache-of-failing-gain");
        send(out, &mut env, None, false, &m("11"), &t, "cache-of-failing-gain-again");
        send(out, &mut env, None, false, &m("00"), &t, "cache-of-failing-gain-nothing-enabled");
        let t = cache(2, grp(&["ab", "aa"], vec![('a', L(1))]));
        send(out, &mut env, None, false, &m("11"), &t, "cache-of-mismatched-group");
        send(out, &mut env, None, false, &m("11"), &t, "cache-of-mismatched-group-again");
        let t = grp(&["aa", "aa"], vec![('a', cache(3, E(6)))]);
        send(out, &mut env, None, false, &m("11"), &t, "group-cache-of-failing-gain");
        send(out, &mut env, None, false, &m("11"), &t, "group-cache-of-failing-gain-again");
    }
    // a cache is bound to the enable mask it was first used with
    {
        let mut env = start(out, &[2, 2, 2]);
        let t = cache(1, L(9));
        send(out, &mut env, None, false, &m("110"), &t, "cache-mask");
        send(out, &mut env, None, false, &m("111"), &t, "cache-mask-grown");
        send(out, &mut env, None, false, &m("100"), &t, "cache-mask-shrunk");
        send(out, &mut env, None, false, &m("101"), &t, "cache-mask-moved");
        send(out, &mut env, Some((Segment::S1, None)), false, &m("110"), &t, "cache-mask-back");
        let t2 = grp(&["aa", "aa", "aa"], vec![('a', cache(1, L(9)))]);
        send(out, &mut env, None, false, &m("110"), &t2, "cache-mask-back-in-group");
        send(out, &mut env, None, false, &m("011"), &t2, "cache-mask-moved-in-group");
    }
    // the same cache under two keys; cache of cache
    {
        let mut env = start(out, &[4, 2]);
        let t = grp(&["abab", "ba"], vec![('a', cache(1, L(2))), ('b', cache(1, L(2)))]);
        send(out, &mut env, None, false, &m("11"), &t, "shared-cache");
        send(out, &mut env, None, false, &m("11"), &t, "shared-cache");
        let t = cache(3, cache(2, cache(1, L(2))));
        send(out, &mut env, None, false, &m("11"), &t, "cache-cache-cache");
        let t = cache(5, cache(4, grp(&["abab", "ba"], vec![('a', L(1)), ('b', L(2))])));
        send(out, &mut env, None, false, &m("01"), &t, "cache-cache-group");
        send(out, &mut env, None, false, &m("01"), &t, "cache-cache-group");
    }
    // a cached holo-style gain keeps the filter of its first use
    {
        let mut env = start(out, &[3, 3]);
        let t = grp(&["ab.", "aab"], vec![('a', cache(1, H(2))), ('b', cache(2, H(3)))]);
        send(out, &mut env, None, false, &m("11"), &t, "cached-holo");
        send(out, &mut env, None, true, &m("11"), &t, "cached-holo");
    }
    // real device size
    {
        let mut env = start(out, &[249, 249]);
        let rows: Vec<String> = (0..2).map(|d| (0..249).map(|t| if t < 100 { 'a' } else if (t + d) % 7 == 0 { '.' } else { 'b' }).collect()).collect();
        let rows: Vec<&str> = rows.iter().map(|s| s.as_str()).collect();
        let t = grp(&rows, vec![('a', cache(1, grp(&rows, vec![('a', L(1)), ('b', L(4))]))), ('b', cache(2, grp(&rows, vec![('a', L(2)), ('b', L(3))])))]);
        for mask in ["11", "11"] {
            if !env.dead {
                send(out, &mut env, None, false, &m(mask), &t, "autd3-size");
            }
        }
        let mut env = start(out, &[249, 249]);
        send(out, &mut env, None, false, &m("01"), &t, "autd3-size");
    }
}

pub fn run(args: &Args) {
    let mut out = Out::new(&args.out);
    let thorough = args.tier == "thorough";
    let mut rng = Rng::new(args.seed ^ 0xC14);

    corpus(&mut out);

    // ---- every shape × every enable mask of 1…4 devices: send, send again, send under another
    //      segment wrapper, then the caches inside another tree
    let fillings = if thorough { 24 } else { 3 };
    for sk in catalogue() {
        for n in 1..=4usize {
            for mask in all_masks(n) {
                for rep in 0..fillings {
                    let dims = pick_dims(&mut rng, n, rep == 3);
                    let mut env = start(&mut out, &dims);
                    let mut f = Filler { rng: &mut rng, mask: mask.clone(), dims: dims.clone(), plant: None, planted: false, reuse: false, used_ids: BTreeSet::new() };
                    let t = f.fill(&mut env, &sk);
                    let par = f.rng.chance(1, 2);
                    out.count(&format!("shape:{}", sk.name()));
                    send_sk(&mut out, &mut env, None, par, &mask, &t, &sk, "sweep");
                    if env.dead {
                        continue;
                    }
                    send_sk(&mut out, &mut env, pick_wrap(&mut rng), par, &mask, &t, &sk, "sweep-again");
                    if env.dead {
                        continue;
                    }
                    // the caches of this history inside a fresh tree of a random shape
                    let sk2 = rng.pick(&catalogue()).clone();
                    let mut f = Filler { rng: &mut rng, mask: mask.clone(), dims: dims.clone(), plant: None, planted: false, reuse: true, used_ids: BTreeSet::new() };
                    let t2 = f.fill(&mut env, &sk2);
                    send_sk(&mut out, &mut env, pick_wrap(&mut rng), par, &mask, &t2, &sk2, "sweep-reuse");
                }
            }
        }
    }

    // ---- random histories: clean sends, planted key mismatches / failing leaves, mask changes
    let histories = if thorough { 40000 } else { 3000 };
    let cat = catalogue();
    for _ in 0..histories {
        let n = rng.range(1, 4) as usize;
        let dims = pick_dims(&mut rng, n, true);
        let mut env = start(&mut out, &dims);
        let masks = all_masks(n);
        let mut mask = rng.pick(&masks).clone();
        if rng.chance(1, 3) {
            mask = vec![true; n];
        }
        let sends = rng.range(2, 7);
        for _ in 0..sends {
            if env.dead {
                break;
            }
            let mode = rng.below(10);
            let sk = if mode == 5 && rng.chance(1, 2) {
                rng.pick(&[Sk::E, c(Sk::E), g(c(Sk::E)), Sk::D, g(Sk::D), c(g(Sk::D))]).clone()
            } else {
                rng.pick(&cat).clone()
            };
            let plant = match mode {
                2 => Some(Plant::Unknown),
                3 => Some(Plant::Unused),
                4 => Some(Plant::Both),
                5 => Some(Plant::LeafErr),
                _ => None,
            };
            if mode == 6 {
                // change the mask and re-send something that holds a cache of the old mask
                let old = mask.clone();
                mask = rng.pick(&masks).clone();
                let cands: Vec<u32> = env
                    .info
                    .iter()
                    .filter(|(_, ci)| !ci.poisoned && ci.first_mask.as_ref() == Some(&old) && ci.inner.filter_free() && well_keyed(&ci.inner, &mask))
                    .map(|(id, _)| *id)
                    .collect();
                if let Some(&id) = cands.first() {
                    let node = Node::C(id, Box::new(env.info[&id].inner.clone()));
                    let sk = env.info[&id].sk.clone();
                    out.count(if old == mask { "mode:cache-resend-same-mask" } else { "mode:cache-resend-other-mask" });
                    send_sk(&mut out, &mut env, pick_wrap(&mut rng), false, &mask, &node, &sk, "mask-change");
                    continue;
                }
            }
            let mut f = Filler {
                rng: &mut rng,
                mask: mask.clone(),
                dims: dims.clone(),
                plant: plant.map(|p| (p, 0)),
                planted: false,
                reuse: plant.is_none(),
                used_ids: BTreeSet::new(),
            };
            if let Some((p, _)) = f.plant {
                f.plant = Some((p, f.rng.below(3) as u32));
            }
            let t = f.fill(&mut env, &sk);
            let planted = f.planted;
            let par = rng.chance(1, 2);
            out.count(&format!(
                "mode:{}",
                match (plant, planted) {
                    (Some(p), true) => format!("{p:?}").to_lowercase(),
                    (Some(_), false) => "clean(no-site)".into(),
                    (None, _) => "clean".into(),
                }
            ));
            out.count(&format!("shape:{}", sk.name()));
            send_sk(&mut out, &mut env, pick_wrap(&mut rng), par, &mask, &t, &sk, "random");
        }
    }
    out.sample("geo 3 3 / send - 0 01 G[aaa|aaa]{a:C1(L1)} / (again)".into());
    out.sample("geo 2 2 2 2 / send - 0 1011 C9(G[ab|ab|..|b.]{a:C1(L7),b:C2(L8)}) x3 / send - 0 1011 G[cc|cc|cc|cc]{c:C1(L7)}".into());
    out.sample("geo 3 1 / send 1 0 01 B(G[a.b|b]{a:B(B(H3)),b:B(G[xyx|x]{x:B(L1),y:B(H2)})})".into());
    out.finish(
        "wrappers",
        "a case is one send of a gain datagram; non-trivial = the tree has at least one wrapper and (some device is enabled or the outcome is an error); distinct by (tree shape without salts/ids/key maps, enable mask, outcome kind, segment wrapper, device sizes)",
    );
}
