//! `wrappers` stream (C14): trees of `Group` / `Cache` / `BoxedGain` (+ `WithSegment` at the root) over
//! identity-dependent leaf gains are built from op lines with the **real** types, sent through the
//! real driver to the firmware emulator, and the drives read back per enabled device.  The Lean
//! model (`Model/GainWrap.lean`) answers the same lines.  The oracle states the property on the
//! implementation: drives = what the leaf gains compute when called directly (selected by key,
//! `Drive::NULL` without key); mismatched keys give `Err`, never a panic.
//!
//! The harness is built with `autd3-driver/lightweight` on (pulled in by `autd3-protobuf`), where
//! `into_boxed` needs `Send + Sync`; `Cache` (an `Rc`) can therefore not be boxed here, and every
//! nesting that contains a `Cache` is exercised through statically typed shapes (`dispatch!`),
//! cache-free subtrees also through `BoxedGain` (shape `D`).
//!
//! Contexts of a tree (coverage review C14): besides the root of a plain gain datagram (bare or inside
//! `WithSegment { None | Some(Immediate) }`) the same trees are
//! * the elements of a `GainSTM { gains: Vec<G> }` (op `stm`, modelled by `sendStm`): same or different
//!   trees of one static type, clones of one `Cache` in several elements, failing element in the middle,
//!   sizes 0/1/1025; every pattern is read back (`drives_at(seg, i)`) and `stm_cycle` with it;
//! * inside `WithSegment` with `Ext` / `SyncIdx` / `GPIO` / `SysTime` (wrap tokens `<seg><e|s|g|t>`,
//!   modelled by `sendMode`): `InvalidTransitionMode` once a device is enabled, caches filled anyway;
//! * the two members of a tuple datagram `(WithSegment{t1,S0,..}, WithSegment{t2,S1,..})` (op `pair`,
//!   modelled by `sendPair`): both are initialised whatever the other one returns;
//! * packed with `parallel` as `Sender::send` does (`+p` on the wrap token; invisible to the model).
use crate::common::*;
use autd3::gain::{Cache, Custom, Group};
use autd3::prelude::*;
use autd3_core::derive::*;
use autd3_core::datagram::{Datagram, Operation};
use autd3_driver::datagram::{BoxedGain, IntoBoxedGain, WithSegment};
use autd3_driver::firmware::{
    cpu::TxMessage,
    operation::{OperationGenerator, OperationHandler},
};
use autd3_firmware_emulator::{CPUEmulator, cpu::params::ERR_BIT};
use std::any::Any;
use std::collections::{BTreeMap, BTreeSet, HashMap};
use std::num::NonZeroU16;
use std::sync::{Arc, Mutex};
use zerocopy::FromZeros;

// ------------------------------------------------------------------------------------------ trees

type Km = Vec<Vec<Option<u8>>>;

#[derive(Clone, PartialEq, Debug)]
enum Node {
    L(u32),
    H(u32),
    E(u32),
    B(Box<Node>),
    C(u32, Box<Node>),
    G(Arc<Km>, Vec<(u8, Node)>),
}

fn key_char(k: u8) -> char {
    if k < 10 { (b'0' + k) as char } else { (b'a' + (k - 10)) as char }
}

impl Node {
    fn show(&self) -> String {
        match self {
            Node::L(s) => format!("L{s}"),
            Node::H(s) => format!("H{s}"),
            Node::E(s) => format!("E{s}"),
            Node::B(x) => format!("B({})", x.show()),
            Node::C(id, x) => format!("C{id}({})", x.show()),
            Node::G(km, gm) => {
                let rows: Vec<String> = km
                    .iter()
                    .map(|r| r.iter().map(|c| c.map(key_char).unwrap_or('.')).collect())
                    .collect();
                let es: Vec<String> = gm.iter().map(|(k, g)| format!("{}:{}", key_char(*k), g.show())).collect();
                format!("G[{}]{{{}}}", rows.join("|"), es.join(","))
            }
        }
    }
    /// the tree without salts, ids and key maps (stable part of oracle keys)
    fn shape(&self) -> String {
        match self {
            Node::L(_) => "L".into(),
            Node::H(_) => "H".into(),
            Node::E(_) => "E".into(),
            Node::B(x) => format!("B({})", x.shape()),
            Node::C(_, x) => format!("C({})", x.shape()),
            Node::G(_, gm) => {
                let s: BTreeSet<String> = gm.iter().map(|(_, g)| g.shape()).collect();
                format!("G{{{}}}", s.into_iter().collect::<Vec<_>>().join(","))
            }
        }
    }
    fn caches(&self, out: &mut Vec<(u32, Node)>) {
        match self {
            Node::B(x) => x.caches(out),
            Node::C(id, x) => {
                out.push((*id, (**x).clone()));
                x.caches(out)
            }
            Node::G(_, gm) => gm.iter().for_each(|(_, g)| g.caches(out)),
            _ => {}
        }
    }
    fn depth(&self) -> usize {
        match self {
            Node::B(x) | Node::C(_, x) => 1 + x.depth(),
            Node::G(_, gm) => 1 + gm.iter().map(|(_, g)| g.depth()).max().unwrap_or(0),
            _ => 0,
        }
    }
    /// does the result of `init_full` ignore the filter it is given? (Group ignores it, Custom too)
    fn filter_free(&self) -> bool {
        match self {
            Node::L(_) | Node::E(_) | Node::G(..) => true,
            Node::H(_) => false,
            Node::B(x) | Node::C(_, x) => x.filter_free(),
        }
    }
}

/// the drive function of the leaves — same arithmetic as `drv` in `Model/GainWrap.lean`
fn drv(salt: u32, d: usize, t: usize) -> Drive {
    let (s, d, t) = (salt as u64, d as u64, t as u64);
    Drive {
        phase: Phase(((s * 37 + d * 101 + t * 3 + 11) % 256) as u8),
        intensity: EmitIntensity(((s * 59 + d * 13 + t * 5 + 1) % 256) as u8),
    }
}

/// SPECIFICATION (not the model): the drive the tree is meant to give transducer `t` of device `d` —
/// what the leaf gains compute when called directly, selected by key, `NULL` without key.
fn den(n: &Node, d: usize, t: usize) -> Drive {
    match n {
        Node::L(s) | Node::H(s) | Node::E(s) => drv(*s, d, t),
        Node::B(x) | Node::C(_, x) => den(x, d, t),
        Node::G(km, gm) => match km[d][t] {
            None => Drive::NULL,
            Some(k) => gm.iter().find(|(kk, _)| *kk == k).map(|(_, g)| den(g, d, t)).unwrap_or(Drive::NULL),
        },
    }
}

fn used_keys(km: &Km, mask: &[bool]) -> BTreeSet<u8> {
    km.iter().zip(mask).filter(|(_, e)| **e).flat_map(|(r, _)| r.iter().flatten().copied()).collect()
}

/// every `Group` in the tree has exactly the keys its key map uses on the enabled devices, and no
/// leaf fails
fn well_keyed(n: &Node, mask: &[bool]) -> bool {
    match n {
        Node::L(_) | Node::H(_) => true,
        Node::E(_) => false,
        Node::B(x) | Node::C(_, x) => well_keyed(x, mask),
        Node::G(km, gm) => {
            used_keys(km, mask) == gm.iter().map(|(k, _)| *k).collect::<BTreeSet<u8>>()
                && gm.iter().all(|(_, g)| well_keyed(g, mask))
        }
    }
}

// ------------------------------------------------------------------------------- real gain types

type BoxFT = Box<dyn Fn(&Transducer) -> Drive + Send + Sync>;
type BoxF = Box<dyn Fn(&Device) -> BoxFT + Send + Sync>;
type Cus = Custom<'static, BoxFT, BoxF>;
type BoxFK = Box<dyn Fn(&Transducer) -> Option<u8> + Send + Sync>;
type BoxFD = Box<dyn Fn(&Device) -> BoxFK + Send + Sync>;
type Grp<G> = Group<u8, BoxFK, BoxFD, G>;

fn custom(salt: u32) -> Cus {
    Custom::new(Box::new(move |dev: &Device| {
        let d = dev.idx();
        Box::new(move |tr: &Transducer| drv(salt, d, tr.idx())) as BoxFT
    }) as BoxF)
}

fn filter_str(filter: Option<&HashMap<usize, BitVec>>) -> String {
    match filter {
        None => "-".into(),
        Some(f) => {
            let sorted: BTreeMap<usize, String> =
                f.iter().map(|(d, b)| (*d, b.iter().map(|x| if x { '1' } else { '0' }).collect())).collect();
            sorted.iter().map(|(d, b)| format!("d{d}:{b}")).collect::<Vec<_>>().join(",")
        }
    }
}

type Log = Arc<Mutex<Vec<String>>>;

/// holo-style leaf (mirrored by `holoLeaf` in the model): honours the filter, tabulates enabled
/// devices only, `generate` consumes the entry; records the arguments `init_full` was given.
#[derive(Gain, Debug)]
struct HGain {
    salt: u32,
    log: Log,
}
struct HGen {
    data: HashMap<usize, Vec<Drive>>,
}
struct HCalc {
    row: Vec<Drive>,
}
impl GainCalculator for HCalc {
    fn calc(&self, tr: &Transducer) -> Drive {
        self.row[tr.idx()]
    }
}
impl GainCalculatorGenerator for HGen {
    type Calculator = HCalc;
    fn generate(&mut self, device: &Device) -> HCalc {
        HCalc { row: self.data.remove(&device.idx()).unwrap() }
    }
}
impl Gain for HGain {
    type G = HGen;
    fn init(self) -> Result<HGen, GainError> {
        unimplemented!()
    }
    fn init_full(
        self,
        geometry: &Geometry,
        filter: Option<&HashMap<usize, BitVec>>,
        parallel: bool,
    ) -> Result<HGen, GainError> {
        self.log.lock().unwrap().push(format!("H{}@{}:{}", self.salt, parallel as u8, filter_str(filter)));
        let salt = self.salt;
        Ok(HGen {
            data: geometry
                .devices()
                .map(|dev| {
                    (
                        dev.idx(),
                        dev.iter()
                            .map(|tr| {
                                let inside = match filter {
                                    None => true,
                                    Some(f) => f.get(&dev.idx()).and_then(|b| b.get(tr.idx())).unwrap_or(false),
                                };
                                if inside { drv(salt, dev.idx(), tr.idx()) } else { Drive::NULL }
                            })
                            .collect(),
                    )
                })
                .collect(),
        })
    }
}

/// a gain whose `init` fails
#[derive(Gain, Debug)]
struct EGain {
    salt: u32,
}
impl Gain for EGain {
    type G = HGen;
    fn init(self) -> Result<HGen, GainError> {
        Err(GainError::new(format!("leaf {} failed", self.salt)))
    }
}

struct Cx {
    pool: HashMap<u32, Box<dyn Any>>,
    log: Log,
}

trait Build: Gain + DatagramS<G = GainOperationGenerator<<Self as Gain>::G>, Error = GainError> + Sized + 'static {
    fn sk() -> Sk;
    fn matches(n: &Node) -> bool;
    fn build(n: &Node, cx: &mut Cx) -> Self;
}
impl Build for Cus {
    fn sk() -> Sk {
        Sk::L
    }
    fn matches(n: &Node) -> bool {
        matches!(n, Node::L(_))
    }
    fn build(n: &Node, _: &mut Cx) -> Self {
        let Node::L(s) = n else { unreachable!() };
        custom(*s)
    }
}
impl Build for HGain {
    fn sk() -> Sk {
        Sk::H
    }
    fn matches(n: &Node) -> bool {
        matches!(n, Node::H(_))
    }
    fn build(n: &Node, cx: &mut Cx) -> Self {
        let Node::H(s) = n else { unreachable!() };
        HGain { salt: *s, log: cx.log.clone() }
    }
}
impl Build for EGain {
    fn sk() -> Sk {
        Sk::E
    }
    fn matches(n: &Node) -> bool {
        matches!(n, Node::E(_))
    }
    fn build(n: &Node, _: &mut Cx) -> Self {
        let Node::E(s) = n else { unreachable!() };
        EGain { salt: *s }
    }
}
impl<G: Build> Build for Cache<G> {
    fn sk() -> Sk {
        Sk::C(Box::new(G::sk()))
    }
    fn matches(n: &Node) -> bool {
        matches!(n, Node::C(_, x) if G::matches(x))
    }
    fn build(n: &Node, cx: &mut Cx) -> Self {
        let Node::C(id, x) = n else { unreachable!() };
        if let Some(c) = cx.pool.get(id) {
            // a clone of the same cache (shares `gain` and `cache`)
            return c.downcast_ref::<Cache<G>>().expect("cache id reused with another type").clone();
        }
        let c = Cache::new(G::build(x, cx));
        cx.pool.insert(*id, Box::new(c.clone()));
        c
    }
}
impl<G: Build> Build for Grp<G> {
    fn sk() -> Sk {
        Sk::G(Box::new(G::sk()))
    }
    fn matches(n: &Node) -> bool {
        matches!(n, Node::G(_, gm) if gm.iter().all(|(_, g)| G::matches(g)))
    }
    fn build(n: &Node, cx: &mut Cx) -> Self {
        let Node::G(km, gm) = n else { unreachable!() };
        let km = km.clone();
        let key_map: BoxFD = Box::new(move |dev: &Device| {
            let row = km[dev.idx()].clone();
            Box::new(move |tr: &Transducer| row[tr.idx()]) as BoxFK
        });
        Group::new(key_map, gm.iter().map(|(k, g)| (*k, G::build(g, cx))).collect())
    }
}
/// `B(x)`: `x.into_boxed()` with `x` a leaf, another box, or a group of boxes
impl Build for BoxedGain {
    fn sk() -> Sk {
        Sk::D
    }
    fn matches(n: &Node) -> bool {
        match n {
            Node::B(x) => match &**x {
                Node::L(_) | Node::H(_) | Node::E(_) => true,
                Node::B(_) => BoxedGain::matches(x),
                Node::G(..) => Grp::<BoxedGain>::matches(x),
                Node::C(..) => false,
            },
            _ => false,
        }
    }
    fn build(n: &Node, cx: &mut Cx) -> Self {
        let Node::B(x) = n else { unreachable!() };
        match &**x {
            Node::L(_) => Cus::build(x, cx).into_boxed(),
            Node::H(_) => HGain::build(x, cx).into_boxed(),
            Node::E(_) => EGain::build(x, cx).into_boxed(),
            Node::B(_) => BoxedGain::build(x, cx).into_boxed(),
            Node::G(..) => Grp::<BoxedGain>::build(x, cx).into_boxed(),
            Node::C(..) => unreachable!(),
        }
    }
}

type Wrap = Option<(Segment, Option<TransitionMode>)>;

fn do_send<D>(
    cpus: &mut [CPUEmulator],
    d: D,
    geometry: &Geometry,
    tx: &mut [TxMessage],
    par: bool,
    pack_par: bool,
) -> Result<(), AUTDDriverError>
where
    D: Datagram,
    AUTDDriverError: From<D::Error>,
    D::G: OperationGenerator,
    AUTDDriverError: From<<<D::G as OperationGenerator>::O1 as Operation>::Error>
        + From<<<D::G as OperationGenerator>::O2 as Operation>::Error>,
{
    let generator = d.operation_generator(geometry, par)?;
    let mut op = OperationHandler::generate(generator, geometry);
    loop {
        if OperationHandler::is_done(&op) {
            break;
        }
        // `Sender::send` hands the same `parallel` to `pack` (rayon `par_bridge` over the devices)
        OperationHandler::pack(&mut op, geometry, tx, pack_par)?;
        for (cpu, dev) in cpus.iter_mut().zip(geometry.iter()) {
            if dev.enable {
                cpu.send(tx);
                if (cpu.rx().ack() & ERR_BIT) == ERR_BIT {
                    return Err(AUTDDriverError::firmware_err(cpu.rx().ack()));
                }
            }
        }
    }
    Ok(())
}

/// how the trees are sent
#[derive(Clone, Copy, PartialEq, Debug)]
struct How {
    /// as the elements of a `GainSTM` (else: exactly one tree, as a gain datagram)
    stm: bool,
    /// `OperationHandler::pack(.., parallel = par)` as `Sender::send` does (else serial)
    packp: bool,
    /// exactly two trees as the tuple datagram `(WithSegment{t1, S0, a}, WithSegment{t2, S1, b})`;
    /// the flags say whether `a` / `b` is `Some(Immediate)` (else `None`)
    pair: Option<(bool, bool)>,
}
const PLAIN: How = How { stm: false, packp: false, pair: None };

/// sampling division of every `GainSTM` of this stream (above the silencer's strict-mode minimum)
const STM_DIV: u16 = 5000;

fn run_typed<G: Build>(nodes: &[Node], how: How, wrap: Wrap, par: bool, env: &mut Env) -> Result<(), AUTDDriverError> {
    let pp = how.packp && par;
    if how.stm {
        // built in order through the shared pool: the same cache id in two elements is a clone
        let gains: Vec<G> = nodes.iter().map(|n| G::build(n, &mut env.cx)).collect();
        let stm = GainSTM {
            gains,
            config: SamplingConfig::Division(NonZeroU16::new(STM_DIV).unwrap()),
            option: GainSTMOption::default(),
        };
        return match wrap {
            None => do_send(&mut env.cpus, stm, &env.geometry, &mut env.tx, par, pp),
            Some((segment, transition_mode)) => do_send(
                &mut env.cpus,
                WithSegment { inner: stm, segment, transition_mode },
                &env.geometry,
                &mut env.tx,
                par,
                pp,
            ),
        };
    }
    if let Some((a, b)) = how.pair {
        assert!(nodes.len() == 2, "harness: a pair is two trees");
        let g1 = G::build(&nodes[0], &mut env.cx);
        let g2 = G::build(&nodes[1], &mut env.cx);
        let tm = |x: bool| if x { Some(TransitionMode::Immediate) } else { None };
        return do_send(
            &mut env.cpus,
            (
                WithSegment { inner: g1, segment: Segment::S0, transition_mode: tm(a) },
                WithSegment { inner: g2, segment: Segment::S1, transition_mode: tm(b) },
            ),
            &env.geometry,
            &mut env.tx,
            par,
            pp,
        );
    }
    assert!(nodes.len() == 1, "harness: a gain datagram is one tree");
    let g = G::build(&nodes[0], &mut env.cx);
    match wrap {
        None => do_send(&mut env.cpus, g, &env.geometry, &mut env.tx, par, pp),
        Some((segment, transition_mode)) => do_send(
            &mut env.cpus,
            WithSegment { inner: g, segment, transition_mode },
            &env.geometry,
            &mut env.tx,
            par,
            pp,
        ),
    }
}

macro_rules! dispatch {
    ($sk:expr, $n:expr, $how:expr, $wrap:expr, $par:expr, $env:expr; $($t:ty),* $(,)?) => {{
        $( if <$t as Build>::sk() == *$sk {
            assert!($n.iter().all(|n| <$t as Build>::matches(n)), "harness: tree does not have the announced shape");
            return Some(run_typed::<$t>($n, $how, $wrap, $par, $env));
        } )*
        None
    }};
}

/// the statically typed shapes; `sk` selects the type (an empty group alone does not determine it)
fn run_node(sk: &Sk, n: &[Node], how: How, wrap: Wrap, par: bool, env: &mut Env) -> Option<Result<(), AUTDDriverError>> {
    type D = BoxedGain;
    dispatch!(sk, n, how, wrap, par, env;
        Cus, HGain, EGain, D,
        Cache<Cus>, Cache<HGain>, Cache<EGain>, Cache<D>,
        Cache<Cache<Cus>>, Cache<Cache<Cache<Cus>>>,
        Cache<Grp<Cus>>, Cache<Grp<HGain>>, Cache<Grp<D>>,
        Cache<Grp<Cache<Cus>>>, Cache<Grp<Cache<HGain>>>, Cache<Grp<Cache<D>>>,
        Cache<Cache<Grp<Cus>>>, Cache<Grp<Grp<Cus>>>,
        Grp<Cus>, Grp<HGain>, Grp<D>,
        Grp<Cache<Cus>>, Grp<Cache<HGain>>, Grp<Cache<EGain>>, Grp<Cache<D>>,
        Grp<Grp<Cus>>, Grp<Grp<HGain>>, Grp<Grp<D>>,
        Grp<Cache<Cache<Cus>>>, Grp<Cache<Grp<Cus>>>, Grp<Cache<Grp<D>>>,
        Grp<Grp<Cache<Cus>>>, Grp<Grp<Cache<D>>>, Grp<Grp<Grp<Cus>>>,
    )
}

// ---------------------------------------------------------------------------------- one history

#[derive(Clone)]
struct CacheInfo {
    first_mask: Option<Vec<bool>>,
    poisoned: bool,
    inner: Node,
    /// the root tree it was first initialised in (for caches whose content depends on the filter)
    root_sig: String,
    sk: Sk,
}

struct Env {
    dims: Vec<usize>,
    geometry: Geometry,
    cpus: Vec<CPUEmulator>,
    tx: Vec<TxMessage>,
    cx: Cx,
    info: BTreeMap<u32, CacheInfo>,
    replay: Vec<String>,
    dead: bool,
    next_id: u32,
    next_salt: u32,
}

fn start(out: &mut Out, dims: &[usize]) -> Env {
    let geometry = Geometry::new(
        dims.iter()
            .map(|&n| {
                Device::new(
                    UnitQuaternion::identity(),
                    (0..n).map(|i| Transducer::new(Point3::new(i as f32, 0., 0.))).collect(),
                )
            })
            .collect(),
    );
    let line = format!("geo {}", dims.iter().map(|n| n.to_string()).collect::<Vec<_>>().join(" "));
    out.line(&line, "ok");
    Env {
        dims: dims.to_vec(),
        cpus: dims.iter().enumerate().map(|(i, &n)| CPUEmulator::new(i, n)).collect(),
        tx: vec![TxMessage::new_zeroed(); dims.len()],
        geometry,
        cx: Cx { pool: HashMap::new(), log: Arc::new(Mutex::new(vec![])) },
        info: BTreeMap::new(),
        replay: vec![line],
        dead: false,
        next_id: 1,
        next_salt: 1,
    }
}

fn tm_str(t: Option<TransitionMode>) -> &'static str {
    match t {
        None => "",
        Some(TransitionMode::Immediate) => "i",
        Some(TransitionMode::Ext) => "e",
        Some(TransitionMode::SyncIdx) => "s",
        Some(TransitionMode::GPIO(_)) => "g",
        Some(TransitionMode::SysTime(_)) => "t",
    }
}

fn wrap_str(w: Wrap) -> String {
    match w {
        None => "-".into(),
        Some((s, t)) => format!("{}{}", s as u8, tm_str(t)),
    }
}

/// a transition mode a gain cannot be sent with
fn bad_mode(w: Wrap) -> bool {
    matches!(w, Some((_, Some(m))) if m != TransitionMode::Immediate)
}

fn mask_str(m: &[bool]) -> String {
    m.iter().map(|&b| if b { '1' } else { '0' }).collect()
}

#[derive(PartialEq, Clone, Copy, Debug)]
enum Expect {
    /// well keyed, caches fresh or valid for this mask: must be `Ok` with exactly the spec drives
    OkDen,
    /// mismatched keys / failing leaf / cache of another mask: must be `Err`
    MustErr,
    /// only: must not panic
    NoPanic,
    /// everything fine but a transition mode other than `Immediate` and a device to send to: must be
    /// `Err(InvalidTransitionMode)` (never `Ok`: the mode must not be swallowed)
    ModeErr,
    /// a `GainSTM` of fewer than 2 or more than 1024 gains: must be `Err(GainSTMSizeOutOfRange)`
    SizeErr,
}

/// one `send` of a gain datagram: writes the op line with the implementation's answer, runs the
/// oracle, updates the cache bookkeeping.  Returns the answer.
fn send(out: &mut Out, env: &mut Env, wrap: Wrap, par: bool, mask: &[bool], node: &Node, tag: &str) -> String {
    let sk = Sk::of(node);
    send_sk(out, env, wrap, par, mask, node, &sk, tag)
}

/// skeleton of every cache node of a tree of skeleton `sk`
fn cache_sks(n: &Node, sk: &Sk, out: &mut BTreeMap<u32, Sk>) {
    match (n, sk) {
        (Node::C(id, x), Sk::C(s)) => {
            out.insert(*id, sk.clone());
            cache_sks(x, s, out)
        }
        (Node::G(_, gm), Sk::G(s)) => gm.iter().for_each(|(_, g)| cache_sks(g, s, out)),
        _ => {}
    }
}

/// what one `init_full` of `node` must do, given what is known about the caches
fn expect_one(info: &BTreeMap<u32, CacheInfo>, node: &Node, mask: &[bool]) -> Expect {
    let mut caches = vec![];
    node.caches(&mut caches);
    let root_sig = node.show();
    let mut cache_ok = true;
    let mut cache_known = true;
    for (id, inner) in &caches {
        if let Some(ci) = info.get(id) {
            assert!(ci.inner == *inner, "cache id {id} reused with a different inner gain");
            if ci.poisoned {
                cache_known = false;
            } else if let Some(m) = &ci.first_mask {
                if m != mask {
                    cache_ok = false;
                }
                if !inner.filter_free() && ci.root_sig != root_sig {
                    cache_known = false;
                }
            }
        }
    }
    if !cache_known {
        Expect::NoPanic
    } else if well_keyed(node, mask) && cache_ok {
        Expect::OkDen
    } else {
        Expect::MustErr
    }
}

/// bookkeeping after one `init_full` of `node` (`ok`: it returned `Ok`)
fn book(info: &mut BTreeMap<u32, CacheInfo>, node: &Node, sk: &Sk, mask: &[bool], ok: bool) {
    let mut caches = vec![];
    node.caches(&mut caches);
    let root_sig = node.show();
    let mut sks = BTreeMap::new();
    cache_sks(node, sk, &mut sks);
    for (id, inner) in caches {
        let sk = sks[&id].clone();
        let ci = info.entry(id).or_insert(CacheInfo {
            first_mask: None,
            poisoned: false,
            inner,
            root_sig: root_sig.clone(),
            sk,
        });
        if ci.first_mask.is_none() {
            if ok {
                ci.first_mask = Some(mask.to_vec());
                ci.root_sig = root_sig.clone();
            } else {
                ci.poisoned = true;
            }
        }
    }
}

#[allow(clippy::too_many_arguments)]
fn send_sk(out: &mut Out, env: &mut Env, wrap: Wrap, par: bool, mask: &[bool], node: &Node, sk: &Sk, tag: &str) -> String {
    send_any(out, env, PLAIN, wrap, par, mask, std::slice::from_ref(node), sk, tag)
}

fn drives_hex(ds: &[Drive]) -> String {
    hex(&ds.iter().flat_map(|d| [d.phase.0, d.intensity.0]).collect::<Vec<u8>>())
}

/// one send of `nodes` (one tree as a gain datagram, or any number as the elements of a `GainSTM`)
#[allow(clippy::too_many_arguments)]
fn send_any(out: &mut Out, env: &mut Env, how: How, wrap: Wrap, par: bool, mask: &[bool], nodes: &[Node], sk: &Sk, tag: &str) -> String {
    if env.dead {
        // a panic ended this history (emulators and shared caches are in an unknown state)
        return "dead".into();
    }
    for (dev, &e) in env.geometry.iter_mut().zip(mask) {
        dev.enable = e;
    }
    let k = nodes.len();
    let via = if how.packp { "+p" } else { "" };
    let pair_tm = how.pair.map(|(a, b)| format!("{}{}", if a { 'i' } else { '-' }, if b { 'i' } else { '-' }));
    let op = if let Some(tm) = &pair_tm {
        format!("pair {tm}{via} {} {} {};{}", par as u8, mask_str(mask), nodes[0].show(), nodes[1].show())
    } else if how.stm {
        let trees = if k == 0 { "-".to_string() } else { nodes.iter().map(|n| n.show()).collect::<Vec<_>>().join(";") };
        format!("stm {}{via} {} {} {trees}", wrap_str(wrap), par as u8, mask_str(mask))
    } else {
        format!("send {}{via} {} {} {}", wrap_str(wrap), par as u8, mask_str(mask), nodes[0].show())
    };
    env.replay.push(op.clone());
    // ---- expectation from the bookkeeping (before the send): the elements are initialised in
    //      order, each sees the caches the earlier ones filled, the first failure ends it
    let size_bad = how.stm && !(2..=1024).contains(&k);
    let mut exps: Vec<Expect> = vec![];
    if !size_bad {
        if k == 1 {
            exps.push(expect_one(&env.info, &nodes[0], mask));
        } else {
            let mut sim = env.info.clone();
            for n in nodes {
                let e = expect_one(&sim, n, mask);
                exps.push(e);
                if e != Expect::OkDen && how.pair.is_none() {
                    break;
                }
                // (a tuple asks both members for their generator before it looks at the results)
                book(&mut sim, n, sk, mask, e == Expect::OkDen);
            }
        }
    }
    // the outcome of the whole send is that of the first element not known to succeed — for a tuple
    // an element whose outcome is open makes the whole outcome open
    let first_bad = if how.pair.is_some() && exps.contains(&Expect::NoPanic) {
        exps.iter().position(|e| *e == Expect::NoPanic)
    } else {
        exps.iter().position(|e| *e != Expect::OkDen)
    };
    let any_enabled = mask.iter().any(|e| *e);
    let expect = if size_bad {
        Expect::SizeErr
    } else {
        match first_bad {
            Some(j) => exps[j],
            None if bad_mode(wrap) && any_enabled && !how.stm => Expect::ModeErr,
            None => Expect::OkDen,
        }
    };
    // ---- the real thing
    env.cx.log.lock().unwrap().clear();
    let target = match wrap {
        None => Segment::S0,
        Some((s, _)) => s,
    };
    let res = guarded(|| run_node(sk, nodes, how, wrap, par, env));
    let mut init_ok = false;
    let (answer, kind): (String, &str) = match &res {
        Err(_) => ("panic".into(), "panic"),
        Ok(None) => panic!("harness: no static type for tree {}", nodes.first().map(|n| n.show()).unwrap_or_default()),
        Ok(Some(Err(AUTDDriverError::InvalidTransitionMode))) => {
            // from `GainOp::pack`, i.e. after `init_full` and `generate` went through
            init_ok = true;
            ("err invalid-transition-mode".into(), "err:invalid-transition-mode")
        }
        Ok(Some(Err(AUTDDriverError::GainSTMSizeOutOfRange(n)))) => (format!("err stm-size {n}"), "err:stm-size"),
        Ok(Some(Err(e))) => {
            let msg = e.to_string();
            if msg.contains("Unknown group key") {
                ("err unknown-key".into(), "err:unknown-key")
            } else if let Some(rest) = msg.strip_prefix("Unused group keys: ") {
                let mut ks: Vec<u32> = rest.split(", ").filter_map(|s| s.trim().parse().ok()).collect();
                ks.sort();
                (
                    format!("err unused-keys {}", ks.iter().map(|k| k.to_string()).collect::<Vec<_>>().join(",")),
                    "err:unused-keys",
                )
            } else if msg.contains("Cache is initialized with different geometry") {
                ("err cache-geometry".into(), "err:cache-geometry")
            } else if msg.contains("leaf") {
                ("err leaf".into(), "err:leaf")
            } else {
                (format!("err other {msg}"), "err:other")
            }
        }
        Ok(Some(Ok(()))) => {
            init_ok = true;
            let tm = match wrap {
                None => "i",
                Some((_, None)) => "-",
                Some((_, t)) => tm_str(t),
            };
            let mut s = match &pair_tm {
                Some(tm) => format!("ok tm={tm}"),
                None => format!("ok seg={} tm={tm}", target as u8),
            };
            if how.stm {
                s.push_str(&format!(" n={k}"));
            }
            for (i, cpu) in env.cpus.iter().enumerate() {
                if mask[i] && !bad_mode(wrap) {
                    let pats: Vec<String> = if how.pair.is_some() {
                        vec![drives_hex(&cpu.fpga().drives_at(Segment::S0, 0)), drives_hex(&cpu.fpga().drives_at(Segment::S1, 0))]
                    } else if how.stm {
                        // as many patterns as the device says it holds
                        (0..cpu.fpga().stm_cycle(target).min(2048)).map(|j| drives_hex(&cpu.fpga().drives_at(target, j))).collect()
                    } else {
                        vec![drives_hex(&cpu.fpga().drives_at(target, 0))]
                    };
                    s.push_str(&format!(" d{i}={}@{}", pats.join("/"), cpu.fpga().req_stm_segment() as u8));
                }
            }
            let mut log = env.cx.log.lock().unwrap().clone();
            log.sort();
            for l in log {
                s.push(' ');
                s.push_str(&l);
            }
            (s, "ok")
        }
    };
    out.line(&op, &answer);
    out.count(&format!("outcome:{kind}"));
    out.count(&format!("expect:{expect:?}"));
    out.count(&format!("disabled-devices:{}", mask.iter().filter(|e| !**e).count()));
    out.count(&format!("wrap:{}", pair_tm.as_ref().map(|t| format!("pair:{t}")).unwrap_or_else(|| wrap_str(wrap))));
    out.count(if how.pair.is_some() { "context:tuple-of-two-gains" } else if how.stm { "context:gain-stm-element" } else { "context:gain-datagram" });
    if how.pair.is_some() {
        out.count(&format!("pair-expect:{:?}", exps));
    }
    out.count(if how.packp && par { "pack:parallel" } else { "pack:serial" });
    let depth = nodes.iter().map(|n| n.depth()).max().unwrap_or(0);
    out.count(&format!("depth:{depth}"));
    if how.stm {
        out.count(&format!("stm-len:{}", if k > 8 { "9+".to_string() } else { k.to_string() }));
        let mut seen = BTreeSet::new();
        let mut shared = false;
        for n in nodes {
            let mut cs = vec![];
            n.caches(&mut cs);
            let ids: BTreeSet<u32> = cs.iter().map(|(id, _)| *id).collect();
            shared |= ids.iter().any(|id| seen.contains(id));
            seen.extend(ids);
        }
        out.count(if shared { "stm-cache-clone-in-several-elements:yes" } else { "stm-cache-clone-in-several-elements:no" });
        if let Some(j) = first_bad {
            out.count(&format!("stm-first-failing-element:{}", if j == 0 { "0" } else if j + 1 == k { "last" } else { "middle" }));
        }
    }
    let shape = if how.pair.is_some() {
        format!("pair[{}]", nodes[0].shape())
    } else if how.stm {
        format!("stm{}[{}]", k, nodes.first().map(|n| n.shape()).unwrap_or_else(|| "-".into()))
    } else {
        nodes[0].shape()
    };
    let nontrivial = (how.stm || how.pair.is_some() || depth > 0 || bad_mode(wrap)) && (kind != "ok" || any_enabled);
    let wtok = pair_tm.clone().unwrap_or_else(|| wrap_str(wrap));
    out.case(if nontrivial {
        Some(fnv64(format!("{shape}|{}|{kind}|{wtok}|{:?}", mask_str(mask), env.dims).as_bytes()))
    } else {
        None
    });
    // ---- oracle: the property on the implementation
    let keybase = format!("{shape}:mask={}:{tag}", mask_str(mask));
    let shown = nodes.iter().map(|n| n.show()).collect::<Vec<_>>().join(";");
    match (&res, expect) {
        (Err(p), _) => out.violation(
            format!("wrappers:panic:{keybase}"),
            format!("panic ({p}) instead of drives or an error, sending {shown} with enable mask {}", mask_str(mask)),
            env.replay.clone(),
        ),
        (Ok(Some(Ok(()))), Expect::OkDen) if !bad_mode(wrap) => {
            'outer: for (i, cpu) in env.cpus.iter().enumerate() {
                if !mask[i] {
                    continue;
                }
                if how.stm && (cpu.fpga().stm_cycle(target) != k || !cpu.fpga().is_stm_gain_mode(target)) {
                    out.violation(
                        format!("wrappers:stm-cycle:{keybase}"),
                        format!(
                            "device {i} holds {} gain patterns (gain mode: {}) after a GainSTM of {k} gains ({shown}, mask {})",
                            cpu.fpga().stm_cycle(target), cpu.fpga().is_stm_gain_mode(target), mask_str(mask)
                        ),
                        env.replay.clone(),
                    );
                    break 'outer;
                }
                for (j, node) in nodes.iter().enumerate() {
                    let ds = if how.pair.is_some() {
                        cpu.fpga().drives_at(if j == 0 { Segment::S0 } else { Segment::S1 }, 0)
                    } else {
                        cpu.fpga().drives_at(target, j)
                    };
                    for t in 0..env.dims[i] {
                        let want = den(node, i, t);
                        if ds[t] != want {
                            out.violation(
                                format!("wrappers:drives:{keybase}"),
                                format!(
                                    "device {i} transducer {t}{} holds {:?} but the gain selected for it computes {:?} (tree {}, mask {})",
                                    if how.stm { format!(" pattern {j}") } else if how.pair.is_some() { format!(" segment {j}") } else { String::new() },
                                    ds[t], want, node.show(), mask_str(mask)
                                ),
                                env.replay.clone(),
                            );
                            break 'outer;
                        }
                    }
                }
            }
        }
        (Ok(Some(Err(e))), Expect::OkDen) => out.violation(
            format!("wrappers:spurious-error:{keybase}"),
            format!("`{e}` for well-keyed {shown} with mask {}", mask_str(mask)),
            env.replay.clone(),
        ),
        (Ok(Some(Ok(()) | Err(AUTDDriverError::InvalidTransitionMode))), Expect::MustErr) => out.violation(
            format!("wrappers:accepted-mismatch:{keybase}"),
            format!("Ok for mismatched keys / failing inner gain / cache of another geometry: {shown} mask {}", mask_str(mask)),
            env.replay.clone(),
        ),
        (Ok(Some(r)), Expect::ModeErr) => match r {
            Err(AUTDDriverError::InvalidTransitionMode) => {}
            Ok(()) => out.violation(
                format!("wrappers:mode-swallowed:{keybase}:{}", wrap_str(wrap)),
                format!("Ok for a gain inside WithSegment with transition mode `{}` (only Immediate is valid): {shown} mask {}", wrap_str(wrap), mask_str(mask)),
                env.replay.clone(),
            ),
            Err(e) => out.violation(
                format!("wrappers:spurious-error:{keybase}"),
                format!("`{e}` instead of InvalidTransitionMode for well-keyed {shown} with mask {}", mask_str(mask)),
                env.replay.clone(),
            ),
        },
        (Ok(Some(r)), Expect::SizeErr) => {
            if !matches!(r, Err(AUTDDriverError::GainSTMSizeOutOfRange(n)) if *n == k) {
                out.violation(
                    format!("wrappers:stm-size:{keybase}"),
                    format!("{r:?} for a GainSTM of {k} gains"),
                    env.replay.clone(),
                );
            }
        }
        _ => {}
    }
    // every leaf that records its arguments was handed the `parallel` flag of this send, whatever
    // wrappers / datagram it sits in (also when the send ends in an error)
    {
        let want = format!("@{}:", par as u8);
        let log = env.cx.log.lock().unwrap();
        if let Some(l) = log.iter().find(|l| !l.contains(&want)) {
            out.violation(
                format!("wrappers:parallel-not-forwarded:{keybase}"),
                format!("a leaf gain of {shown} was initialised as `{l}` (H<salt>@<parallel>:<filter>) in a send with parallel={}", par as u8),
                env.replay.clone(),
            );
        }
    }
    // the key named by "Unknown group key" must be one a key map uses and a gain map lacks
    if let Ok(Some(Err(e))) = &res {
        let msg = e.to_string();
        if let Some(kk) = msg.strip_prefix("Unknown group key: ").and_then(|s| s.trim().parse::<u8>().ok()) {
            fn unknown_somewhere(n: &Node, mask: &[bool], k: u8) -> bool {
                match n {
                    Node::B(x) | Node::C(_, x) => unknown_somewhere(x, mask, k),
                    Node::G(km, gm) => {
                        (used_keys(km, mask).contains(&k) && !gm.iter().any(|(kk, _)| *kk == k))
                            || gm.iter().any(|(_, g)| unknown_somewhere(g, mask, k))
                    }
                    _ => false,
                }
            }
            if !nodes.iter().any(|n| unknown_somewhere(n, mask, kk)) {
                out.violation(
                    format!("wrappers:wrong-unknown-key:{keybase}"),
                    format!("reports unknown key {kk}, which no group of {shown} lacks"),
                    env.replay.clone(),
                );
            }
        }
    }
    // ---- bookkeeping
    if res.is_err() {
        env.dead = true;
    } else if size_bad {
        // refused before any `init_full`: the caches are untouched
    } else if init_ok {
        for n in nodes {
            book(&mut env.info, n, sk, mask, true);
        }
    } else if how.pair.is_some() {
        // both members were initialised whatever the other one did
        let consistent = exps.iter().any(|e| *e != Expect::OkDen);
        for (n, e) in nodes.iter().zip(&exps) {
            book(&mut env.info, n, sk, mask, consistent && *e == Expect::OkDen);
        }
    } else {
        // an `Err` from some `init_full`: the elements before the first one that is not expected to
        // succeed went through; that one and (if its outcome was open) the later ones are unknown
        let j = first_bad.unwrap_or(0);
        for n in &nodes[..j] {
            book(&mut env.info, n, sk, mask, true);
        }
        let upto = if first_bad.is_some() && exps[j] == Expect::MustErr { j + 1 } else { k };
        for n in &nodes[j..upto] {
            book(&mut env.info, n, sk, mask, false);
        }
    }
    answer
}

// ------------------------------------------------------------------------------------ generators

/// shape skeletons: what the statically typed dispatch list can build
#[derive(Clone, PartialEq, Debug)]
enum Sk {
    L,
    H,
    E,
    /// cache-free subtree through `BoxedGain`
    D,
    C(Box<Sk>),
    G(Box<Sk>),
}

impl Sk {
    fn of(n: &Node) -> Sk {
        match n {
            Node::L(_) => Sk::L,
            Node::H(_) => Sk::H,
            Node::E(_) => Sk::E,
            Node::B(_) => Sk::D,
            Node::C(_, x) => Sk::C(Box::new(Sk::of(x))),
            Node::G(_, gm) => Sk::G(Box::new(gm.first().map(|(_, g)| Sk::of(g)).unwrap_or(Sk::L))),
        }
    }
    fn name(&self) -> String {
        match self {
            Sk::L => "L".into(),
            Sk::H => "H".into(),
            Sk::E => "E".into(),
            Sk::D => "D".into(),
            Sk::C(x) => format!("C({})", x.name()),
            Sk::G(x) => format!("G{{{}}}", x.name()),
        }
    }
}

fn c(x: Sk) -> Sk {
    Sk::C(Box::new(x))
}
fn g(x: Sk) -> Sk {
    Sk::G(Box::new(x))
}

/// all shapes of `run_node` except the failing-leaf ones
fn catalogue() -> Vec<Sk> {
    use Sk::*;
    vec![
        L, H, D,
        c(L), c(H), c(D), c(c(L)), c(c(c(L))),
        c(g(L)), c(g(H)), c(g(D)), c(g(c(L))), c(g(c(H))), c(g(c(D))), c(c(g(L))), c(g(g(L))),
        g(L), g(H), g(D),
        g(c(L)), g(c(H)), g(c(D)),
        g(g(L)), g(g(H)), g(g(D)),
        g(c(c(L))), g(c(g(L))), g(c(g(D))), g(g(c(L))), g(g(c(D))), g(g(g(L))),
    ]
}

#[derive(Clone, Copy, PartialEq, Debug)]
enum Plant {
    Unknown,
    Unused,
    Both,
    LeafErr,
}

struct Filler<'a> {
    rng: &'a mut Rng,
    mask: Vec<bool>,
    dims: Vec<usize>,
    /// plant at the n-th eligible site
    plant: Option<(Plant, u32)>,
    planted: bool,
    /// reuse caches of the history (same skeleton, valid for this mask, filter independent)
    reuse: bool,
    used_ids: BTreeSet<u32>,
    /// caches of the earlier elements of the `GainSTM` being generated (id, skeleton, inner tree):
    /// candidates for a clone in this element
    extra: Vec<(u32, Sk, Node)>,
}

fn gen_km(rng: &mut Rng, dims: &[usize]) -> Km {
    let nk = rng.range(1, 4) as usize;
    let mut alphabet: Vec<u8> = vec![];
    while alphabet.len() < nk {
        let k = if rng.chance(3, 4) { rng.below(6) as u8 + 10 } else { rng.below(36) as u8 };
        if !alphabet.contains(&k) {
            alphabet.push(k);
        }
    }
    let style = rng.below(6);
    let mut km: Km = dims.iter().map(|&n| vec![None; n]).collect();
    match style {
        0 | 1 => {
            // independent cells, some without key
            for row in km.iter_mut() {
                for cell in row.iter_mut() {
                    if !rng.chance(1, 4) {
                        *cell = Some(*rng.pick(&alphabet));
                    }
                }
            }
        }
        2 => {
            // one key (or none) per device: every key is absent on the other devices
            for row in km.iter_mut() {
                let k = if rng.chance(1, 5) { None } else { Some(*rng.pick(&alphabet)) };
                row.iter_mut().for_each(|cell| *cell = k);
            }
        }
        3 => {
            // single-transducer groups on a background of no key / one key
            let bg = if rng.chance(1, 2) { None } else { Some(alphabet[0]) };
            for row in km.iter_mut() {
                row.iter_mut().for_each(|cell| *cell = bg);
            }
            for &k in alphabet.iter().skip(1) {
                let d = rng.below(dims.len() as u64) as usize;
                let t = rng.below(dims[d] as u64) as usize;
                km[d][t] = Some(k);
            }
        }
        4 => {
            // split by transducer index (like the doc example), same on every device
            for row in km.iter_mut() {
                let n = row.len();
                for (t, cell) in row.iter_mut().enumerate() {
                    *cell = Some(alphabet[(t * alphabet.len()) / n.max(1)]);
                }
            }
        }
        _ => {
            // everything under one key
            for row in km.iter_mut() {
                row.iter_mut().for_each(|cell| *cell = Some(alphabet[0]));
            }
        }
    }
    km
}

impl Filler<'_> {
    fn salt(&mut self, env: &mut Env) -> u32 {
        env.next_salt += 1 + self.rng.below(3) as u32;
        env.next_salt
    }
    fn plant_here(&mut self, kinds: &[Plant]) -> Option<Plant> {
        if self.planted {
            return None;
        }
        if let Some((p, n)) = self.plant {
            if kinds.contains(&p) {
                if n == 0 {
                    self.planted = true;
                    return Some(p);
                }
                self.plant = Some((p, n - 1));
            }
        }
        None
    }
    fn group(&mut self, env: &mut Env, child: &dyn Fn(&mut Self, &mut Env) -> Node) -> Node {
        let km = gen_km(self.rng, &self.dims);
        let used = used_keys(&km, &self.mask);
        let mut keys: Vec<u8> = used.iter().copied().collect();
        match self.plant_here(&[Plant::Unknown, Plant::Unused, Plant::Both]) {
            None => {}
            Some(p) => {
                if (p == Plant::Unknown || p == Plant::Both) && !keys.is_empty() {
                    let i = self.rng.below(keys.len() as u64) as usize;
                    keys.remove(i);
                }
                if p == Plant::Unused || p == Plant::Both {
                    // prefer a key the map uses on a disabled device only; else one it never uses
                    let all: BTreeSet<u8> = used_keys(&km, &vec![true; self.dims.len()]);
                    let only_disabled: Vec<u8> = all.difference(&used).copied().collect();
                    let k = if !only_disabled.is_empty() && self.rng.chance(2, 3) {
                        *self.rng.pick(&only_disabled)
                    } else {
                        (0..36u8).find(|k| !all.contains(k)).unwrap()
                    };
                    keys.push(k);
                }
            }
        }
        // gain_map order is irrelevant (HashMap); shuffle what we print
        for i in (1..keys.len()).rev() {
            let j = self.rng.below(i as u64 + 1) as usize;
            keys.swap(i, j);
        }
        let gm = keys.into_iter().map(|k| (k, child(self, env))).collect();
        Node::G(Arc::new(km), gm)
    }
    /// cache-free subtree built through `BoxedGain`: `B(leaf | B(..) | G{B(..)…})`
    fn dynamic(&mut self, env: &mut Env, depth: u32) -> Node {
        let pick = if depth == 0 { self.rng.below(2) } else { self.rng.below(5) };
        let inner = match pick {
            0 => {
                if self.plant_here(&[Plant::LeafErr]).is_some() {
                    Node::E(self.salt(env))
                } else {
                    Node::L(self.salt(env))
                }
            }
            1 => Node::H(self.salt(env)),
            2 => self.dynamic(env, depth - 1),
            _ => self.group(env, &|f, env| f.dynamic(env, depth - 1)),
        };
        Node::B(Box::new(inner))
    }
    fn fill(&mut self, env: &mut Env, sk: &Sk) -> Node {
        match sk {
            Sk::L => Node::L(self.salt(env)),
            Sk::H => Node::H(self.salt(env)),
            Sk::E => Node::E(self.salt(env)),
            Sk::D => self.dynamic(env, 2),
            Sk::C(x) => {
                if !self.extra.is_empty() && self.rng.chance(1, 2) {
                    let me = Sk::C(x.clone());
                    let cands: Vec<usize> = (0..self.extra.len())
                        .filter(|&i| {
                            let (id, sk, inner) = &self.extra[i];
                            *sk == me && inner.filter_free() && !self.used_ids.contains(id) && well_keyed(inner, &self.mask)
                        })
                        .collect();
                    if !cands.is_empty() {
                        let (id, _, inner) = self.extra[*self.rng.pick(&cands)].clone();
                        let mut inner_ids = vec![];
                        inner.caches(&mut inner_ids);
                        if inner_ids.iter().all(|(i, _)| !self.used_ids.contains(i)) {
                            self.used_ids.insert(id);
                            inner_ids.iter().for_each(|(i, _)| {
                                self.used_ids.insert(*i);
                            });
                            return Node::C(id, Box::new(inner));
                        }
                    }
                }
                if self.reuse && self.rng.chance(1, 2) {
                    let me = Sk::C(x.clone());
                    let cands: Vec<u32> = env
                        .info
                        .iter()
                        .filter(|(id, ci)| {
                            ci.sk == me
                                && !ci.poisoned
                                && ci.first_mask.as_deref() == Some(&self.mask[..])
                                && ci.inner.filter_free()
                                && !self.used_ids.contains(id)
                                && well_keyed(&ci.inner, &self.mask)
                        })
                        .map(|(id, _)| *id)
                        .collect();
                    if !cands.is_empty() {
                        let id = *self.rng.pick(&cands);
                        let mut inner_ids = vec![];
                        env.info[&id].inner.caches(&mut inner_ids);
                        if inner_ids.iter().all(|(i, _)| !self.used_ids.contains(i)) {
                            self.used_ids.insert(id);
                            return Node::C(id, Box::new(env.info[&id].inner.clone()));
                        }
                    }
                }
                let inner = self.fill(env, x);
                let id = env.next_id;
                env.next_id += 1;
                self.used_ids.insert(id);
                Node::C(id, Box::new(inner))
            }
            Sk::G(x) => {
                let x = (**x).clone();
                self.group(env, &move |f, env| f.fill(env, &x))
            }
        }
    }
}

fn all_masks(n: usize) -> Vec<Vec<bool>> {
    (0..(1u32 << n)).rev().map(|m| (0..n).map(|i| (m >> i) & 1 == 1).collect()).collect()
}

fn pick_dims(rng: &mut Rng, n: usize, allow_full: bool) -> Vec<usize> {
    if allow_full && rng.chance(1, 14) {
        return vec![249; n];
    }
    let same = rng.chance(1, 3);
    let base = *rng.pick(&[1usize, 2, 3, 4, 5, 8]);
    (0..n).map(|_| if same { base } else { *rng.pick(&[1usize, 2, 3, 4, 5, 8]) }).collect()
}

fn pick_wrap(rng: &mut Rng) -> Wrap {
    match rng.below(8) {
        0 => Some((Segment::S0, None)),
        1 => Some((Segment::S1, None)),
        2 => Some((Segment::S0, Some(TransitionMode::Immediate))),
        3 => Some((Segment::S1, Some(TransitionMode::Immediate))),
        _ => None,
    }
}

/// the modes a gain cannot be sent with (the payloads of `GPIO` / `SysTime` never reach a frame)
fn bad_modes() -> [TransitionMode; 4] {
    [TransitionMode::Ext, TransitionMode::SyncIdx, TransitionMode::GPIO(GPIOIn::I1), TransitionMode::SysTime(DcSysTime::ZERO)]
}

/// `pick_wrap`, and one time in `one_in` a `WithSegment` with a mode other than `Immediate`
fn pick_wrap_x(rng: &mut Rng, one_in: u64) -> Wrap {
    if rng.chance(1, one_in) {
        let seg = if rng.chance(1, 2) { Segment::S0 } else { Segment::S1 };
        Some((seg, Some(*rng.pick(&bad_modes()))))
    } else {
        pick_wrap(rng)
    }
}

/// the elements of a `GainSTM`: `k` trees of skeleton `sk`, each a fresh filling (which may hold
/// clones of the caches of earlier elements and, with `reuse`, of the history) or an earlier element
/// once more; `plant` goes into one element.  Returns the trees and whether the plant found a site.
#[allow(clippy::too_many_arguments)]
fn gen_stm(rng: &mut Rng, env: &mut Env, sk: &Sk, mask: &[bool], dims: &[usize], k: usize, plant: Option<Plant>, reuse: bool) -> (Vec<Node>, bool) {
    let plant_at = if k > 0 { rng.below(k as u64) as usize } else { 0 };
    let mut elems: Vec<Node> = vec![];
    let mut extra: Vec<(u32, Sk, Node)> = vec![];
    let mut planted = false;
    for j in 0..k {
        let here = plant.filter(|_| j == plant_at);
        if j > 0 && here.is_none() && rng.chance(1, 3) {
            let e = rng.pick(&elems).clone();
            elems.push(e);
            continue;
        }
        let nth = rng.below(3) as u32;
        let mut f = Filler {
            rng: &mut *rng,
            mask: mask.to_vec(),
            dims: dims.to_vec(),
            plant: here.map(|p| (p, nth)),
            planted: false,
            reuse: reuse && here.is_none(),
            used_ids: BTreeSet::new(),
            extra: if here.is_none() { extra.clone() } else { vec![] },
        };
        let t = f.fill(env, sk);
        planted |= f.planted;
        let mut sks = BTreeMap::new();
        cache_sks(&t, sk, &mut sks);
        let mut cs = vec![];
        t.caches(&mut cs);
        for (id, inner) in cs {
            if !extra.iter().any(|(i, _, _)| *i == id) {
                extra.push((id, sks[&id].clone(), inner));
            }
        }
        elems.push(t);
    }
    (elems, planted)
}

const STM: How = How { stm: true, packp: false, pair: None };

fn parse_km(rows: &[&str]) -> Arc<Km> {
    Arc::new(
        rows.iter()
            .map(|r| {
                r.chars()
                    .map(|ch| match ch {
                        '.' => None,
                        '0'..='9' => Some(ch as u8 - b'0'),
                        _ => Some(ch as u8 - b'a' + 10),
                    })
                    .collect()
            })
            .collect(),
    )
}

fn grp(rows: &[&str], gm: Vec<(char, Node)>) -> Node {
    Node::G(parse_km(rows), gm.into_iter().map(|(k, n)| (if k.is_ascii_digit() { k as u8 - b'0' } else { k as u8 - b'a' + 10 }, n)).collect())
}
fn cache(id: u32, n: Node) -> Node {
    Node::C(id, Box::new(n))
}
fn boxed(n: Node) -> Node {
    Node::B(Box::new(n))
}

fn m(s: &str) -> Vec<bool> {
    s.chars().map(|ch| ch == '1').collect()
}

/// DESIGN §6 F13 witnesses and the other hand-picked histories; always first, stable keys
fn corpus(out: &mut Out) {
    use Node::*;
    // F13: Group{Cache(..)} with a device disabled
    for mask in ["01", "10", "11", "00"] {
        let mut env = start(out, &[3, 3]);
        let t = grp(&["aaa", "aaa"], vec![('a', cache(1, L(1)))]);
        send(out, &mut env, None, false, &m(mask), &t, "F13-group-cache");
        if !env.dead {
            send(out, &mut env, None, false, &m(mask), &t, "F13-group-cache-again");
        }
    }
    // F13: nested Group with a device disabled
    for mask in ["01", "10", "11"] {
        let mut env = start(out, &[3, 3]);
        let t = grp(&["aab", "aab"], vec![('a', grp(&["ab.", "ab."], vec![('a', L(1)), ('b', L(2))])), ('b', grp(&["..c", "..c"], vec![('c', L(3))]))]);
        send(out, &mut env, None, false, &m(mask), &t, "F13-nested-group");
    }
    // Group over a holo-style gain (calculators exist for enabled devices only)
    for mask in ["011", "101", "110", "100"] {
        let mut env = start(out, &[2, 3, 2]);
        let t = grp(&["ab", "a.b", "bb"], vec![('a', H(4)), ('b', H(5))]);
        send(out, &mut env, Some((Segment::S1, Some(TransitionMode::Immediate))), true, &m(mask), &t, "group-holo");
    }
    // Cache{Group{Cache}} and boxed groups with disabled devices, repeated
    {
        let mut env = start(out, &[2, 2, 2, 2]);
        let t = cache(9, grp(&["ab", "ab", "..", "b."], vec![('a', cache(1, L(7))), ('b', cache(2, L(8)))]));
        for _ in 0..3 {
            if !env.dead {
                send(out, &mut env, None, false, &m("1011"), &t, "cache-group-cache");
            }
        }
        if !env.dead {
            let t2 = grp(&["cc", "cc", "cc", "cc"], vec![('c', cache(1, L(7)))]);
            send(out, &mut env, None, false, &m("1011"), &t2, "inner-cache-reused");
        }
    }
    {
        let mut env = start(out, &[3, 1]);
        let t = boxed(grp(&["a.b", "b"], vec![('a', boxed(boxed(H(3)))), ('b', boxed(grp(&["xyx", "."], vec![('x', boxed(L(1))), ('y', boxed(H(2)))])))]));
        send(out, &mut env, None, false, &m("11"), &t, "boxed-groups");
        send(out, &mut env, None, true, &m("10"), &t, "boxed-groups");
        let t = boxed(grp(&["a.b", "b"], vec![('a', boxed(boxed(H(3)))), ('b', boxed(grp(&["xyx", "x"], vec![('x', boxed(L(1))), ('y', boxed(H(2)))])))]));
        send(out, &mut env, Some((Segment::S1, None)), false, &m("01"), &t, "boxed-groups");
    }
    // mismatched keys
    {
        let mut env = start(out, &[3, 3]);
        // unknown key b
        send(out, &mut env, None, false, &m("11"), &grp(&["ab.", "a.a"], vec![('a', L(3))]), "unknown-key");
        // unused keys b (empty group), c
        send(out, &mut env, None, false, &m("11"), &grp(&["a..", "a.a"], vec![('a', L(3)), ('b', L(4)), ('c', L(1))]), "unused-keys");
        // both: the unknown key is reported
        send(out, &mut env, None, false, &m("11"), &grp(&["ab.", "a.a"], vec![('a', L(3)), ('c', L(1))]), "unknown-and-unused");
        // key b lives on the disabled device only: it counts as unused
        send(out, &mut env, None, false, &m("01"), &grp(&["ab.", "a.a"], vec![('a', L(3)), ('b', L(5))]), "key-on-disabled-device");
        send(out, &mut env, None, false, &m("01"), &grp(&["ab.", "a.a"], vec![('a', L(3))]), "key-on-disabled-device-ok");
        // empty key map, empty gain map; empty key map, one gain
        send(out, &mut env, None, false, &m("11"), &grp(&["...", "..."], vec![]), "no-keys");
        send(out, &mut env, None, false, &m("11"), &grp(&["...", "..."], vec![('a', L(1))]), "no-keys-one-gain");
        // nothing enabled
        send(out, &mut env, None, false, &m("00"), &grp(&["aaa", "bbb"], vec![]), "nothing-enabled");
        // inner group lacks a key
        send(out, &mut env, None, false, &m("11"), &grp(&["aaa", "aaa"], vec![('a', grp(&["xy.", "x.."], vec![('x', L(1))]))]), "inner-unknown-key");
        send(out, &mut env, None, false, &m("11"), &grp(&["aaa", "aaa"], vec![('a', cache(1, grp(&["xy.", "x.."], vec![('x', L(1)), ('y', L(2)), ('z', L(3))])))]), "inner-unused-key");
    }
    // a cache whose first initialisation failed has lost its gain
    {
        let mut env = start(out, &[2, 2]);
        let t = cache(1, E(5));
        send(out, &mut env, None, false, &m("11"), &t, "cache-of-failing-gain");
        send(out, &mut env, None, false, &m("11"), &t, "cache-of-failing-gain-again");
        send(out, &mut env, None, false, &m("00"), &t, "cache-of-failing-gain-nothing-enabled");
        let t = cache(2, grp(&["ab", "aa"], vec![('a', L(1))]));
        send(out, &mut env, None, false, &m("11"), &t, "cache-of-mismatched-group");
        send(out, &mut env, None, false, &m("11"), &t, "cache-of-mismatched-group-again");
        let t = grp(&["aa", "aa"], vec![('a', cache(3, E(6)))]);
        send(out, &mut env, None, false, &m("11"), &t, "group-cache-of-failing-gain");
        send(out, &mut env, None, false, &m("11"), &t, "group-cache-of-failing-gain-again");
    }
    // a cache is bound to the enable mask it was first used with
    {
        let mut env = start(out, &[2, 2, 2]);
        let t = cache(1, L(9));
        send(out, &mut env, None, false, &m("110"), &t, "cache-mask");
        send(out, &mut env, None, false, &m("111"), &t, "cache-mask-grown");
        send(out, &mut env, None, false, &m("100"), &t, "cache-mask-shrunk");
        send(out, &mut env, None, false, &m("101"), &t, "cache-mask-moved");
        send(out, &mut env, Some((Segment::S1, None)), false, &m("110"), &t, "cache-mask-back");
        let t2 = grp(&["aa", "aa", "aa"], vec![('a', cache(1, L(9)))]);
        send(out, &mut env, None, false, &m("110"), &t2, "cache-mask-back-in-group");
        send(out, &mut env, None, false, &m("011"), &t2, "cache-mask-moved-in-group");
    }
    // the same cache under two keys; cache of cache
    {
        let mut env = start(out, &[4, 2]);
        let t = grp(&["abab", "ba"], vec![('a', cache(1, L(2))), ('b', cache(1, L(2)))]);
        send(out, &mut env, None, false, &m("11"), &t, "shared-cache");
        send(out, &mut env, None, false, &m("11"), &t, "shared-cache");
        let t = cache(3, cache(2, cache(1, L(2))));
        send(out, &mut env, None, false, &m("11"), &t, "cache-cache-cache");
        let t = cache(5, cache(4, grp(&["abab", "ba"], vec![('a', L(1)), ('b', L(2))])));
        send(out, &mut env, None, false, &m("01"), &t, "cache-cache-group");
        send(out, &mut env, None, false, &m("01"), &t, "cache-cache-group");
    }
    // a cached holo-style gain keeps the filter of its first use
    {
        let mut env = start(out, &[3, 3]);
        let t = grp(&["ab.", "aab"], vec![('a', cache(1, H(2))), ('b', cache(2, H(3)))]);
        send(out, &mut env, None, false, &m("11"), &t, "cached-holo");
        send(out, &mut env, None, true, &m("11"), &t, "cached-holo");
    }
    // real device size
    {
        let mut env = start(out, &[249, 249]);
        let rows: Vec<String> = (0..2).map(|d| (0..249).map(|t| if t < 100 { 'a' } else if (t + d) % 7 == 0 { '.' } else { 'b' }).collect()).collect();
        let rows: Vec<&str> = rows.iter().map(|s| s.as_str()).collect();
        let t = grp(&rows, vec![('a', cache(1, grp(&rows, vec![('a', L(1)), ('b', L(4))]))), ('b', cache(2, grp(&rows, vec![('a', L(2)), ('b', L(3))])))]);
        for mask in ["11", "11"] {
            if !env.dead {
                send(out, &mut env, None, false, &m(mask), &t, "autd3-size");
            }
        }
        let mut env = start(out, &[249, 249]);
        send(out, &mut env, None, false, &m("01"), &t, "autd3-size");
    }
    corpus_contexts(out);
}

/// the trees in other contexts than the root of a valid gain datagram (coverage review C14, 1 and 3)
fn corpus_contexts(out: &mut Out) {
    use Node::*;
    let s1i = Some((Segment::S1, Some(TransitionMode::Immediate)));
    let stm = |out: &mut Out, env: &mut Env, wrap: Wrap, par: bool, mask: &str, ts: &[Node], tag: &str| {
        let sk = ts.first().map(Sk::of).unwrap_or(Sk::L);
        send_any(out, env, STM, wrap, par, &m(mask), ts, &sk, tag)
    };
    // clones of one cache as two / three elements of a GainSTM, then the cache on its own, then
    // under another mask (it was filled by the STM)
    for mask in ["11", "01", "10", "00"] {
        let mut env = start(out, &[3, 2]);
        let t = cache(1, L(4));
        stm(out, &mut env, None, false, mask, &[t.clone(), t.clone()], "stm-cache-twice");
        stm(out, &mut env, s1i, true, mask, &[t.clone(), t.clone(), t.clone()], "stm-cache-thrice-again");
        send(out, &mut env, None, false, &m(mask), &t, "stm-cache-then-gain");
        if mask != "11" {
            stm(out, &mut env, None, false, "11", &[t.clone(), t.clone()], "stm-cache-other-mask");
        }
    }
    // different trees per element: the order of the patterns is the order of the gains
    {
        let mut env = start(out, &[3, 3]);
        let e = |s: u32| grp(&["ab.", "bba"], vec![('a', H(s)), ('b', H(s + 1))]);
        stm(out, &mut env, None, false, "11", &[e(1), e(3), e(5)], "stm-order");
        stm(out, &mut env, Some((Segment::S1, None)), true, "11", &[e(5), e(3), e(1), e(3)], "stm-order");
        stm(out, &mut env, Some((Segment::S0, Some(TransitionMode::Immediate))), true, "01", &[H(7), H(8)], "stm-holo-parallel");
    }
    // F13 in the STM context: Group{Cache} elements with a device disabled, one cache in two elements
    for mask in ["01", "10", "11"] {
        let mut env = start(out, &[3, 3]);
        let a = grp(&["aaa", "aaa"], vec![('a', cache(1, L(1)))]);
        let b = grp(&["ab.", "b.a"], vec![('a', cache(1, L(1))), ('b', cache(2, L(2)))]);
        stm(out, &mut env, None, false, mask, &[a.clone(), b.clone()], "stm-F13-group-cache");
        stm(out, &mut env, s1i, false, mask, &[b.clone(), a.clone(), b.clone()], "stm-F13-group-cache-again");
    }
    // the first failure ends the initialisation: earlier elements have filled their caches, later
    // ones are untouched
    {
        let mut env = start(out, &[2, 2]);
        let a = grp(&["aa", "aa"], vec![('a', cache(1, L(1)))]);
        let b = grp(&["ab", "aa"], vec![('a', cache(2, L(2)))]);
        let c = grp(&["aa", "aa"], vec![('a', cache(3, L(3)))]);
        stm(out, &mut env, None, false, "11", &[a.clone(), b.clone(), c.clone()], "stm-failing-middle");
        // filled under 11: another mask is refused
        send(out, &mut env, None, false, &m("01"), &a, "stm-failing-middle-first-was-filled");
        // untouched: any mask will do
        send(out, &mut env, None, false, &m("01"), &c, "stm-failing-middle-last-untouched");
        let bad = grp(&["ab", "aa"], vec![('a', L(1))]);
        let good = grp(&["ab", "aa"], vec![('a', L(1)), ('b', L(2))]);
        stm(out, &mut env, None, false, "11", &[good.clone(), bad.clone()], "stm-unknown-key-last");
        stm(out, &mut env, None, false, "01", &[good.clone(), good.clone()], "stm-key-on-disabled-device");
    }
    // sizes
    {
        let mut env = start(out, &[2]);
        stm(out, &mut env, None, false, "1", &[], "stm-size");
        stm(out, &mut env, None, false, "1", &[cache(1, L(1))], "stm-size");
        // refused before any init_full: the cache is still fresh
        send(out, &mut env, None, false, &m("1"), &cache(1, L(1)), "stm-size-cache-untouched");
        let many: Vec<Node> = (0..1025).map(|i| L(i % 7)).collect();
        stm(out, &mut env, s1i, false, "1", &many, "stm-size");
        stm(out, &mut env, s1i, false, "1", &many[..70], "stm-two-pages");
    }
    // WithSegment must hand its transition mode through: everything but Immediate is refused by the
    // gain operation — after init_full, so the cache is filled by the refused send
    for (wi, mode) in bad_modes().into_iter().enumerate() {
        let seg = if wi % 2 == 0 { Segment::S0 } else { Segment::S1 };
        let mut env = start(out, &[2, 3]);
        let t = grp(&["ab", "a.b"], vec![('a', cache(1, L(3))), ('b', cache(2, L(4)))]);
        send(out, &mut env, Some((seg, Some(mode))), wi % 2 == 1, &m("11"), &t, "mode");
        send(out, &mut env, Some((seg, Some(mode))), false, &m("00"), &L(1), "mode-nothing-enabled");
        send(out, &mut env, Some((Segment::S1, None)), false, &m("11"), &t, "mode-then-valid");
        send(out, &mut env, None, false, &m("01"), &cache(1, L(3)), "mode-cache-was-filled");
        send(out, &mut env, Some((seg, Some(mode))), false, &m("01"), &grp(&["ab", "a.b"], vec![('a', L(3))]), "mode-and-unknown-key");
        send_any(out, &mut env, How { stm: false, packp: true, pair: None }, Some((seg, Some(mode))), true, &m("11"), std::slice::from_ref(&t), &Sk::of(&t), "mode-parallel-pack");
    }
    // two gains as one tuple datagram (S0 and S1): clones of one cache in both members; the second
    // member is initialised even when the first one fails
    {
        let pair = |out: &mut Out, env: &mut Env, a: bool, b: bool, par: bool, mask: &str, t1: &Node, t2: &Node, tag: &str| {
            send_any(out, env, How { stm: false, packp: false, pair: Some((a, b)) }, None, par, &m(mask), &[t1.clone(), t2.clone()], &Sk::of(t1), tag)
        };
        for mask in ["11", "01", "10"] {
            let mut env = start(out, &[3, 3]);
            let a = grp(&["aaa", "aaa"], vec![('a', cache(1, L(1)))]);
            let b = grp(&["ab.", "b.a"], vec![('a', cache(1, L(1))), ('b', cache(2, L(2)))]);
            pair(out, &mut env, true, false, false, mask, &a, &b, "pair-F13-group-cache");
            pair(out, &mut env, false, true, true, mask, &b, &a, "pair-F13-group-cache-swapped");
        }
        let mut env = start(out, &[2, 2]);
        let bad = grp(&["ab", "aa"], vec![('a', cache(1, L(1)))]);
        let good = grp(&["aa", "aa"], vec![('a', cache(2, L(2)))]);
        pair(out, &mut env, true, true, false, "11", &bad, &good, "pair-first-fails");
        // … so the cache of the second member is bound to mask 11 now
        send(out, &mut env, None, false, &m("01"), &good, "pair-first-fails-second-was-initialised");
        let (h1, h2) = (grp(&["ab", "ba"], vec![('a', H(1)), ('b', H(2))]), grp(&["a.", ".a"], vec![('a', H(3))]));
        pair(out, &mut env, false, false, true, "11", &h1, &h2, "pair-holo");
        pair(out, &mut env, true, true, true, "10", &h2, &h1, "pair-holo");
        let mut env = start(out, &[249, 249]);
        let rows: Vec<String> = (0..2).map(|d| (0..249).map(|t| if (t + d) % 3 == 0 { 'a' } else { 'b' }).collect()).collect();
        let rows: Vec<&str> = rows.iter().map(|s| s.as_str()).collect();
        let t = grp(&rows, vec![('a', cache(1, L(1))), ('b', cache(2, L(2)))]);
        // two full-size gains do not fit one frame
        pair(out, &mut env, true, false, false, "11", &t, &t, "pair-two-frames");
    }
    // packed in parallel, as Sender::send does with `parallel`
    {
        let mut env = start(out, &[3, 3, 3]);
        let t = grp(&["abc", "bca", "cab"], vec![('a', H(1)), ('b', H(2)), ('c', H(3))]);
        let pp = How { stm: false, packp: true, pair: None };
        send_any(out, &mut env, pp, None, true, &m("111"), std::slice::from_ref(&t), &Sk::of(&t), "parallel-pack");
        send_any(out, &mut env, pp, s1i, true, &m("101"), std::slice::from_ref(&t), &Sk::of(&t), "parallel-pack");
        send_any(out, &mut env, How { stm: true, packp: true, pair: None }, None, true, &m("110"), &[t.clone(), t.clone()], &Sk::of(&t), "parallel-pack-stm");
    }
}

pub fn run(args: &Args) {
    let mut out = Out::new(&args.out);
    let thorough = args.tier == "thorough";
    let mut rng = Rng::new(args.seed ^ 0xC14);

    corpus(&mut out);

    // ---- every shape × every enable mask of 1…4 devices: send, send again, send under another
    //      segment wrapper, then the caches inside another tree
    let fillings = if thorough { 24 } else { 3 };
    let stm_fillings = if thorough { 8 } else { 2 };
    for sk in catalogue() {
        for n in 1..=4usize {
            for mask in all_masks(n) {
                for rep in 0..fillings {
                    let dims = pick_dims(&mut rng, n, rep == 3);
                    let mut env = start(&mut out, &dims);
                    let mut f = Filler { rng: &mut rng, mask: mask.clone(), dims: dims.clone(), plant: None, planted: false, reuse: false, used_ids: BTreeSet::new(), extra: vec![] };
                    let t = f.fill(&mut env, &sk);
                    let par = f.rng.chance(1, 2);
                    out.count(&format!("shape:{}", sk.name()));
                    send_sk(&mut out, &mut env, None, par, &mask, &t, &sk, "sweep");
                    if env.dead {
                        continue;
                    }
                    send_sk(&mut out, &mut env, pick_wrap_x(&mut rng, 6), par, &mask, &t, &sk, "sweep-again");
                    if env.dead {
                        continue;
                    }
                    // the caches of this history inside a fresh tree of a random shape
                    let sk2 = rng.pick(&catalogue()).clone();
                    let mut f = Filler { rng: &mut rng, mask: mask.clone(), dims: dims.clone(), plant: None, planted: false, reuse: true, used_ids: BTreeSet::new(), extra: vec![] };
                    let t2 = f.fill(&mut env, &sk2);
                    send_sk(&mut out, &mut env, pick_wrap_x(&mut rng, 6), par, &mask, &t2, &sk2, "sweep-reuse");
                    // ---- the same shape and mask as the elements of a GainSTM (fresh history): send,
                    //      send again inside a segment wrapper, then the last element as a plain gain
                    if rep >= stm_fillings {
                        continue;
                    }
                    let mut env = start(&mut out, &dims);
                    let k = rng.range(2, if thorough { 5 } else { 3 }) as usize;
                    let (ts, _) = gen_stm(&mut rng, &mut env, &sk, &mask, &dims, k, None, false);
                    let how = How { stm: true, packp: rng.chance(1, 4), pair: None };
                    send_any(&mut out, &mut env, how, None, par, &mask, &ts, &sk, "sweep-stm");
                    if env.dead {
                        continue;
                    }
                    send_any(&mut out, &mut env, how, pick_wrap(&mut rng), par, &mask, &ts, &sk, "sweep-stm-again");
                    if env.dead {
                        continue;
                    }
                    let last = ts.last().unwrap().clone();
                    send_sk(&mut out, &mut env, pick_wrap_x(&mut rng, 4), par, &mask, &last, &sk, "sweep-stm-then-gain");
                    if env.dead {
                        continue;
                    }
                    // the first and the last element as the two members of a tuple datagram
                    let how = How { stm: false, packp: rng.chance(1, 4), pair: Some((rng.chance(1, 2), rng.chance(1, 2))) };
                    send_any(&mut out, &mut env, how, None, par, &mask, &[ts[0].clone(), last], &sk, "sweep-pair");
                }
            }
        }
    }

    // ---- random histories: clean sends, planted key mismatches / failing leaves, mask changes
    let histories = if thorough { 40000 } else { 3000 };
    let cat = catalogue();
    for _ in 0..histories {
        let n = rng.range(1, 4) as usize;
        let dims = pick_dims(&mut rng, n, true);
        let mut env = start(&mut out, &dims);
        let masks = all_masks(n);
        let mut mask = rng.pick(&masks).clone();
        if rng.chance(1, 3) {
            mask = vec![true; n];
        }
        let sends = rng.range(2, 7);
        for _ in 0..sends {
            if env.dead {
                break;
            }
            let mode = rng.below(10);
            let sk = if mode == 5 && rng.chance(1, 2) {
                rng.pick(&[Sk::E, c(Sk::E), g(c(Sk::E)), Sk::D, g(Sk::D), c(g(Sk::D))]).clone()
            } else {
                rng.pick(&cat).clone()
            };
            let plant = match mode {
                2 => Some(Plant::Unknown),
                3 => Some(Plant::Unused),
                4 => Some(Plant::Both),
                5 => Some(Plant::LeafErr),
                _ => None,
            };
            if mode == 6 {
                // change the mask and re-send something that holds a cache of the old mask
                let old = mask.clone();
                mask = rng.pick(&masks).clone();
                let cands: Vec<u32> = env
                    .info
                    .iter()
                    .filter(|(_, ci)| !ci.poisoned && ci.first_mask.as_ref() == Some(&old) && ci.inner.filter_free() && well_keyed(&ci.inner, &mask))
                    .map(|(id, _)| *id)
                    .collect();
                if let Some(&id) = cands.first() {
                    let node = Node::C(id, Box::new(env.info[&id].inner.clone()));
                    let sk = env.info[&id].sk.clone();
                    out.count(if old == mask { "mode:cache-resend-same-mask" } else { "mode:cache-resend-other-mask" });
                    send_sk(&mut out, &mut env, pick_wrap(&mut rng), false, &mask, &node, &sk, "mask-change");
                    continue;
                }
            }
            if rng.chance(1, 8) {
                // two trees as the members of a tuple datagram
                let (ts, planted) = gen_stm(&mut rng, &mut env, &sk, &mask, &dims, 2, plant, true);
                let par = rng.chance(1, 2);
                out.count(&format!(
                    "mode:pair-{}",
                    match (plant, planted) {
                        (Some(p), true) => format!("{p:?}").to_lowercase(),
                        (Some(_), false) => "clean(no-site)".into(),
                        (None, _) => "clean".into(),
                    }
                ));
                out.count(&format!("shape:{}", sk.name()));
                let how = How { stm: false, packp: rng.chance(1, 4), pair: Some((rng.chance(1, 2), rng.chance(1, 2))) };
                send_any(&mut out, &mut env, how, None, par, &mask, &ts, &sk, "random-pair");
                continue;
            }
            if rng.chance(1, 4) {
                // the trees as the elements of a GainSTM (rarely of a refused size)
                let k = match rng.below(16) {
                    0 => rng.below(2) as usize,
                    1 if thorough => rng.range(5, 9) as usize,
                    _ => rng.range(2, 4) as usize,
                };
                let (ts, planted) = gen_stm(&mut rng, &mut env, &sk, &mask, &dims, k, plant, true);
                let par = rng.chance(1, 2);
                out.count(&format!(
                    "mode:stm-{}",
                    match (plant, planted) {
                        (Some(p), true) => format!("{p:?}").to_lowercase(),
                        (Some(_), false) => "clean(no-site)".into(),
                        (None, _) => "clean".into(),
                    }
                ));
                out.count(&format!("shape:{}", sk.name()));
                let how = How { stm: true, packp: rng.chance(1, 4), pair: None };
                send_any(&mut out, &mut env, how, pick_wrap(&mut rng), par, &mask, &ts, &sk, "random-stm");
                continue;
            }
            let mut f = Filler {
                rng: &mut rng,
                mask: mask.clone(),
                dims: dims.clone(),
                plant: plant.map(|p| (p, 0)),
                planted: false,
                reuse: plant.is_none(),
                used_ids: BTreeSet::new(),
                extra: vec![],
            };
            if let Some((p, _)) = f.plant {
                f.plant = Some((p, f.rng.below(3) as u32));
            }
            let t = f.fill(&mut env, &sk);
            let planted = f.planted;
            let par = rng.chance(1, 2);
            out.count(&format!(
                "mode:{}",
                match (plant, planted) {
                    (Some(p), true) => format!("{p:?}").to_lowercase(),
                    (Some(_), false) => "clean(no-site)".into(),
                    (None, _) => "clean".into(),
                }
            ));
            out.count(&format!("shape:{}", sk.name()));
            let how = How { stm: false, packp: rng.chance(1, 4), pair: None };
            send_any(&mut out, &mut env, how, pick_wrap_x(&mut rng, 8), par, &mask, std::slice::from_ref(&t), &sk, "random");
        }
    }
    out.sample("geo 3 3 / send - 0 01 G[aaa|aaa]{a:C1(L1)} / (again)".into());
    out.sample("geo 2 2 2 2 / send - 0 1011 C9(G[ab|ab|..|b.]{a:C1(L7),b:C2(L8)}) x3 / send - 0 1011 G[cc|cc|cc|cc]{c:C1(L7)}".into());
    out.sample("geo 3 1 / send 1 0 01 B(G[a.b|b]{a:B(B(H3)),b:B(G[xyx|x]{x:B(L1),y:B(H2)})})".into());
    out.sample("geo 3 3 / stm - 0 01 G[aaa|aaa]{a:C1(L1)};G[ab.|b.a]{a:C1(L1),b:C2(L2)} / stm 1i 0 01 (b;a;b)".into());
    out.sample("geo 2 3 / send 0e 0 11 G[ab|a.b]{a:C1(L3),b:C2(L4)} -> err invalid-transition-mode / send - 0 01 C1(L3) -> err cache-geometry".into());
    out.finish(
        "wrappers",
        "a case is one send of a gain datagram, of a GainSTM whose elements are wrapper trees, or of a tuple of two gains; non-trivial = (the tree has at least one wrapper, or it is a GainSTM / tuple, or the segment wrapper carries a mode other than Immediate) and (some device is enabled or the outcome is an error); distinct by (context+length+tree shape without salts/ids/key maps, enable mask, outcome kind, segment wrapper incl. mode, device sizes). Modelled dimensions: context (send/stm/pair op), transition mode (wrap token), STM length and cache sharing between elements; invisible to the model (same answers required): pack:parallel (`+p`, OperationHandler::pack with parallel as Sender::send does). Oracle-only: stm_cycle / gain mode of the segment after a GainSTM.",
    );
}
