//! `parallel` stream (C10): parallel and serial execution put identical bytes on the wire.
//!
//! Model-tied lines (answered by `Drv/C10.lean`, grammar there): sessions of sends through
//! `OperationHandler::{generate, pack, is_done}` directly (path `h`) and through a real `Controller`
//! with a recording link under `ParallelMode::Off / On` (path `c`), `group_send`, the parallel
//! decision as observed by a probe datagram, `Datagram::option().parallel_threshold`, and the cell
//! layout of `NalgebraBackend::generate_propagation_matrix`.
//!
//! Oracle (the property itself, on the implementation): from *identical* initial `tx` buffers the
//! frames of a send with `parallel = true` (repeated, to vary the scheduling of the pool) are
//! byte-for-byte those of `parallel = false`, the result is the same and so is the number of frames;
//! the three controllers (`On`, `Off`, `Auto`) record identical frames for identical scripts; the
//! `parallel` flag handed to the datagram is the mode `pack` really runs in; the propagation matrix
//! equals a serially computed reference bit for bit; holo gains give identical drives on every run.
//!
//! Input dimensions added after the coverage review (notes/coverage-review/C06-C10.md, C10):
//!  * a `pack` that fails on SOME devices only — model-tied through `group_send` (a Modulation of one sample
//!    or a tuple whose gain is refused, for the devices of one key) and oracle-only through a fail-probe
//!    datagram (`FailProbe`: any set of failing devices, at any pack call, with busy work per device);
//!  * the size of rayon's global pool is fixed to 8 threads (`RAYON_NUM_THREADS`), whatever the host has;
//!  * statically typed tuples through `Sender::send` / `group_send` (the real `tuple.rs` impl), model-tied;
//!  * sessions with 32 and 64 devices (more devices than pool threads).
use crate::common::*;
use crate::fwc::{self, DgVisitor, Spec, build, gain_drive_words, to_div, to_loop, to_segment};
use autd3::controller::{Controller, ParallelMode, SenderOption, SpinSleeper};
use autd3::prelude::*;
use autd3_core::datagram::{Datagram, DatagramOption, NullOp, Operation};
use autd3_core::gain::{BitVec, Gain, GainCalculator, GainCalculatorGenerator};
use autd3_core::geometry::{Device, Transducer};
use autd3_core::link::{Link, LinkError, RxMessage, TxMessage};
use autd3_driver::datagram::{PulseWidthEncoder, Synchronize};
use autd3_driver::firmware::operation::{OperationGenerator, OperationHandler};
use autd3_gain_holo::{
    EmissionConstraint, GS, GSOption, GSPAT, GSPATOption, LM, LMOption, LinAlgBackend, NalgebraBackend, Naive,
    NaiveOption, Pa, Sphere,
};
use std::collections::HashMap;
use std::sync::{Arc, Mutex};
use std::time::Duration;
use zerocopy::{FromZeros, IntoBytes};

// ------------------------------------------------------------------------------------------------
// frames, outcomes

#[derive(Clone, PartialEq, Debug)]
struct Outcome {
    result: String,
    /// every frame handed to the link: the bytes of *all* devices' `TxMessage`s
    frames: Vec<Vec<u8>>,
}

fn err_name(e: &AUTDDriverError) -> String {
    let s = format!("{e:?}");
    s.chars().take_while(|c| c.is_alphanumeric()).collect()
}

fn tx_bytes(tx: &[TxMessage]) -> Vec<u8> {
    tx.iter().flat_map(|t| t.as_bytes().to_vec()).collect()
}

/// the `F=` chain of the model driver: over every frame, over every device
fn frame_hash(frames: &[Vec<u8>]) -> u64 {
    let mut h = 0u64;
    for f in frames {
        for (dev, chunk) in f.chunks(626).enumerate() {
            let mut v = Vec::with_capacity(9 + 626);
            v.extend_from_slice(&h.to_le_bytes());
            v.push(dev as u8);
            v.extend_from_slice(chunk);
            h = fnv64(&v);
        }
    }
    h
}

impl Outcome {
    fn answer(&self) -> String {
        format!("R={} N={} F={}", self.result, self.frames.len(), frame_hash(&self.frames))
    }
}

/// the loop of `Sender::send_impl` without link and timing: pack, "send", stop when done
fn send_loop<O1, O2>(
    mut op: Vec<Option<(O1, O2)>>,
    geo: &Geometry,
    tx: &mut [TxMessage],
    parallel: bool,
) -> Outcome
where
    O1: Operation,
    O2: Operation,
    AUTDDriverError: From<O1::Error> + From<O2::Error>,
{
    let mut frames = vec![];
    loop {
        if let Err(e) = OperationHandler::pack(&mut op, geo, tx, parallel) {
            return Outcome { result: format!("err:{}", err_name(&e)), frames };
        }
        frames.push(tx_bytes(tx));
        if OperationHandler::is_done(&op) {
            return Outcome { result: "ok".into(), frames };
        }
        // the longest legitimate send here has ~210 frames
        if frames.len() > 3000 {
            return Outcome { result: "err:runaway".into(), frames };
        }
    }
}

fn send_dg<D>(d: D, geo: &Geometry, tx: &mut [TxMessage], parallel: bool) -> Outcome
where
    D: Datagram,
    AUTDDriverError: From<D::Error>,
    D::G: OperationGenerator,
    AUTDDriverError: From<<<D::G as OperationGenerator>::O1 as Operation>::Error>
        + From<<<D::G as OperationGenerator>::O2 as Operation>::Error>,
{
    match d.operation_generator(geo, parallel) {
        Ok(g) => send_loop(OperationHandler::generate(g, geo), geo, tx, parallel),
        Err(e) => Outcome { result: format!("err:{}", err_name(&AUTDDriverError::from(e))), frames: vec![] },
    }
}

struct RunV<'a> {
    geo: &'a Geometry,
    tx: &'a mut [TxMessage],
    parallel: bool,
}
impl DgVisitor for RunV<'_> {
    type R = Outcome;
    fn visit<D>(self, d: D) -> Outcome
    where
        D: Datagram,
        AUTDDriverError: From<D::Error>,
        D::G: OperationGenerator,
        AUTDDriverError: From<<<D::G as OperationGenerator>::O1 as Operation>::Error>
            + From<<<D::G as OperationGenerator>::O2 as Operation>::Error>,
    {
        send_dg(d, self.geo, self.tx, self.parallel)
    }
}

struct PairV1<'a> {
    geo: &'a Geometry,
    tx: &'a mut [TxMessage],
    parallel: bool,
    b: &'a Spec,
}
impl DgVisitor for PairV1<'_> {
    type R = Outcome;
    fn visit<A>(self, a: A) -> Outcome
    where
        A: Datagram,
        AUTDDriverError: From<A::Error>,
        A::G: OperationGenerator,
        AUTDDriverError: From<<<A::G as OperationGenerator>::O1 as Operation>::Error>
            + From<<<A::G as OperationGenerator>::O2 as Operation>::Error>,
    {
        build(self.b, PairV2 { geo: self.geo, tx: self.tx, parallel: self.parallel, a })
    }
}
struct PairV2<'a, A> {
    geo: &'a Geometry,
    tx: &'a mut [TxMessage],
    parallel: bool,
    a: A,
}
impl<A> DgVisitor for PairV2<'_, A>
where
    A: Datagram,
    AUTDDriverError: From<A::Error>,
    A::G: OperationGenerator,
    AUTDDriverError: From<<<A::G as OperationGenerator>::O1 as Operation>::Error>
        + From<<<A::G as OperationGenerator>::O2 as Operation>::Error>,
{
    type R = Outcome;
    fn visit<B>(self, b: B) -> Outcome
    where
        B: Datagram,
        AUTDDriverError: From<B::Error>,
        B::G: OperationGenerator,
        AUTDDriverError: From<<<B::G as OperationGenerator>::O1 as Operation>::Error>
            + From<<<B::G as OperationGenerator>::O2 as Operation>::Error>,
    {
        // what `impl Datagram for (D1, D2)` + `CombinedOperationGenerator` do, at operation level (a
        // generic visitor cannot name the type equality the tuple impl needs; typed tuples are sent
        // through the controllers below)
        let (geo, tx, parallel) = (self.geo, self.tx, self.parallel);
        let (mut g1, mut g2) = match (self.a.operation_generator(geo, parallel), b.operation_generator(geo, parallel)) {
            (Ok(g1), Ok(g2)) => (g1, g2),
            (Err(e), _) => return Outcome { result: format!("err:{}", err_name(&AUTDDriverError::from(e))), frames: vec![] },
            (_, Err(e)) => return Outcome { result: format!("err:{}", err_name(&AUTDDriverError::from(e))), frames: vec![] },
        };
        let op: Vec<Option<_>> = geo
            .devices()
            .map(|dev| {
                let (o1, _) = g1.generate(dev);
                let (o2, _) = g2.generate(dev);
                Some((o1, o2))
            })
            .collect();
        send_loop(op, geo, tx, parallel)
    }
}

// ------------------------------------------------------------------------------------------------
// oracle-only: a datagram whose `pack` fails on a chosen SET of devices (coverage review C10 gap 1:
// every failing datagram of the model-tied kinds fails on all devices alike)

/// the thread-pool threads that were seen packing (evidence that the pool really has several workers)
static POOL_THREADS: Mutex<Vec<std::thread::ThreadId>> = Mutex::new(Vec::new());

/// `frames` frames per device; the `at`-th `pack` call (1-based) of every device whose index is in the
/// bit set `fail` returns `Err`; `spin`: a fixed amount of busy work per call that depends on the parity
/// of the device, so that the device tasks of a thread-pool run overlap and finish out of order
#[derive(Clone, Debug)]
struct FailSpec {
    fail: u64,
    at: usize,
    frames: usize,
    spin: bool,
}
#[derive(Debug)]
struct FailProbe(FailSpec);
struct FailGen(FailSpec);
struct FailOp {
    s: FailSpec,
    packs: usize,
}
impl Operation for FailOp {
    type Error = AUTDDriverError;
    fn required_size(&self, _: &Device) -> usize {
        4
    }
    fn pack(&mut self, dev: &Device, tx: &mut [u8]) -> Result<usize, AUTDDriverError> {
        if self.s.spin {
            // a fixed iteration count (no clock): even devices ~20x longer than odd ones
            let k = if dev.idx() % 2 == 0 { 40_000u32 } else { 2_000 };
            let mut acc = 0u32;
            for i in 0..k {
                acc = std::hint::black_box(acc.wrapping_add(i));
                std::hint::spin_loop();
            }
            std::hint::black_box(acc);
            let id = std::thread::current().id();
            let mut seen = POOL_THREADS.lock().unwrap();
            if !seen.contains(&id) {
                seen.push(id);
            }
        }
        self.packs += 1;
        if self.packs == self.s.at && (self.s.fail >> (dev.idx() % 64)) & 1 == 1 {
            return Err(AUTDDriverError::NotSupportedTag);
        }
        tx[0] = 0x60;
        tx[1] = self.packs as u8;
        tx[2] = dev.idx() as u8;
        tx[3] = self.s.frames as u8;
        Ok(4)
    }
    fn is_done(&self) -> bool {
        self.packs >= self.s.frames
    }
}
impl OperationGenerator for FailGen {
    type O1 = FailOp;
    type O2 = NullOp;
    fn generate(&mut self, _: &Device) -> (FailOp, NullOp) {
        (FailOp { s: self.0.clone(), packs: 0 }, NullOp)
    }
}
impl Datagram for FailProbe {
    type G = FailGen;
    type Error = std::convert::Infallible;
    fn operation_generator(self, _: &Geometry, _: bool) -> Result<FailGen, Self::Error> {
        Ok(FailGen(self.0))
    }
    fn option(&self) -> DatagramOption {
        DatagramOption::default()
    }
}

/// one datagram of a script: a single spec or a pair (model-tied), or a fail probe (oracle only)
#[derive(Clone, Debug)]
enum Item {
    One(Spec),
    Pair(Spec, Spec),
    Fail(FailSpec),
}
impl Item {
    fn text(&self) -> String {
        match self {
            Item::One(s) => s.text(),
            Item::Pair(a, b) => format!("pair {} | {}", a.text(), b.text()),
            Item::Fail(f) => format!("failprobe fail={:x} at={} frames={} spin={} (oracle only)", f.fail, f.at, f.frames, f.spin as u8),
        }
    }
    fn kind(&self) -> String {
        match self {
            Item::One(s) => s.kind().to_string(),
            Item::Pair(a, b) => format!("{}+{}", a.kind(), b.kind()),
            Item::Fail(_) => "failprobe".to_string(),
        }
    }
    fn run(&self, geo: &Geometry, tx: &mut [TxMessage], parallel: bool) -> Outcome {
        match self {
            Item::One(s) => build(s, RunV { geo, tx, parallel }),
            Item::Pair(a, b) => build(a, PairV1 { geo, tx, parallel, b }),
            Item::Fail(f) => send_dg(FailProbe(f.clone()), geo, tx, parallel),
        }
    }
}

/// a fail probe for `n` devices under `mask`: which devices fail is independent of which are enabled
fn gen_fail_item(r: &mut Rng, n: usize, mask: u64) -> Item {
    let all = if n >= 64 { u64::MAX } else { (1u64 << n) - 1 };
    let frames = r.range(1, 4) as usize;
    let at = r.range(1, frames as u64) as usize;
    let fail = match r.below(8) {
        // exactly one enabled device fails (the first, the last, any)
        0 if mask != 0 => 1u64 << mask.trailing_zeros(),
        1 if mask != 0 => 1u64 << (63 - mask.leading_zeros()),
        2 | 3 if mask != 0 => {
            let en: Vec<u64> = (0..n as u64).filter(|i| (mask >> i) & 1 == 1).collect();
            1u64 << *r.pick(&en)
        }
        // only disabled devices "fail": nothing may fail
        4 => !mask & all,
        // a random set
        5 | 6 => r.next() & all,
        _ => all,
    };
    Item::Fail(FailSpec { fail, at, frames, spin: r.chance(2, 3) })
}

fn set_mask(geo: &mut Geometry, mask: u64) {
    for (i, dev) in geo.iter_mut().enumerate() {
        dev.enable = (mask >> i) & 1 == 1;
    }
}

fn fresh_tx(n: usize, dirty: u64) -> Vec<TxMessage> {
    let mut tx = vec![TxMessage::new_zeroed(); n];
    if dirty != 0 {
        for (i, t) in tx.iter_mut().enumerate() {
            let b = pr_bytes(dirty + i as u64, 622);
            t.payload_mut().copy_from_slice(&b);
        }
    }
    tx
}

// ------------------------------------------------------------------------------------------------
// generators

fn tr_imm() -> fwc::Tr {
    Some((0xFF, 0))
}

/// a datagram of every kind, with sizes on the frame boundaries of the multi-frame kinds
fn gen_spec(r: &mut Rng, big: bool) -> Spec {
    let seed = r.range(1, 1 << 30);
    let seg = r.below(2) as u8;
    let tr = if r.chance(1, 2) { None } else { tr_imm() };
    let rep = if r.chance(1, 2) { 0xFFFF } else { r.below(3) as u16 };
    match r.below(22) {
        0 => Spec::Clear,
        1 => Spec::Sync,
        2 => Spec::Fan(r.chance(1, 2)),
        3 => Spec::Reads(r.chance(1, 2)),
        4 => Spec::CpuGpio((r.below(4) as u8) << 5 & 0xA0),
        5 => Spec::GpioIn(r.below(16) as u8),
        6 => Spec::Debug([0x0100000000000000, 0x2100000000000005, 0x5100000000000007, 0x1000000000000000]),
        7 => Spec::PhaseCorr(seed),
        8 => Spec::Pwe(seed),
        9 => Spec::PweDefault,
        10 => Spec::SilSteps(r.range(1, 300) as u16, r.range(1, 300) as u16, r.chance(1, 2)),
        11 => Spec::SilRate(r.range(1, 300) as u16, r.range(1, 300) as u16),
        12 | 13 => Spec::Gain { seg, tr, seed },
        14 | 15 => {
            // first frame carries 254 samples, later ones 620 (alone in the frame)
            let sizes: &[usize] = if big { &[65536, 32768, 254 + 620 * 20 + 1] } else { &[2, 3, 253, 254, 255, 874, 875, 1494, 1495, 2000] };
            Spec::Mod { seg, tr, rep, div: r.range(1, 5000) as u16, n: *r.pick(sizes), seed }
        }
        16 | 17 => {
            let n = r.range(1, 8) as usize;
            // head frame: (622-24)/(8n) patterns, later (622-4)/(8n)
            let first = 598 / (8 * n);
            let later = 618 / (8 * n);
            let sizes = [2usize, first.max(2), first + 1, first + later, first + later + 1, first + 3 * later];
            let size = if big { 8192 / n } else { *r.pick(&sizes) };
            Spec::Foci { n, seg, tr, rep, div: r.range(1, 5000) as u16, ss: 0, size: size.max(2), seed }
        }
        18 | 19 => {
            let mode = r.below(3) as u8;
            let sizes: &[usize] = if big { &[200] } else { &[2, 3, 4, 5, 7, 8, 9] };
            Spec::GainStm { mode, seg, tr, rep, div: r.range(1, 5000) as u16, size: *r.pick(sizes), seed }
        }
        20 => match r.below(4) {
            0 => Spec::SwapGain(seg, (0xFF, 0)),
            1 => Spec::SwapMod(seg, (0xFF, 0)),
            2 => Spec::SwapFoci(seg, (0xFF, 0)),
            _ => Spec::SwapGainStm(seg, (0xFF, 0)),
        },
        _ => Spec::FirmInfo(r.range(1, 5) as u8),
    }
}

/// the sound speed field of a FociSTM head is computed from the device (340 m/s → 340 * 64)
fn fix_ss(s: Spec) -> Spec {
    match s {
        Spec::Foci { n, seg, tr, rep, div, ss: _, size, seed } => Spec::Foci { n, seg, tr, rep, div, ss: 21760, size, seed },
        s => s,
    }
}

/// datagrams that are refused: when the generator is built, at the first `pack`, or — a pair whose
/// second member does not fit behind the first frame of the first — at a later `pack`, after frames
/// went out
fn gen_err_item(r: &mut Rng) -> Item {
    let seed = r.range(1, 1 << 20);
    match r.below(6) {
        0 => Item::One(Spec::Gain { seg: 0, tr: Some((0x00, 0)), seed }),
        1 => Item::One(Spec::Mod { seg: 0, tr: None, rep: 0xFFFF, div: 10, n: 1, seed }),
        2 => Item::One(Spec::GainStm { mode: 0, seg: 0, tr: None, rep: 0xFFFF, div: 10, size: 1, seed }),
        3 => Item::One(Spec::SwapGain(1, (0x00, 0))),
        4 => Item::Pair(
            Spec::Mod { seg: 0, tr: None, rep: 0xFFFF, div: 10, n: *r.pick(&[300usize, 900, 1500]), seed },
            Spec::Gain { seg: 1, tr: Some((0x00, 0)), seed },
        ),
        _ => Item::Pair(
            Spec::GainStm { mode: 0, seg: 0, tr: None, rep: 0xFFFF, div: 10, size: 3, seed },
            Spec::SwapGain(1, (0x00, 0)),
        ),
    }
}

fn gen_item(r: &mut Rng, big: bool) -> Item {
    if !big && r.chance(1, 4) {
        // the second member must fit behind the first one at least sometimes
        let a = fix_ss(gen_spec(r, false));
        let b = fix_ss(gen_spec(r, false));
        Item::Pair(a, b)
    } else {
        Item::One(fix_ss(gen_spec(r, big)))
    }
}

fn gen_mask(r: &mut Rng, n: usize) -> u64 {
    let all = if n == 64 { u64::MAX } else { (1u64 << n) - 1 };
    match r.below(9) {
        0 | 1 => all,
        2 => all & !1,                          // first disabled
        3 => all & !(1 << (n - 1)),             // last disabled
        4 => all & 0x5555_5555_5555_5555,       // every other one
        5 => all & 0xAAAA_AAAA_AAAA_AAAA,
        6 => 1 << r.below(n as u64),            // a single device
        7 => 0,                                 // nothing enabled
        _ => r.next() & all,
    }
}

fn mask_class(n: usize, mask: u64) -> &'static str {
    let all = if n >= 64 { u64::MAX } else { (1u64 << n) - 1 };
    if mask == all {
        "mask:all"
    } else if mask == 0 {
        "mask:none"
    } else if mask.count_ones() == 1 {
        "mask:single"
    } else if mask & 1 == 0 {
        "mask:first-disabled"
    } else {
        "mask:mixed"
    }
}

// ------------------------------------------------------------------------------------------------
// path h: OperationHandler directly

struct HSession {
    n: usize,
    mask: u64,
    geo: Geometry,
    tx: Vec<TxMessage>,
    log: Vec<String>,
}

impl HSession {
    fn new(out: &mut Out, n: usize, mask: u64, dirty: u64) -> Self {
        let mut geo = crate::dev::create_geometry(n);
        set_mask(&mut geo, mask);
        let line = format!("reset h {n} {mask:x} {dirty}");
        out.line(&line, "ok");
        HSession { n, mask, geo, tx: fresh_tx(n, dirty), log: vec![line] }
    }
    fn mask(&mut self, out: &mut Out, mask: u64) {
        self.mask = mask;
        set_mask(&mut self.geo, mask);
        let line = format!("mask {mask:x}");
        out.line(&line, "ok");
        self.log.push(line);
    }
    /// oracle on cloned buffers, then two emitted sends (serial, then thread pool) on the session state
    fn case(&mut self, out: &mut Out, item: &Item, sched: u64, repeats: usize) -> bool {
        let text = item.text();
        // ---- the property, from identical initial buffers
        let mut tx_s = self.tx.clone();
        let ser = item.run(&self.geo, &mut tx_s, false);
        for k in 0..repeats {
            let mut tx_p = self.tx.clone();
            let par = item.run(&self.geo, &mut tx_p, true);
            let same_tx = ser.result != "ok" || tx_bytes(&tx_p) == tx_bytes(&tx_s);
            if par != ser || !same_tx {
                let first = ser.frames.iter().zip(par.frames.iter()).position(|(a, b)| a != b);
                let what = format!(
                    "{} devices (enable mask {:#x}), datagram `{text}`: parallel=true gives result {} after {} frames, parallel=false gives {} after {} frames; first differing frame: {:?}{} (parallel run #{k})",
                    self.n,
                    self.mask,
                    par.result,
                    par.frames.len(),
                    ser.result,
                    ser.frames.len(),
                    first,
                    match first {
                        Some(f) => {
                            let dev = ser.frames[f].chunks(626).zip(par.frames[f].chunks(626)).position(|(a, b)| a != b);
                            format!(", device {dev:?}")
                        }
                        None => String::new(),
                    }
                );
                let mut replay = self.log.clone();
                replay.push(format!("send 0 {text}   # parallel=false"));
                replay.push(format!("send 1 {text}   # parallel=true, from the same buffers"));
                out.violation(format!("C10:par-vs-ser:{}:n{}:m{:x}", item.kind(), self.n, self.mask), what, replay);
                break;
            }
        }
        if let Item::Fail(f) = item {
            // oracle only (no model line, the session state is left as it is).  Beyond "parallel = serial":
            // the outcome is the one the property text gives — the send fails iff some ENABLED device is in
            // the failing set and the failing call is reached, after exactly `at - 1` complete frames
            let hit = f.fail & self.mask & (if self.n >= 64 { u64::MAX } else { (1u64 << self.n) - 1 });
            let want = if hit != 0 && f.at <= f.frames { ("err:NotSupportedTag".to_string(), f.at - 1) } else { ("ok".to_string(), if self.mask == 0 { 1 } else { f.frames }) };
            // (no enabled device: `pack` has nothing to do, one untouched frame goes out, `is_done` holds)
            if (ser.result.clone(), ser.frames.len()) != want {
                let mut replay = self.log.clone();
                replay.push(format!("send 0 {text}"));
                out.violation(
                    format!("C10:failprobe-expect:n{}:m{:x}:f{:x}", self.n, self.mask, f.fail),
                    format!(
                        "{} devices (enable mask {:#x}), {text}: serial send gives {} after {} frames, expected {} after {} frames",
                        self.n, self.mask, ser.result, ser.frames.len(), want.0, want.1
                    ),
                    replay,
                );
            }
            let en = self.mask.count_ones() as u64;
            out.count(if hit == 0 {
                if f.fail & !self.mask != 0 { "failprobe:only-disabled-devices-in-the-failing-set (oracle only)" } else { "failprobe:nobody-fails (oracle only)" }
            } else if (hit.count_ones() as u64) < en {
                "failprobe:SOME-enabled-devices-fail (oracle only)"
            } else {
                "failprobe:all-enabled-devices-fail (oracle only)"
            });
            if hit != 0 && f.at > 1 {
                out.count("failprobe:fails-after-frames-went-out (oracle only)");
            }
            out.count(&format!("ndev:{}", self.n));
            out.case(Some(fnv64(format!("{}|{}|{}", self.n, self.mask, text).as_bytes())));
            return true;
        }
        // ---- the model tie: serial line, then thread-pool line, on the running state
        let mut alive = true;
        for (sd, par) in [(0u64, false), (sched.max(1), true)] {
            let line = format!("send {sd} {text}");
            let geo = &self.geo;
            let tx = &mut self.tx;
            let ans = match guarded(|| item.run(geo, tx, par)) {
                Ok(o) => {
                    out.count(&format!("result:{}", if o.result == "ok" { "ok" } else { "err" }));
                    out.count(match o.frames.len() {
                        0 => "frames:0",
                        1 => "frames:1",
                        2..=9 => "frames:2-9",
                        _ => "frames:10+",
                    });
                    if o.result != "ok" {
                        alive = false;
                    }
                    o.answer()
                }
                Err(m) => {
                    alive = false;
                    out.violation(format!("C10:panic:{}", panic_key(&m)), format!("`{text}` panicked: {m}"), self.log.clone());
                    "panic".into()
                }
            };
            out.line(&line, &ans);
            self.log.push(line);
            if !alive {
                // after a failing pack the leftover buffers depend on the schedule: the session ends
                break;
            }
        }
        out.count(&format!("kind:{}", item.kind().split('+').next().unwrap_or("")));
        out.count(&format!("ndev:{}", self.n));
        out.count(mask_class(self.n, self.mask));
        out.case(Some(fnv64(format!("{}|{}|{}|{}", self.n, self.mask, text, ser.frames.len()).as_bytes())));
        if self.n >= 3 && self.mask != 0 && ser.frames.len() >= 2 {
            out.sample(format!("{} ; send 0 {text} ; send {sched} {text} -> {}", self.log[0], ser.answer()));
        }
        alive
    }
}

// ------------------------------------------------------------------------------------------------
// path c: Controller + recording link

#[derive(Default)]
struct Rec {
    frames: Vec<Vec<u8>>,
    last_ids: Vec<u8>,
}

struct RecLink {
    rec: Arc<Mutex<Rec>>,
    open: bool,
}
impl Link for RecLink {
    fn open(&mut self, _: &Geometry) -> Result<(), LinkError> {
        self.open = true;
        Ok(())
    }
    fn close(&mut self) -> Result<(), LinkError> {
        self.open = false;
        Ok(())
    }
    fn send(&mut self, tx: &[TxMessage]) -> Result<(), LinkError> {
        let mut r = self.rec.lock().unwrap();
        // the longest legitimate send here has ~210 frames: a send that never finishes (e.g. a pack error that
        // is swallowed, so that the operation is never done) must end as an answer, not eat the machine
        if r.frames.len() >= 3000 {
            return Err(LinkError::new("runaway send: more than 3000 frames"));
        }
        r.frames.push(tx_bytes(tx));
        r.last_ids = tx.iter().map(|t| t.header.msg_id).collect();
        Ok(())
    }
    fn receive(&mut self, rx: &mut [RxMessage]) -> Result<(), LinkError> {
        let r = self.rec.lock().unwrap();
        for (x, id) in rx.iter_mut().zip(r.last_ids.iter()) {
            *x = RxMessage::new(0, *id);
        }
        Ok(())
    }
    fn is_open(&self) -> bool {
        self.open
    }
}

fn sender_option(mode: ParallelMode) -> SenderOption<SpinSleeper> {
    SenderOption {
        send_interval: Duration::ZERO,
        receive_interval: Duration::ZERO,
        timeout: Some(Duration::from_millis(200)),
        parallel: mode,
        sleeper: SpinSleeper::default(),
    }
}

struct Ctl {
    autd: Controller<RecLink>,
    rec: Arc<Mutex<Rec>>,
    mode: ParallelMode,
}

impl Ctl {
    /// opens a controller; returns it with the frames recorded during `open` (ForceFan, then (Clear, Sync))
    fn open(n: usize, mode: ParallelMode) -> (Self, Vec<Vec<u8>>) {
        let rec = Arc::new(Mutex::new(Rec::default()));
        let link = RecLink { rec: rec.clone(), open: false };
        let autd = Controller::open_with_option(
            (0..n).map(|_| AUTD3 { pos: Point3::origin(), ..Default::default() }),
            link,
            sender_option(mode),
        )
        .expect("open");
        let frames = std::mem::take(&mut rec.lock().unwrap().frames);
        (Ctl { autd, rec, mode }, frames)
    }
    fn take(&self) -> Vec<Vec<u8>> {
        std::mem::take(&mut self.rec.lock().unwrap().frames)
    }
    fn send_spec(&mut self, s: &Spec) -> Outcome {
        let r = build(s, CtlV { c: self });
        Outcome { result: r, frames: self.take() }
    }
}

struct CtlV<'a> {
    c: &'a mut Ctl,
}
impl DgVisitor for CtlV<'_> {
    type R = String;
    fn visit<D>(self, d: D) -> String
    where
        D: Datagram,
        AUTDDriverError: From<D::Error>,
        D::G: OperationGenerator,
        AUTDDriverError: From<<<D::G as OperationGenerator>::O1 as Operation>::Error>
            + From<<<D::G as OperationGenerator>::O2 as Operation>::Error>,
    {
        let mode = self.c.mode;
        match self.c.autd.sender(sender_option(mode)).send(d) {
            Ok(()) => "ok".into(),
            Err(e) => format!("err:{}", err_name(&e)),
        }
    }
}

type TrFn = Box<dyn Fn(&Transducer) -> Drive + Send + Sync + 'static>;
/// the gain of `Spec::Gain` (drive words from the shared PRNG, per device), statically typed
fn typed_gain(seed: u64) -> WithSegment<autd3::gain::Custom<'static, TrFn, impl Fn(&Device) -> TrFn>> {
    typed_gain_tr(seed, 0, None)
}
/// the same with segment and transition mode (`Some((0x00, 0))` = SyncIdx, which `GainOp::pack` refuses)
fn typed_gain_tr(seed: u64, seg: u8, tr: fwc::Tr) -> WithSegment<autd3::gain::Custom<'static, TrFn, impl Fn(&Device) -> TrFn>> {
    WithSegment::new(
        autd3::gain::Custom::new(move |dev: &Device| -> TrFn {
            let w = Arc::new(gain_drive_words(seed, dev.idx()));
            Box::new(move |tr: &Transducer| {
                let x = w[tr.idx()];
                Drive { phase: Phase((x & 0xFF) as u8), intensity: EmitIntensity((x >> 8) as u8) }
            })
        }),
        to_segment(seg),
        tr.map(fwc::to_transition),
    )
}
fn typed_mod(n: usize, seed: u64) -> WithLoopBehavior<autd3::modulation::Custom<SamplingConfig>> {
    WithLoopBehavior::new(autd3::modulation::Custom::new(pr_bytes(seed, n), to_div(10)), to_loop(0xFFFF), to_segment(0), None)
}

/// a `group_send` script item: per-device keys and the parameters of each group's datagram
#[derive(Clone, Debug)]
enum GroupItem {
    Gains(Vec<Option<u8>>, Vec<u64>),
    /// a member with `n = 1` is refused by `ModulationOp::pack` — for the devices of its key only
    Mods(Vec<Option<u8>>, Vec<(usize, u64)>),
    /// statically typed tuples `(Modulation, Gain)` per key: (mod samples, mod seed, gain seed, bad).  The gain
    /// of a `bad` member has `TransitionMode::SyncIdx`: `GainOp::pack` refuses it in the frame in which the gain
    /// first fits behind the modulation — after frames went out, for the devices of that key only
    Pairs(Vec<Option<u8>>, Vec<(usize, u64, u64, bool)>),
}
fn pair_specs(p: &(usize, u64, u64, bool)) -> (Spec, Spec) {
    (
        Spec::Mod { seg: 0, tr: None, rep: 0xFFFF, div: 10, n: p.0, seed: p.1 },
        Spec::Gain { seg: 1, tr: if p.3 { Some((0x00, 0)) } else { None }, seed: p.2 },
    )
}
impl GroupItem {
    fn keys(&self) -> &Vec<Option<u8>> {
        match self {
            GroupItem::Gains(k, _) | GroupItem::Mods(k, _) | GroupItem::Pairs(k, _) => k,
        }
    }
    /// per key: is its datagram one that `pack` refuses
    fn failing_keys(&self) -> Vec<bool> {
        match self {
            GroupItem::Gains(_, s) => vec![false; s.len()],
            GroupItem::Mods(_, ps) => ps.iter().map(|p| p.0 < 2).collect(),
            GroupItem::Pairs(_, ps) => ps.iter().map(|p| p.3).collect(),
        }
    }
    /// "none" | "all" | "some": how many of the devices enabled under `mask` that have a key fail
    fn fail_class(&self, mask: u64) -> &'static str {
        let fk = self.failing_keys();
        let used: Vec<bool> = self.keys().iter().enumerate().filter(|(i, _)| (mask >> i) & 1 == 1).filter_map(|(_, k)| k.map(|k| fk[k as usize])).collect();
        if !used.iter().any(|b| *b) {
            "none"
        } else if used.iter().all(|b| *b) {
            "all"
        } else {
            "some"
        }
    }
    fn text(&self) -> String {
        let keys: String = self.keys().iter().map(|k| k.map(|k| (b'0' + k) as char).unwrap_or('-')).collect();
        let dgs: Vec<String> = match self {
            GroupItem::Gains(_, seeds) => seeds.iter().map(|s| Spec::Gain { seg: 0, tr: None, seed: *s }.text()).collect(),
            GroupItem::Mods(_, ps) => ps
                .iter()
                .map(|(n, s)| Spec::Mod { seg: 0, tr: None, rep: 0xFFFF, div: 10, n: *n, seed: *s }.text())
                .collect(),
            GroupItem::Pairs(_, ps) => ps
                .iter()
                .map(|p| {
                    let (a, b) = pair_specs(p);
                    format!("pair {} | {}", a.text(), b.text())
                })
                .collect(),
        };
        format!("{keys} | {}", dgs.join(" ; "))
    }
    fn run(&self, c: &mut Ctl) -> Outcome {
        let keys = self.keys().clone();
        let key_map = move |dev: &Device| keys[dev.idx()].map(|k| k as usize);
        // only the keys that some *enabled* device maps to may be in the map (others → UnusedKey, see C13)
        let used: Vec<usize> = {
            let mut u: Vec<usize> = c.autd.geometry().devices().filter_map(|d| self.keys()[d.idx()].map(|k| k as usize)).collect();
            u.sort();
            u.dedup();
            u
        };
        let mode = c.mode;
        let r = match self {
            GroupItem::Gains(_, seeds) => {
                let m: HashMap<usize, _> = used.iter().map(|k| (*k, typed_gain(seeds[*k]))).collect();
                c.autd.sender(sender_option(mode)).group_send(key_map, m)
            }
            GroupItem::Mods(_, ps) => {
                let m: HashMap<usize, _> = used.iter().map(|k| (*k, typed_mod(ps[*k].0, ps[*k].1))).collect();
                c.autd.sender(sender_option(mode)).group_send(key_map, m)
            }
            GroupItem::Pairs(_, ps) => {
                // through the real `impl Datagram for (D1, D2)` / `CombinedOperationGenerator`
                let m: HashMap<usize, _> = used
                    .iter()
                    .map(|k| {
                        let p = ps[*k];
                        (*k, (typed_mod(p.0, p.1), typed_gain_tr(p.2, 1, if p.3 { Some((0x00, 0)) } else { None })))
                    })
                    .collect();
                c.autd.sender(sender_option(mode)).group_send(key_map, m)
            }
        };
        let result = match r {
            Ok(()) => "ok".to_string(),
            Err(AUTDError::Driver(e)) => format!("err:{}", err_name(&e)),
            Err(e) => format!("err:{e:?}").chars().take_while(|c| !c.is_whitespace() && *c != '(').collect(),
        };
        Outcome { result, frames: c.take() }
    }
}

#[derive(Clone, Debug)]
enum Step {
    Mask(u64),
    Send(Spec),
    Group(GroupItem),
    /// a statically typed tuple through `Sender::send` (the real `autd3-core/src/datagram/tuple.rs`):
    /// 0 = (Modulation 875, Gain), 1 = (Gain, PulseWidthEncoder::default()), 2 = (Modulation 300, Gain SyncIdx: refused
    /// at the second pack)
    Tuple(u8, u64),
}
fn tuple_specs(kind: u8, seed: u64) -> (Spec, Spec) {
    match kind {
        0 => (Spec::Mod { seg: 0, tr: None, rep: 0xFFFF, div: 10, n: 875, seed }, Spec::Gain { seg: 0, tr: None, seed }),
        1 => (Spec::Gain { seg: 0, tr: None, seed }, Spec::PweDefault),
        _ => (Spec::Mod { seg: 0, tr: None, rep: 0xFFFF, div: 10, n: 300, seed }, Spec::Gain { seg: 1, tr: Some((0x00, 0)), seed }),
    }
}
fn send_tuple(c: &mut Ctl, kind: u8, seed: u64) -> Outcome {
    let mode = c.mode;
    let mut sender = c.autd.sender(sender_option(mode));
    let r = match kind {
        0 => sender.send((typed_mod(875, seed), typed_gain(seed))),
        1 => sender.send((typed_gain(seed), PulseWidthEncoder::default())),
        _ => sender.send((typed_mod(300, seed), typed_gain_tr(seed, 1, Some((0x00, 0))))),
    };
    let result = match r {
        Ok(()) => "ok".to_string(),
        Err(e) => format!("err:{}", err_name(&e)),
    };
    Outcome { result, frames: c.take() }
}

/// the same script on three controllers; the `Off` and the `On` run are emitted as two model sessions
fn controller_script(out: &mut Out, n: usize, script: &[Step], sched: u64) {
    let all = (1u64 << n) - 1;
    let mut runs: Vec<(ParallelMode, Vec<(String, Outcome)>)> = vec![];
    for mode in [ParallelMode::Off, ParallelMode::On, ParallelMode::Auto] {
        let (mut c, open_frames) = Ctl::open(n, mode);
        let mut recs: Vec<(String, Outcome)> = vec![];
        // `open_impl`: ForceFan (result ignored), then (Clear, Synchronize)
        recs.push(("send fan 0".into(), Outcome { result: "ok".into(), frames: open_frames[..1.min(open_frames.len())].to_vec() }));
        recs.push(("send pair clear | sync".into(), Outcome { result: "ok".into(), frames: open_frames[1.min(open_frames.len())..].to_vec() }));
        let mut dead = false;
        for st in script {
            if dead {
                break;
            }
            match st {
                Step::Mask(m) => {
                    set_mask(c.autd.geometry_mut(), *m);
                    recs.push((format!("mask {m:x}"), Outcome { result: "mask".into(), frames: vec![] }));
                }
                Step::Send(s) => {
                    let o = c.send_spec(s);
                    dead = o.result != "ok";
                    recs.push((format!("send {}", s.text()), o));
                }
                Step::Group(g) => {
                    let o = g.run(&mut c);
                    dead = o.result != "ok";
                    recs.push((format!("gsend {}", g.text()), o));
                }
                Step::Tuple(kind, seed) => {
                    let o = send_tuple(&mut c, *kind, *seed);
                    dead = o.result != "ok";
                    let (a, b) = tuple_specs(*kind, *seed);
                    recs.push((format!("send pair {} | {}", a.text(), b.text()), o));
                }
            }
        }
        runs.push((mode, recs));
    }
    // ---- the property: identical frames whatever the mode
    let base = runs[0].1.clone();
    for (mode, recs) in runs.iter().skip(1) {
        for (i, (op, o)) in recs.iter().enumerate() {
            if i >= base.len() || base[i].1 != *o {
                let b = base.get(i).map(|x| x.1.clone());
                let what = format!(
                    "{n} devices, controller script step {i} `{op}`: ParallelMode::{mode:?} recorded result {} / {} frames, ParallelMode::Off recorded {:?} / {:?} frames",
                    o.result,
                    o.frames.len(),
                    b.as_ref().map(|x| x.result.clone()),
                    b.as_ref().map(|x| x.frames.len())
                );
                let replay: Vec<String> = std::iter::once(format!("reset c {n} {all:x} 0")).chain(recs.iter().take(i + 1).map(|x| x.0.clone())).collect();
                let kind = op.split_whitespace().take(2).collect::<Vec<_>>().join("_");
                out.violation(format!("C10:controller:{mode:?}-vs-Off:{kind}:n{n}"), what, replay);
                break;
            }
        }
    }
    // ---- the model tie
    for (mode, recs) in runs.iter().take(2) {
        let sd = if *mode == ParallelMode::Off { 0 } else { sched.max(1) };
        out.line(&format!("reset c {n} {all:x} 0"), "ok");
        for (op, o) in recs {
            if o.result == "mask" {
                out.line(op, "ok");
            } else {
                // "send <dg>" → "send <sched> <dg>"
                let (head, rest) = op.split_once(' ').unwrap();
                out.line(&format!("{head} {sd} {rest}"), &o.answer());
                out.count(&format!("ctl:{}", head));
            }
        }
    }
    out.count(&format!("ctl-ndev:{n}"));
    out.case(Some(fnv64(format!("{n}|{script:?}").as_bytes())));
}

// ------------------------------------------------------------------------------------------------
// the parallel decision, observed

#[derive(Default, Debug)]
struct ProbeLog {
    flag: Option<bool>,
    pack_off_caller: Vec<bool>,
}

#[derive(Debug)]
struct Probe {
    threshold: usize,
    log: Arc<Mutex<ProbeLog>>,
    caller: std::thread::ThreadId,
}
struct ProbeGen {
    log: Arc<Mutex<ProbeLog>>,
    caller: std::thread::ThreadId,
}
struct ProbeOp {
    done: bool,
    log: Arc<Mutex<ProbeLog>>,
    caller: std::thread::ThreadId,
}
impl Operation for ProbeOp {
    type Error = std::convert::Infallible;
    fn required_size(&self, _: &Device) -> usize {
        2
    }
    fn pack(&mut self, _: &Device, tx: &mut [u8]) -> Result<usize, Self::Error> {
        // a ForceFan(false) frame
        tx[0] = 0x60;
        tx[1] = 0x00;
        self.done = true;
        self.log.lock().unwrap().pack_off_caller.push(std::thread::current().id() != self.caller);
        Ok(2)
    }
    fn is_done(&self) -> bool {
        self.done
    }
}
impl OperationGenerator for ProbeGen {
    type O1 = ProbeOp;
    type O2 = NullOp;
    fn generate(&mut self, _: &Device) -> (ProbeOp, NullOp) {
        (ProbeOp { done: false, log: self.log.clone(), caller: self.caller }, NullOp)
    }
}
impl Datagram for Probe {
    type G = ProbeGen;
    type Error = std::convert::Infallible;
    fn operation_generator(self, _: &Geometry, parallel: bool) -> Result<ProbeGen, Self::Error> {
        self.log.lock().unwrap().flag = Some(parallel);
        Ok(ProbeGen { log: self.log, caller: self.caller })
    }
    fn option(&self) -> DatagramOption {
        DatagramOption { timeout: Duration::from_millis(200), parallel_threshold: self.threshold }
    }
}

fn mode_name(m: ParallelMode) -> &'static str {
    match m {
        ParallelMode::Auto => "auto",
        ParallelMode::On => "on",
        ParallelMode::Off => "off",
    }
}

fn decide_case(out: &mut Out, ctls: &mut HashMap<usize, Ctl>, mode: ParallelMode, n: usize, mask: u64, thr: usize) {
    let c = ctls.entry(n).or_insert_with(|| Ctl::open(n, ParallelMode::Off).0);
    set_mask(c.autd.geometry_mut(), mask);
    let log = Arc::new(Mutex::new(ProbeLog::default()));
    let probe = Probe { threshold: thr, log: log.clone(), caller: std::thread::current().id() };
    let r = c.autd.sender(sender_option(mode)).send(probe);
    let frames = c.take();
    let l = log.lock().unwrap();
    let thr_s = if thr == usize::MAX { "max".to_string() } else { thr.to_string() };
    let op = format!("decide {} {mask:x} {n} {thr_s}", mode_name(mode));
    let flag = l.flag.unwrap_or(false);
    out.line(&op, &format!("par={}", flag as u8));
    out.count(&format!("decide:{}:{}", mode_name(mode), flag as u8));
    out.case(Some(fnv64(op.as_bytes())));
    // the flag handed to the datagram is the mode pack runs in; one pack per enabled device; one frame
    let enabled = mask.count_ones() as usize;
    let consistent = l.pack_off_caller.len() == enabled && l.pack_off_caller.iter().all(|x| *x == flag) && r.is_ok() && frames.len() == 1;
    if !consistent {
        out.violation(
            format!("C10:decision:{}:n{n}:m{mask:x}:t{thr_s}", mode_name(mode)),
            format!(
                "ParallelMode::{mode:?}, {n} devices (mask {mask:#x}), threshold {thr_s}: the datagram was told parallel={flag}, but pack ran {:?} (true = on a pool thread) for {enabled} enabled devices; result {r:?}, {} frames",
                l.pack_off_caller,
                frames.len()
            ),
            vec![op],
        );
    }
}

struct ThrV;
impl DgVisitor for ThrV {
    type R = usize;
    fn visit<D>(self, d: D) -> usize
    where
        D: Datagram,
        AUTDDriverError: From<D::Error>,
        D::G: OperationGenerator,
        AUTDDriverError: From<<<D::G as OperationGenerator>::O1 as Operation>::Error>
            + From<<<D::G as OperationGenerator>::O2 as Operation>::Error>,
    {
        d.option().parallel_threshold
    }
}

fn thr_line(out: &mut Out, text: &str, t: usize) {
    let a = if t == usize::MAX { "T=max".to_string() } else { format!("T={t}") };
    out.line(&format!("thr {text}"), &a);
    out.count(&format!("thr:{}", if t == usize::MAX { "max" } else { "small" }));
    out.case(Some(fnv64(text.as_bytes())));
}

// ------------------------------------------------------------------------------------------------
// the propagation matrix

#[derive(Clone, Debug)]
struct HDev {
    enable: bool,
    num_tr: usize,
    filter: Option<Vec<bool>>,
}

fn holo_geometry(devs: &[HDev]) -> Geometry {
    let mut g = Geometry::new(
        devs.iter()
            .enumerate()
            .map(|(d, hd)| {
                Device::new(
                    UnitQuaternion::identity(),
                    (0..hd.num_tr)
                        .map(|t| Transducer::new(Point3::new(10.16 * t as f32 + 37.0 * d as f32, 151.4 * d as f32 + 0.731 * t as f32, 0.)))
                        .collect(),
                )
            })
            .collect(),
    );
    for (dev, hd) in g.iter_mut().zip(devs) {
        dev.enable = hd.enable;
    }
    g
}

fn holo_foci(m: usize) -> Vec<Point3> {
    (0..m).map(|i| Point3::new(13.0 + 17.3 * i as f32, 29.0 - 7.9 * i as f32, 150.0 + 11.1 * i as f32)).collect()
}

fn holo_text(m: usize, hf: bool, order: u64, devs: &[HDev]) -> String {
    let ds: Vec<String> = devs
        .iter()
        .map(|d| {
            let f = match &d.filter {
                None => "-".to_string(),
                Some(b) => b.iter().map(|x| if *x { '1' } else { '0' }).collect(),
            };
            format!("{}:{}:{}", d.enable as u8, d.num_tr, f)
        })
        .collect();
    format!("holo {m} {} {order} {}", hf as u8, ds.join(" "))
}

/// child side: runs `generate_propagation_matrix`, identifies every cell by the `propagate` call that
/// produced its value and checks the matrix against a serially computed reference.
/// Returns (answer | "skip", "ok" | oracle failure message)
fn holo_eval(m: usize, hf: bool, devs: &[HDev], repeats: usize) -> (String, String) {
    let geo = holo_geometry(devs);
    let foci = holo_foci(m);
    let filter: HashMap<usize, BitVec> = devs
        .iter()
        .enumerate()
        .filter_map(|(i, d)| d.filter.as_ref().map(|f| (i, BitVec::from_fn(f.len(), |k| f[k]))))
        .collect();
    let too_long = devs.iter().any(|d| d.enable && hf && d.filter.as_ref().is_some_and(|f| f.len() > d.num_tr && f[d.num_tr..].iter().any(|x| *x)));
    if too_long {
        // reading the uninitialised cells would be undefined behaviour in the harness itself
        return ("skip".into(), "ok".into());
    }
    // reference: value of every (device, transducer, focus), bit patterns
    let mut tag_of: HashMap<(u32, u32), (usize, usize, usize)> = HashMap::new();
    for dev in geo.iter() {
        for tr in dev.iter() {
            for (i, f) in foci.iter().enumerate() {
                let v = autd3_core::acoustics::propagate::<Sphere>(tr, dev.wavenumber(), dev.axial_direction(), f);
                if tag_of.insert((v.re.to_bits(), v.im.to_bits()), (dev.idx(), tr.idx(), i)).is_some() {
                    return ("skip".into(), "ok".into());
                }
            }
        }
    }
    let backend = NalgebraBackend::<Sphere>::new();
    let run = || {
        guarded(|| {
            let mtx = backend.generate_propagation_matrix(&geo, &foci, if hf { Some(&filter) } else { None }).expect("matrix");
            let cells: Vec<(u32, u32)> = mtx.as_slice().iter().map(|c| (c.re.to_bits(), c.im.to_bits())).collect();
            (mtx.nrows(), mtx.ncols(), cells)
        })
    };
    let first = run();
    let answer = match &first {
        Ok((_, _, cells)) => {
            let mut bytes = Vec::with_capacity(cells.len() * 4);
            for c in cells {
                match tag_of.get(c) {
                    Some((d, t, f)) => bytes.extend_from_slice(&[*d as u8, (*t % 256) as u8, (*t / 256) as u8, *f as u8]),
                    None => bytes.extend_from_slice(&[255, 255, 255, 255]),
                }
            }
            format!("H={}", fnv64(&bytes))
        }
        Err(_) => "panic".to_string(),
    };
    // ---- oracle: the matrix is the one a serial, safe construction gives, on every run
    let mut verdict = "ok".to_string();
    if let Ok((rows, cols, cells)) = &first {
        let mut reference: Vec<(u32, u32)> = vec![];
        for dev in geo.devices() {
            for tr in dev.iter() {
                let selected = if hf { filter.get(&dev.idx()).is_some_and(|f| f[tr.idx()]) } else { true };
                if selected {
                    for f in foci.iter() {
                        let v = autd3_core::acoustics::propagate::<Sphere>(tr, dev.wavenumber(), dev.axial_direction(), f);
                        reference.push((v.re.to_bits(), v.im.to_bits()));
                    }
                }
            }
        }
        let mut bad = *rows != m || *cols * m != reference.len() || *cells != reference;
        for _ in 0..repeats {
            if bad {
                break;
            }
            bad = run().ok().map(|x| x.2) != Some(cells.clone());
        }
        if bad {
            verdict = format!(
                "gives a {rows}x{cols} matrix that differs from the serially computed one ({} cells) or changes from run to run",
                reference.len()
            );
        }
    }
    (answer, verdict)
}

fn parse_holo(ws: &[&str]) -> Option<(usize, bool, Vec<HDev>)> {
    // holo <m> <hf> <order> <e>:<n>:<bits|-> ...
    if ws.len() < 4 || ws[0] != "holo" {
        return None;
    }
    let m = ws[1].parse().ok()?;
    let hf = ws[2] == "1";
    let mut devs = vec![];
    for w in &ws[4..] {
        let p: Vec<&str> = w.split(':').collect();
        if p.len() != 3 {
            return None;
        }
        devs.push(HDev {
            enable: p[0] == "1",
            num_tr: p[1].parse().ok()?,
            filter: if p[2] == "-" { None } else { Some(p[2].chars().map(|c| c == '1').collect()) },
        });
    }
    Some((m, hf, devs))
}

/// the raw-pointer code runs in a child process: an out-of-bounds write there must not take the
/// stream down with it.  Protocol: one request line, one answer line `<answer>\t<verdict>`.
fn child_main() {
    use std::io::{BufRead, Write};
    let stdin = std::io::stdin();
    let stdout = std::io::stdout();
    for line in stdin.lock().lines() {
        let line = match line {
            Ok(l) => l,
            Err(_) => break,
        };
        let ws: Vec<&str> = line.split_whitespace().collect();
        let resp = match ws.first().copied() {
            Some("H") => {
                let repeats: usize = ws[1].parse().unwrap_or(1);
                match parse_holo(&ws[2..]) {
                    Some((m, hf, devs)) => {
                        let (a, v) = holo_eval(m, hf, &devs, repeats);
                        format!("{a}\t{v}")
                    }
                    None => "bad\tbad".to_string(),
                }
            }
            Some("G") => {
                let v: Vec<u64> = ws[1..].iter().filter_map(|x| x.parse().ok()).collect();
                if v.len() == 5 {
                    match holo_gain_eval(v[0] as usize, v[1], v[2] as usize, v[3] == 1, v[4] as usize) {
                        None => "ok\tok".to_string(),
                        Some((name, msg)) => format!("{name}\t{msg}"),
                    }
                } else {
                    "bad\tbad".to_string()
                }
            }
            _ => "bad\tbad".to_string(),
        };
        let mut o = stdout.lock();
        let _ = writeln!(o, "{resp}");
        let _ = o.flush();
    }
}

struct Worker {
    child: std::process::Child,
    stdin: std::process::ChildStdin,
    rx: std::sync::mpsc::Receiver<String>,
    spawns: u64,
}
impl Worker {
    fn spawn_child() -> (std::process::Child, std::process::ChildStdin, std::sync::mpsc::Receiver<String>) {
        use std::io::BufRead;
        let exe = std::env::current_exe().expect("exe");
        let mut child = std::process::Command::new(exe)
            .arg("parallel-child")
            .stdin(std::process::Stdio::piped())
            .stdout(std::process::Stdio::piped())
            .stderr(std::process::Stdio::null())
            .spawn()
            .expect("spawn child");
        let stdin = child.stdin.take().unwrap();
        let stdout = std::io::BufReader::new(child.stdout.take().unwrap());
        let (txc, rx) = std::sync::mpsc::channel();
        std::thread::spawn(move || {
            for l in stdout.lines() {
                match l {
                    Ok(l) => {
                        if txc.send(l).is_err() {
                            break;
                        }
                    }
                    Err(_) => break,
                }
            }
        });
        (child, stdin, rx)
    }
    fn new() -> Self {
        let (child, stdin, rx) = Self::spawn_child();
        Worker { child, stdin, rx, spawns: 1 }
    }
    /// `None` = the child died or hung on this request (it is killed and replaced)
    fn ask(&mut self, req: &str) -> Option<(String, String)> {
        use std::io::Write;
        let sent = writeln!(self.stdin, "{req}").and_then(|_| self.stdin.flush()).is_ok();
        if sent {
            if let Ok(line) = self.rx.recv_timeout(Duration::from_secs(60)) {
                if let Some((a, v)) = line.split_once('\t') {
                    return Some((a.to_string(), v.to_string()));
                }
            }
        }
        let _ = self.child.kill();
        let _ = self.child.wait();
        let (child, stdin, rx) = Self::spawn_child();
        self.child = child;
        self.stdin = stdin;
        self.rx = rx;
        self.spawns += 1;
        None
    }
}
impl Drop for Worker {
    fn drop(&mut self) {
        let _ = self.child.kill();
        let _ = self.child.wait();
    }
}

/// parent side: one propagation-matrix case = two model lines (serial order, shuffled order) + oracle
fn holo_case(out: &mut Out, w: &mut Worker, m: usize, hf: bool, devs: &[HDev], sched: u64, repeats: usize) {
    let text = holo_text(m, hf, 0, devs);
    let (answer, verdict) = match w.ask(&format!("H {repeats} {text}")) {
        Some(x) => x,
        None => ("crash".to_string(), "crashed or hung the process (memory corruption / abort inside generate_propagation_matrix)".to_string()),
    };
    if answer == "skip" {
        out.count("holo:skipped");
        return;
    }
    for order in [0, sched.max(1)] {
        out.line(&holo_text(m, hf, order, devs), &answer);
    }
    let wf = devs.iter().all(|d| !(d.enable && hf) || d.filter.as_ref().is_none_or(|f| f.len() == d.num_tr));
    let enabled = devs.iter().filter(|d| d.enable).count();
    out.count(if enabled < m { "holo:safe-branch" } else { "holo:raw-pointer-branch" });
    out.count(if hf { "holo:filter" } else { "holo:nofilter" });
    out.count(if wf { "holo:wf" } else if answer == "panic" { "holo:short-filter-panic" } else { "holo:filter-length-differs" });
    out.case(Some(fnv64(text.as_bytes())));
    if verdict != "ok" {
        out.violation(
            format!("C10:holo-matrix:{}", text.replace(' ', "_")),
            format!("generate_propagation_matrix for `{text}` {verdict}"),
            vec![text],
        );
    }
}

fn gen_hdevs(r: &mut Rng, hf: bool) -> Vec<HDev> {
    let n = r.range(1, 6) as usize;
    let mask = gen_mask(r, n);
    (0..n)
        .map(|i| {
            let num_tr = if r.chance(1, 12) { 249 } else { r.range(1, 6) as usize };
            let filter = if hf && !r.chance(1, 5) {
                let style = r.below(4);
                let mut f: Vec<bool> = (0..num_tr).map(|k| match style { 0 => true, 1 => false, 2 => k % 2 == 0, _ => r.chance(1, 2) }).collect();
                // outside `WF`: a bit vector shorter than the device (index panic when the device is
                // enabled) or longer with clear bits beyond it (harmless) — the model covers both
                if r.chance(1, 25) {
                    f.pop();
                } else if r.chance(1, 25) {
                    f.extend([false, false]);
                }
                Some(f)
            } else {
                None
            };
            HDev { enable: (mask >> i) & 1 == 1, num_tr, filter }
        })
        .collect()
}

// ------------------------------------------------------------------------------------------------
// oracle-only: datagrams the integer-level model does not cover

fn drives_of<G: Gain>(g: G, geo: &Geometry, filter: Option<&HashMap<usize, BitVec>>, parallel: bool) -> Result<Vec<u8>, String> {
    guarded(|| match g.init_full(geo, filter, parallel) {
        Ok(mut generator) => {
            let mut v = vec![];
            for dev in geo.devices() {
                let c = generator.generate(dev);
                for tr in dev.iter() {
                    let d = c.calc(tr);
                    v.push(d.phase.0);
                    v.push(d.intensity.0);
                }
            }
            v
        }
        Err(e) => format!("{e:?}").into_bytes(),
    })
}

/// child side: Naive / GS / GSPAT / LM with the nalgebra backend, repeated, both values of the
/// `parallel` flag; `Some((algorithm, message))` when two runs disagree
fn holo_gain_eval(n: usize, mask: u64, m: usize, use_filter: bool, repeats: usize) -> Option<(String, String)> {
    let mut geo = Geometry::new((0..n).map(|i| AUTD3 { pos: Point3::new(192.0 * i as f32, 0., 0.), ..Default::default() }.into()).collect());
    set_mask(&mut geo, mask);
    let foci: Vec<(Point3, autd3_gain_holo::Amplitude)> =
        (0..m).map(|i| (Point3::new(60.0 + 30.0 * i as f32, 50.0 + 11.0 * i as f32, 150.0), (5e3 + 1e3 * i as f32) * Pa)).collect();
    let filter: HashMap<usize, BitVec> = geo.iter().map(|d| (d.idx(), BitVec::from_fn(d.num_transducers(), |k| (k + d.idx()) % 3 != 0))).collect();
    let fl = if use_filter { Some(&filter) } else { None };
    let backend = Arc::new(NalgebraBackend::<Sphere>::new());
    let c = EmissionConstraint::Clamp(EmitIntensity::MIN, EmitIntensity::MAX);
    let algos: [(&str, Box<dyn Fn(bool) -> Result<Vec<u8>, String>>); 4] = [
        ("naive", Box::new(|p| drives_of(Naive::new(foci.clone(), NaiveOption { constraint: c, ..Default::default() }, backend.clone()), &geo, fl, p))),
        ("gs", Box::new(|p| drives_of(GS::new(foci.clone(), GSOption { constraint: c, ..Default::default() }, backend.clone()), &geo, fl, p))),
        ("gspat", Box::new(|p| drives_of(GSPAT::new(foci.clone(), GSPATOption { constraint: c, ..Default::default() }, backend.clone()), &geo, fl, p))),
        ("lm", Box::new(|p| drives_of(LM::new(foci.clone(), LMOption { constraint: c, ..Default::default() }, backend.clone()), &geo, fl, p))),
    ];
    for (name, f) in algos.iter() {
        let base = f(false);
        for k in 0..repeats {
            let other = f(k % 2 == 0);
            if other != base {
                return Some((name.to_string(), format!("drives differ between runs (parallel flag {})", k % 2 == 0)));
            }
        }
    }
    None
}

fn holo_gain_cases(out: &mut Out, w: &mut Worker, r: &mut Rng, repeats: usize) {
    let n = r.range(1, 4) as usize;
    let mask = if n > 1 && r.chance(1, 2) { gen_mask(r, n) } else { (1 << n) - 1 };
    let m = r.range(1, 5) as usize;
    let use_filter = r.chance(1, 3);
    let desc = format!("Naive/GS/GSPAT/LM n={n} mask={mask:x} foci={m} filter={}", use_filter as u8);
    let (name, msg) = match w.ask(&format!("G {n} {mask} {m} {} {repeats}", use_filter as u8)) {
        Some(x) => x,
        None => ("crash".to_string(), "the process crashed or hung".to_string()),
    };
    if name != "ok" {
        out.violation(
            format!("C10:holo-gain:{name}:n{n}:m{mask:x}:foci{m}:filter{}", use_filter as u8),
            format!("{name} with {m} foci on {n} devices (mask {mask:#x}, filter {use_filter}): {msg}"),
            vec![desc.clone()],
        );
    }
    out.count_n("holo-gain:naive+gs+gspat+lm", 4);
    out.case(Some(fnv64(desc.as_bytes())));
}

/// per-device different content that the shared specs do not have: rotated / translated devices with
/// FociSTM (each device packs different local coordinates), closures depending on the device index
fn posed_geometry(n: usize) -> Geometry {
    Geometry::new(
        (0..n)
            .map(|i| {
                AUTD3 {
                    pos: Point3::new(200.0 * i as f32, 13.0 * i as f32, 0.),
                    rot: EulerAngle::ZYZ(0.3 * i as f32 * rad, 0.1 * i as f32 * rad, 0. * rad),
                }
                .into()
            })
            .collect(),
    )
}

fn par_vs_ser<D, F>(out: &mut Out, name: &str, n: usize, mask: u64, geo: &Geometry, make: F, repeats: usize)
where
    F: Fn() -> D,
    D: Datagram,
    AUTDDriverError: From<D::Error>,
    D::G: OperationGenerator,
    AUTDDriverError: From<<<D::G as OperationGenerator>::O1 as Operation>::Error>
        + From<<<D::G as OperationGenerator>::O2 as Operation>::Error>,
{
    let tx0 = fresh_tx(n, 77);
    let mut tx_s = tx0.clone();
    let ser = send_dg(make(), geo, &mut tx_s, false);
    for k in 0..repeats {
        let mut tx_p = tx0.clone();
        let par = send_dg(make(), geo, &mut tx_p, true);
        if par != ser {
            out.violation(
                format!("C10:par-vs-ser:{name}:n{n}:m{mask:x}"),
                format!(
                    "{name} on {n} posed devices (mask {mask:#x}): parallel=true → {} / {} frames, parallel=false → {} / {} frames (run #{k})",
                    par.result,
                    par.frames.len(),
                    ser.result,
                    ser.frames.len()
                ),
                vec![format!("{name} n={n} mask={mask:x}")],
            );
            break;
        }
    }
    out.count(&format!("posed:{name}"));
    out.case(Some(fnv64(format!("{name}|{n}|{mask}|{}", frame_hash(&ser.frames)).as_bytes())));
}

fn posed_cases(out: &mut Out, r: &mut Rng, repeats: usize) {
    let n = r.range(2, 16) as usize;
    let mut geo = posed_geometry(n);
    let mask = gen_mask(r, n);
    set_mask(&mut geo, mask);
    let size = *r.pick(&[2usize, 74, 75, 150, 400]);
    let seed = r.next();
    let pts = move || -> Vec<ControlPoints<1>> {
        let b = pr_bytes(seed, size * 4);
        (0..size)
            .map(|i| {
                ControlPoints::new(
                    [ControlPoint::new(Point3::new(b[4 * i] as f32, b[4 * i + 1] as f32, 100.0 + b[4 * i + 2] as f32), Phase(b[4 * i + 3]))],
                    EmitIntensity(b[4 * i + 3]),
                )
            })
            .collect()
    };
    par_vs_ser(out, "foci-posed", n, mask, &geo, || FociSTM::new(pts(), to_div(100)), repeats);
    par_vs_ser(out, "focus-gain-posed", n, mask, &geo, || Focus { pos: Point3::new(90., 70., 150.), option: Default::default() }, repeats);
    par_vs_ser(out, "fan-by-index", n, mask, &geo, || ForceFan::new(|dev| dev.idx() % 3 == 1), repeats);
    par_vs_ser(out, "reads-by-index", n, mask, &geo, || ReadsFPGAState::new(|dev| dev.idx() % 2 == 0), repeats);
    par_vs_ser(
        out,
        "gainstm-focus-posed",
        n,
        mask,
        &geo,
        || GainSTM::new(
            (0..5).map(|k| Focus { pos: Point3::new(90. + 10. * k as f32, 70., 150.), option: Default::default() }).collect::<Vec<_>>(),
            to_div(100),
            GainSTMOption::default(),
        ),
        repeats,
    );
    par_vs_ser(
        out,
        "group-gain-posed",
        n,
        mask,
        &geo,
        || {
            Group::new(
                |dev| {
                    let d = dev.idx();
                    move |tr: &Transducer| if (tr.idx() + d) % 3 == 0 { None } else { Some((tr.idx() + d) % 3) }
                },
                HashMap::from([
                    (1usize, Focus { pos: Point3::new(90., 70., 150.), option: Default::default() }),
                    (2usize, Focus { pos: Point3::new(30., 20., 120.), option: Default::default() }),
                ]),
            )
        },
        repeats,
    );
}

// ------------------------------------------------------------------------------------------------

/// size of rayon's global pool in this stream and its children
const POOL_SIZE: &str = "8";

pub fn run(args: &Args) {
    if args.stream == "parallel-child" {
        child_main();
        return;
    }
    // The property quantifies over schedules: do not leave the size of rayon's global pool to the host (on a
    // 1-2 core runner `par_bridge` degenerates to almost serial).  Set before the pool is first used (it is
    // built lazily) and before any thread exists; the child processes inherit it.
    // SAFETY: single-threaded at this point (`main` has only parsed the arguments).
    unsafe { std::env::set_var("RAYON_NUM_THREADS", POOL_SIZE) };
    let mut out = Out::new(&args.out);
    let mut worker = Worker::new();
    let thorough = args.tier == "thorough";
    let mut r = Rng::new(args.seed ^ 0xC10_C10_C10);
    let repeats = if thorough { 8 } else { 3 };
    out.count(&format!("pool:RAYON_NUM_THREADS={POOL_SIZE}"));

    // ---- corpus: the configurations named in the property text first (stable order)
    {
        // several devices with different per-device content, some disabled, every parallelisable kind
        for (n, mask) in [(1usize, 1u64), (2, 0b10), (3, 0b101), (4, 0b1010), (5, 0b01101), (16, 0xFFFF), (16, 0x7FFE), (16, 0x8001), (16, 0)] {
            let mut s = HSession::new(&mut out, n, mask, 0);
            for (k, item) in [
                Item::One(Spec::Gain { seg: 0, tr: tr_imm(), seed: 11 }),
                Item::One(Spec::PhaseCorr(5)),
                Item::One(Spec::GainStm { mode: 0, seg: 1, tr: None, rep: 0xFFFF, div: 100, size: 5, seed: 3 }),
                Item::One(Spec::Mod { seg: 0, tr: tr_imm(), rep: 0xFFFF, div: 10, n: 875, seed: 9 }),
                Item::Pair(Spec::Mod { seg: 1, tr: None, rep: 0, div: 10, n: 300, seed: 2 }, Spec::Gain { seg: 1, tr: None, seed: 4 }),
                Item::One(Spec::Foci { n: 2, seg: 0, tr: tr_imm(), rep: 0xFFFF, div: 50, ss: 21760, size: 80, seed: 6 }),
                Item::One(Spec::Clear),
                // refused at the second pack, after one frame went out (in both modes alike)
                Item::Pair(Spec::Mod { seg: 0, tr: None, rep: 0xFFFF, div: 10, n: 300, seed: 8 }, Spec::Gain { seg: 1, tr: Some((0x00, 0)), seed: 8 }),
            ]
            .iter()
            .enumerate()
            {
                if !s.case(&mut out, item, 100 + k as u64, repeats) {
                    break;
                }
            }
        }
    }

    // ---- corpus (oracle only): a pack that fails on SOME devices — device 3 alone, the last enabled one, a
    // disabled one (nothing fails), at the first call and after frames went out; more devices than pool threads
    for (n, mask) in [(4usize, 0b1111u64), (5, 0b01101), (16, 0xFFFF), (16, 0x7FFE), (32, 0xFFFF_FFFF), (64, u64::MAX), (64, 0x5555_5555_5555_5555)] {
        let mut s = HSession::new(&mut out, n, mask, 7);
        let last = 63 - mask.leading_zeros() as u64;
        for (fail, at, frames) in [(1u64 << 3, 1usize, 1usize), (1 << 3, 2, 3), (1 << last, 1, 2), (1 << last, 3, 3), (1 << 1, 2, 2), (mask, 2, 2), (!mask & 0xFFFF, 1, 2), (0, 1, 2)] {
            for spin in [false, true] {
                s.case(&mut out, &Item::Fail(FailSpec { fail, at, frames, spin }), 1, repeats.max(4));
            }
        }
    }

    // ---- path h: random sessions
    let sessions = if thorough { 11000 } else { 700 };
    for si in 0..sessions {
        // (review gap 4) now and then more devices than the pool has threads: work stealing / batching of par_bridge
        let n = if si % 5 == 0 { 16 } else if si % (if thorough { 50 } else { 100 }) == 7 { *r.pick(&[32usize, 64]) } else { r.range(1, 16) as usize };
        let mask = gen_mask(&mut r, n);
        let dirty = if r.chance(1, 3) { 0 } else { r.range(1, 1 << 20) };
        let mut s = HSession::new(&mut out, n, mask, dirty);
        let len = r.range(3, 7);
        for k in 0..len {
            if k == 3 && r.chance(1, 2) {
                let m = gen_mask(&mut r, n);
                s.mask(&mut out, m);
            }
            let big = thorough && r.chance(1, 40) && n <= 8;
            let item = if r.chance(1, 10) {
                gen_fail_item(&mut r, n, s.mask)
            } else if r.chance(1, 12) {
                gen_err_item(&mut r)
            } else {
                gen_item(&mut r, big)
            };
            let sched = r.range(1, 1 << 30);
            if !s.case(&mut out, &item, sched, repeats) {
                break;
            }
        }
    }

    // ---- path c: controllers with a recording link
    // corpus (model-tied): group_send in which the pack of ONE key's devices fails while the others succeed
    // (review gap 1: at the first pack — Modulation of one sample; after two frames — tuple whose gain is refused
    // when it first fits), and statically typed tuples through `Sender::send` (review gap 3)
    {
        let k = |s: &str| -> Vec<Option<u8>> { s.chars().map(|c| if c == '-' { None } else { Some(c as u8 - b'0') }).collect() };
        let corpus: Vec<(usize, Vec<Step>)> = vec![
            (4, vec![Step::Group(GroupItem::Mods(k("0001"), vec![(875, 3), (1, 4)]))]),
            (4, vec![Step::Group(GroupItem::Mods(k("1000"), vec![(2, 3), (1, 4)]))]),
            (5, vec![Step::Mask(0b11011), Step::Group(GroupItem::Mods(k("01210"), vec![(255, 5), (1500, 6), (1, 7)]))]),
            (4, vec![Step::Group(GroupItem::Pairs(k("0010"), vec![(300, 1, 2, false), (900, 3, 4, true)]))]),
            (6, vec![Step::Mask(0b101111), Step::Group(GroupItem::Pairs(k("01-100"), vec![(300, 1, 2, true), (1500, 3, 4, false)]))]),
            (3, vec![Step::Group(GroupItem::Pairs(k("012"), vec![(300, 1, 2, false), (900, 3, 4, false), (2, 5, 6, false)])), Step::Tuple(0, 11)]),
            (16, vec![Step::Tuple(0, 21), Step::Mask(0x7FFE), Step::Tuple(1, 22), Step::Tuple(2, 23)]),
            // the failing key only on a disabled device: nothing fails
            (3, vec![Step::Mask(0b011), Step::Group(GroupItem::Mods(k("001"), vec![(254, 8), (1, 9)])), Step::Tuple(1, 24)]),
        ];
        for (n, script) in &corpus {
            let mut mask = (1u64 << n) - 1;
            for st in script {
                match st {
                    Step::Mask(m) => mask = *m,
                    Step::Group(g) => out.count(&format!("group:devices-whose-pack-fails:{} (model-tied)", g.fail_class(mask))),
                    Step::Tuple(..) => out.count("ctl:typed-tuple (model-tied)"),
                    _ => {}
                }
            }
            controller_script(&mut out, *n, script, 77);
        }
    }
    let scripts = if thorough { 700 } else { 60 };
    for ci in 0..scripts {
        let n = if ci == 0 { 16 } else { r.range(1, 16) as usize };
        let mut script = vec![];
        let mut mask = (1u64 << n) - 1;
        let len = r.range(3, 6);
        for k in 0..len {
            if k == 1 || r.chance(1, 4) {
                mask = gen_mask(&mut r, n);
                script.push(Step::Mask(mask));
            }
            match r.below(9) {
                0 | 1 | 2 => {
                    // group_send: keys over all devices, a datagram per key; now and then the datagram of ONE key
                    // is one that `pack` refuses (for the devices of that key only)
                    let nk = r.range(1, 3) as u8;
                    let keys: Vec<Option<u8>> = (0..n).map(|_| if r.chance(1, 4) { None } else { Some(r.below(nk as u64) as u8) }).collect();
                    let bad_key = if r.chance(1, 3) { r.below(nk as u64) as usize } else { usize::MAX };
                    let g = match r.below(3) {
                        0 => GroupItem::Gains(keys, (0..nk).map(|_| r.range(1, 1 << 20)).collect()),
                        1 => GroupItem::Mods(
                            keys,
                            (0..nk as usize).map(|k| (if k == bad_key { 1 } else { *r.pick(&[2usize, 254, 255, 875, 1500]) }, r.range(1, 1 << 20))).collect(),
                        ),
                        _ => GroupItem::Pairs(
                            keys,
                            (0..nk as usize).map(|k| (*r.pick(&[2usize, 300, 900, 1500]), r.range(1, 1 << 20), r.range(1, 1 << 20), k == bad_key)).collect(),
                        ),
                    };
                    out.count(&format!("group:devices-whose-pack-fails:{} (model-tied)", g.fail_class(mask)));
                    script.push(Step::Group(g));
                }
                3 => {
                    out.count("ctl:typed-tuple (model-tied)");
                    script.push(Step::Tuple(if r.chance(1, 8) { 2 } else { r.below(2) as u8 }, r.range(1, 1 << 20)));
                }
                _ => script.push(Step::Send(fix_ss(gen_spec(&mut r, false)))),
            }
        }
        let sched = r.range(1, 1 << 30);
        controller_script(&mut out, n, &script, sched);
    }

    // ---- the decision: every mode × boundary (enabled devices vs threshold)
    {
        let mut ctls: HashMap<usize, Ctl> = HashMap::new();
        for n in [1usize, 2, 3, 5, 8, 16] {
            let all = (1u64 << n) - 1;
            let mut masks = vec![all, all & !1, 1, 0];
            masks.push(r.next() & all);
            masks.dedup();
            for mask in masks {
                let e = mask.count_ones() as usize;
                let mut thrs = vec![0usize, e.saturating_sub(1), e, e + 1, n, 4, usize::MAX];
                thrs.sort();
                thrs.dedup();
                for thr in thrs {
                    for mode in [ParallelMode::Auto, ParallelMode::On, ParallelMode::Off] {
                        decide_case(&mut out, &mut ctls, mode, n, mask, thr);
                    }
                }
            }
        }
    }

    // ---- thresholds of the real datagrams
    {
        let mut specs = vec![
            Spec::Clear,
            Spec::Sync,
            Spec::Fan(true),
            Spec::PweDefault,
            Spec::Pwe(3),
            Spec::PhaseCorr(1),
            Spec::SilSteps(10, 40, true),
            Spec::Gain { seg: 0, tr: None, seed: 1 },
            Spec::Mod { seg: 0, tr: None, rep: 0xFFFF, div: 10, n: 100, seed: 1 },
            Spec::GainStm { mode: 0, seg: 0, tr: None, rep: 0xFFFF, div: 10, size: 2, seed: 1 },
            Spec::SwapGain(0, (0xFF, 0)),
            Spec::FirmInfo(1),
        ];
        // FociSTM: `foci.len() * N >= 4000`
        for (n, size) in [(1usize, 3999usize), (1, 4000), (2, 1999), (2, 2000), (3, 1333), (3, 1334), (8, 499), (8, 500), (8, 2)] {
            specs.push(Spec::Foci { n, seg: 0, tr: None, rep: 0xFFFF, div: 10, ss: 21760, size, seed: 1 });
        }
        for s in &specs {
            let t = build(s, ThrV);
            thr_line(&mut out, &s.text(), t);
        }
        // tuples (statically typed): the smaller threshold wins
        thr_line(&mut out, "pair clear | sync", (Clear::new(), Synchronize::new()).option().parallel_threshold);
        thr_line(&mut out, "pair pwedefault | clear", (PulseWidthEncoder::default(), Clear::new()).option().parallel_threshold);
        thr_line(&mut out, "pair clear | pwedefault", (Clear::new(), PulseWidthEncoder::default()).option().parallel_threshold);
        thr_line(&mut out, "pair gain 0 - 5 | pwedefault", (typed_gain(5), PulseWidthEncoder::default()).option().parallel_threshold);
    }

    // ---- the propagation matrix
    {
        // corpus: disabled device in the middle (offsets by index, not by rank), filters, both branches
        let d = |e: bool, n: usize, f: Option<&str>| HDev { enable: e, num_tr: n, filter: f.map(|s| s.chars().map(|c| c == '1').collect()) };
        let corpus: Vec<(usize, bool, Vec<HDev>)> = vec![
            (1, false, vec![d(true, 3, None), d(false, 2, None), d(true, 2, None)]),
            (2, false, vec![d(false, 3, None), d(true, 2, None), d(true, 4, None)]),
            (2, true, vec![d(true, 3, Some("101")), d(false, 2, Some("11")), d(true, 2, Some("01"))]),
            (1, true, vec![d(true, 3, Some("111")), d(true, 2, None), d(true, 2, Some("10"))]),
            (3, true, vec![d(true, 3, Some("010")), d(true, 2, Some("00")), d(true, 2, Some("11")), d(true, 1, Some("1"))]),
            (4, false, vec![d(true, 3, None), d(true, 2, None)]),
            (4, true, vec![d(true, 3, Some("110")), d(true, 2, Some("01"))]),
            (1, true, vec![d(true, 2, Some("1"))]),
            (1, false, vec![d(false, 2, None)]),
        ];
        for (m, hf, devs) in &corpus {
            holo_case(&mut out, &mut worker, *m, *hf, devs, 5, repeats);
        }
        let cases = if thorough { 20000 } else { 1500 };
        for _ in 0..cases {
            let hf = r.chance(1, 2);
            let devs = gen_hdevs(&mut r, hf);
            let enabled = devs.iter().filter(|d| d.enable).count();
            // on both sides of `num_devices() < foci.len()`
            let m = match r.below(3) {
                0 => enabled.max(1),
                1 => enabled + 1,
                _ => r.range(1, 4) as usize,
            };
            let sched = r.range(1, 1 << 30);
            holo_case(&mut out, &mut worker, m, hf, &devs, sched, repeats);
        }
    }

    // ---- oracle-only: holo gains and posed geometries
    let extra = if thorough { 60 } else { 6 };
    for _ in 0..extra {
        holo_gain_cases(&mut out, &mut worker, &mut r, repeats.min(4));
    }
    let posed = if thorough { 400 } else { 30 };
    for _ in 0..posed {
        posed_cases(&mut out, &mut r, repeats);
    }

    {
        let seen = POOL_THREADS.lock().unwrap();
        let main_id = std::thread::current().id();
        out.notes.push(format!(
            "rayon global pool configured with RAYON_NUM_THREADS={POOL_SIZE}; {} distinct pool threads were seen packing the spinning fail probes",
            seen.iter().filter(|t| **t != main_id).count()
        ));
    }
    out.count_n("child processes started", worker.spawns);
    out.notes.push("Greedy is excluded from the run-to-run comparison: it shuffles with rand::rng() (not a deterministic datagram)".into());
    out.finish(
        "parallel",
        "rayon's global pool fixed to 8 threads. Sessions of sends over 1..16 (now and then 32 / 64) devices with enable masks (all, none, single, first/last disabled, alternating, random) and dirty tx buffers: every kind of datagram at frame-boundary sizes, pairs and failing packs; each case = (oracle) parallel=true ×k vs parallel=false from identical buffers, (model) a serial and a thread-pool send line; ORACLE-ONLY fail probes (`failprobe:*` counters): a datagram whose pack fails for a chosen set of devices (one enabled device, only disabled ones, random sets, all) at a chosen pack call, with parity-dependent busy work so that the device tasks overlap — parallel vs serial result, frames and frame count, and the outcome the property text gives; the same scripts on Controllers with a recording link under Off/On/Auto, incl. MODEL-TIED group_send whose pack fails for the devices of ONE key only (`group:devices-whose-pack-fails:some`: Modulation of one sample at the first pack, tuple (Modulation, Gain SyncIdx) after frames went out) and statically typed tuples through Sender::send (`ctl:typed-tuple`); the parallel decision at enabled = threshold, threshold ± 1 for every mode; parallel_threshold of every datagram kind at the 4000-foci boundary; propagation-matrix layouts with disabled devices and filters on both branches; holo gains and posed geometries run-to-run",
    );
}
