//! Common machinery of the `fw_*` streams: a textual datagram spec (same grammar as the Lean driver
//! `Drv/Fw.lean`), construction of the real SDK datagram from it, the send loop against real
//! `CPUEmulator`s, and the canonical observation record.
#![allow(dead_code)]
use crate::common::*;
use autd3::prelude::*;
use autd3_core::datagram::{Datagram, Operation};
use autd3_core::geometry::{Device, Transducer};
use autd3_driver::{
    datagram::{
        ControlPoint, ControlPoints, CpuGPIOOutputs, CpuGPIOPort, EmulateGPIOIn, FixedCompletionSteps, FixedUpdateRate,
        GainSTMOption, PhaseCorrection, PulseWidthEncoder, Synchronize,
    },
    firmware::{
        cpu::{GainSTMMode, TxMessage},
        fpga::PulseWidth,
        operation::{FirmwareVersionType, OperationGenerator, OperationHandler},
    },
};
use autd3_firmware_emulator::{CPUEmulator, cpu::params::ERR_BIT};
use std::num::NonZeroU16;
use std::sync::Arc;
use std::time::Duration;
use zerocopy::FromZeros;

pub const NUM_TR: usize = 249;

pub type Tr = Option<(u8, u64)>;

#[derive(Clone, Debug)]
pub enum Spec {
    Clear,
    Sync,
    Fan(bool),
    Reads(bool),
    CpuGpio(u8),
    GpioIn(u8),
    Debug([u64; 4]),
    PhaseCorr(u64),
    Pwe(u64),
    PweDefault,
    ModRaw { seg: u8, tr: Tr, rep: u16, div: u16, bytes: Vec<u8> },
    SilSteps(u16, u16, bool),
    SilRate(u16, u16),
    Gain { seg: u8, tr: Tr, seed: u64 },
    Mod { seg: u8, tr: Tr, rep: u16, div: u16, n: usize, seed: u64 },
    Foci { n: usize, seg: u8, tr: Tr, rep: u16, div: u16, ss: u16, size: usize, seed: u64 },
    GainStm { mode: u8, seg: u8, tr: Tr, rep: u16, div: u16, size: usize, seed: u64 },
    SwapGain(u8, (u8, u64)),
    SwapMod(u8, (u8, u64)),
    SwapFoci(u8, (u8, u64)),
    SwapGainStm(u8, (u8, u64)),
    FirmInfo(u8),
    // ---- additive (coverage review C01 gap 3 / C17 gap 3): the value depends on the device
    /// ForceFan with bit `dev.idx()` of the mask
    FanMask(u8),
    /// ReadsFPGAState with bit `dev.idx()` of the mask
    ReadsMask(u8),
    /// CpuGPIOOutputs: device d gets `v[d % len]` (each a combination of 0x20 / 0x80)
    CpuGpioDev(Vec<u8>),
    /// EmulateGPIOIn: device d gets the flags `v[d % len]`
    GpioInDev(Vec<u8>),
    /// GPIOOutputs: device d, pin k gets `v[(k + d) % 4]`
    DebugDev([u64; 4]),
}

pub fn tr_str(t: &Tr) -> String {
    match t {
        None => "-".into(),
        Some((m, v)) => format!("{m}:{v}"),
    }
}

impl Spec {
    pub fn text(&self) -> String {
        match self {
            Spec::Clear => "clear".into(),
            Spec::Sync => "sync".into(),
            Spec::Fan(b) => format!("fan {}", *b as u8),
            Spec::Reads(b) => format!("reads {}", *b as u8),
            Spec::CpuGpio(v) => {
                // only PA5 (0x20) and PA7 (0x80) exist; the datagram is built from those two bits
                assert!(v & !0xA0 == 0, "cpugpio spec value must be a combination of 0x20 and 0x80");
                format!("cpugpio {v}")
            }
            Spec::GpioIn(v) => format!("gpioin {v}"),
            Spec::Debug(v) => format!("debug {:x} {:x} {:x} {:x}", v[0], v[1], v[2], v[3]),
            Spec::PhaseCorr(s) => format!("phasecorr {s}"),
            Spec::Pwe(s) => format!("pwe {s}"),
            Spec::PweDefault => "pwedefault".into(),
            Spec::ModRaw { seg, tr, rep, div, bytes } => format!("modraw {seg} {} {rep} {div} {}", tr_str(tr), hex(bytes)),
            Spec::SilSteps(i, p, s) => format!("silsteps {i} {p} {}", *s as u8),
            Spec::SilRate(i, p) => format!("silrate {i} {p}"),
            Spec::Gain { seg, tr, seed } => format!("gain {seg} {} {seed}", tr_str(tr)),
            Spec::Mod { seg, tr, rep, div, n, seed } => format!("mod {seg} {} {rep} {div} {n} {seed}", tr_str(tr)),
            Spec::Foci { n, seg, tr, rep, div, ss, size, seed } => {
                format!("foci {n} {seg} {} {rep} {div} {ss} {size} {seed}", tr_str(tr))
            }
            Spec::GainStm { mode, seg, tr, rep, div, size, seed } => {
                format!("gainstm {mode} {seg} {} {rep} {div} {size} {seed}", tr_str(tr))
            }
            Spec::SwapGain(s, t) => format!("swapgain {s} {}", tr_str(&Some(*t))),
            Spec::SwapMod(s, t) => format!("swapmod {s} {}", tr_str(&Some(*t))),
            Spec::SwapFoci(s, t) => format!("swapfoci {s} {}", tr_str(&Some(*t))),
            Spec::SwapGainStm(s, t) => format!("swapgainstm {s} {}", tr_str(&Some(*t))),
            Spec::FirmInfo(t) => format!("firminfo {t}"),
            Spec::FanMask(m) => format!("fanmask {m}"),
            Spec::ReadsMask(m) => format!("readsmask {m}"),
            Spec::CpuGpioDev(v) => {
                assert!(!v.is_empty() && v.iter().all(|x| x & !0xA0 == 0), "cpugpiodev values must be combinations of 0x20 and 0x80");
                format!("cpugpiodev {}", v.iter().map(|x| x.to_string()).collect::<Vec<_>>().join(":"))
            }
            Spec::GpioInDev(v) => {
                assert!(!v.is_empty());
                format!("gpioindev {}", v.iter().map(|x| x.to_string()).collect::<Vec<_>>().join(":"))
            }
            Spec::DebugDev(v) => format!("debugdev {:x} {:x} {:x} {:x}", v[0], v[1], v[2], v[3]),
        }
    }
    pub fn kind(&self) -> &'static str {
        match self {
            Spec::Clear => "clear",
            Spec::Sync => "sync",
            Spec::Fan(_) => "fan",
            Spec::Reads(_) => "reads",
            Spec::CpuGpio(_) => "cpugpio",
            Spec::GpioIn(_) => "gpioin",
            Spec::Debug(_) => "debug",
            Spec::PhaseCorr(_) => "phasecorr",
            Spec::Pwe(_) => "pwe",
            Spec::PweDefault => "pwe",
            Spec::ModRaw { .. } => "mod",
            Spec::SilSteps(..) => "silsteps",
            Spec::SilRate(..) => "silrate",
            Spec::Gain { .. } => "gain",
            Spec::Mod { .. } => "mod",
            Spec::Foci { .. } => "foci",
            Spec::GainStm { .. } => "gainstm",
            Spec::SwapGain(..) => "swapgain",
            Spec::SwapMod(..) => "swapmod",
            Spec::SwapFoci(..) => "swapfoci",
            Spec::SwapGainStm(..) => "swapgainstm",
            Spec::FirmInfo(_) => "firminfo",
            Spec::FanMask(_) => "fanmask",
            Spec::ReadsMask(_) => "readsmask",
            Spec::CpuGpioDev(_) => "cpugpiodev",
            Spec::GpioInDev(_) => "gpioindev",
            Spec::DebugDev(_) => "debugdev",
        }
    }
}

// ------------------------------------------------------------------------------------------------
// payloads shared with the Lean driver

pub fn gain_drive_words(seed: u64, dev: usize) -> Vec<u16> {
    let b = pr_bytes(seed.wrapping_add(1000003 * dev as u64), 2 * NUM_TR);
    (0..NUM_TR).map(|i| b[2 * i] as u16 | ((b[2 * i + 1] as u16) << 8)).collect()
}

/// (x, y, z) in fixed-point units and the intensity/offset byte of every focus record
pub fn foci_ints(seed: u64, n: usize, size: usize) -> Vec<(i32, i32, i32, u8)> {
    let b = pr_bytes(seed, size * n * 8);
    (0..size * n)
        .map(|k| {
            let c = |o: usize| (b[8 * k + o] as u16 | ((b[8 * k + o + 1] as u16) << 8)) as i16 as i32;
            (c(0), c(2), c(4), b[8 * k + 6])
        })
        .collect()
}

pub fn to_transition(tr: (u8, u64)) -> TransitionMode {
    match tr.0 {
        0x00 => TransitionMode::SyncIdx,
        0x01 => TransitionMode::SysTime(DcSysTime::ZERO + Duration::from_nanos(tr.1)),
        0x02 => TransitionMode::GPIO(match tr.1 {
            0 => GPIOIn::I0,
            1 => GPIOIn::I1,
            2 => GPIOIn::I2,
            _ => GPIOIn::I3,
        }),
        0xF0 => TransitionMode::Ext,
        _ => TransitionMode::Immediate,
    }
}
pub fn to_segment(s: u8) -> Segment {
    if s == 0 { Segment::S0 } else { Segment::S1 }
}
pub fn to_loop(rep: u16) -> LoopBehavior {
    if rep == 0xFFFF { LoopBehavior::Infinite } else { LoopBehavior::Finite(NonZeroU16::new(rep + 1).unwrap()) }
}
pub fn to_div(d: u16) -> SamplingConfig {
    SamplingConfig::new(NonZeroU16::new(d).unwrap())
}

/// raw 64-bit `DebugValue` → the `GPIOOutputType` that encodes to it (only encodable values are generated)
pub fn debug_type(raw: u64) -> GPIOOutputType<'static> {
    let tag = (raw >> 56) as u8;
    let value = raw & 0x00FF_FFFF_FFFF_FFFF;
    match tag {
        0x00 => GPIOOutputType::None,
        0x01 => GPIOOutputType::BaseSignal,
        0x02 => GPIOOutputType::Thermo,
        0x03 => GPIOOutputType::ForceFan,
        0x10 => GPIOOutputType::Sync,
        0x20 => GPIOOutputType::ModSegment,
        0x21 => GPIOOutputType::ModIdx(value as u16),
        0x50 => GPIOOutputType::StmSegment,
        0x51 => GPIOOutputType::StmIdx(value as u16),
        0x52 => GPIOOutputType::IsStmMode,
        _ => GPIOOutputType::Direct(value != 0),
    }
}

/// as `debug_type`, plus the two variants whose value is not a plain integer of the user's (coverage review C01 gap 2):
/// `0x60` SysTimeEq — the raw value is `sys_time / 25 us`; the time handed to the SDK lies *inside* that 25 us
/// window, not on its edge — and `0xE0` PwmOut(&dev[value]).
pub fn debug_type_dev<'a>(raw: u64, dev: &'a Device) -> GPIOOutputType<'a> {
    let tag = (raw >> 56) as u8;
    let value = raw & 0x00FF_FFFF_FFFF_FFFF;
    match tag {
        0x60 => {
            assert!(value < 1 << 48, "SysTimeEq value must be encodable");
            GPIOOutputType::SysTimeEq(DcSysTime::ZERO + Duration::from_nanos(value * 25_000 + (value.wrapping_mul(7919) % 25_000)))
        }
        0xE0 => GPIOOutputType::PwmOut(&dev[value as usize]),
        _ => debug_type(raw),
    }
}

/// everything needed to build the datagram of a spec; `V::visit` receives the concrete datagram type
pub trait DgVisitor {
    type R;
    fn visit<D>(self, d: D) -> Self::R
    where
        D: Datagram,
        AUTDDriverError: From<D::Error>,
        D::G: OperationGenerator,
        AUTDDriverError: From<<<D::G as OperationGenerator>::O1 as Operation>::Error>
            + From<<<D::G as OperationGenerator>::O2 as Operation>::Error>;
}

macro_rules! foci_n {
    ($n:literal, $v:expr, $ints:expr, $size:expr, $div:expr, $rep:expr, $seg:expr, $tr:expr) => {{
        let pts: Vec<ControlPoints<$n>> = (0..$size)
            .map(|i| {
                let mut cps = [ControlPoint::default(); $n];
                let first = $ints[i * $n];
                for j in 0..$n {
                    let (x, y, z, io) = $ints[i * $n + j];
                    let p = Point3::new(x as f32 * 0.025, y as f32 * 0.025, z as f32 * 0.025);
                    // the record's byte is the offset relative to the first focus: choose absolute offsets
                    // so that (offset_j - offset_0) = io with offset_0 = 0
                    cps[j] = ControlPoint::new(p, Phase(if j == 0 { 0 } else { io }));
                }
                ControlPoints::new(cps, EmitIntensity(first.3))
            })
            .collect();
        $v.visit(WithLoopBehavior::new(FociSTM::new(pts, $div), $rep, $seg, $tr))
    }};
}

/// the one place where a spec becomes a real SDK datagram (shared by `build` and `build1`)
macro_rules! build_body {
    ($spec:expr, $v:expr) => {
    match $spec.clone() {
        Spec::Clear => $v.visit(Clear::new()),
        Spec::Sync => $v.visit(Synchronize::new()),
        Spec::Fan(b) => $v.visit(ForceFan::new(move |_| b)),
        Spec::Reads(b) => $v.visit(ReadsFPGAState::new(move |_| b)),
        Spec::CpuGpio(x) => $v.visit(CpuGPIOOutputs::new(move |_| CpuGPIOPort::new(x & 0x20 != 0, x & 0x80 != 0))),
        Spec::GpioIn(f) => $v.visit(EmulateGPIOIn::new(move |_| {
            move |g: GPIOIn| (f >> (g as u8)) & 1 == 1
        })),
        Spec::Debug(vals) => $v.visit(GPIOOutputs::new(move |dev, g: GPIOOut| debug_type_dev(vals[g as usize], dev))),
        Spec::PhaseCorr(seed) => $v.visit(PhaseCorrection::new(move |dev| {
            let b = pr_bytes(seed.wrapping_add(1000003 * dev.idx() as u64), NUM_TR);
            move |tr: &Transducer| Phase(b[tr.idx()])
        })),
        Spec::Pwe(seed) => $v.visit(PulseWidthEncoder::new(move |_| {
            let b = pr_bytes(seed, 512);
            move |i: EmitIntensity| {
                let k = i.0 as usize;
                PulseWidth::new((b[2 * k] as u16 | ((b[2 * k + 1] as u16) << 8)) % 512).unwrap()
            }
        })),
        Spec::PweDefault => $v.visit(PulseWidthEncoder::default()),
        Spec::ModRaw { seg, tr, rep, div, bytes } => $v.visit(WithLoopBehavior::new(
            autd3::modulation::Custom::new(bytes, to_div(div)),
            to_loop(rep),
            to_segment(seg),
            tr.map(to_transition),
        )),
        Spec::SilSteps(i, p, strict) => $v.visit(Silencer::new(FixedCompletionSteps {
            intensity: NonZeroU16::new(i).unwrap(),
            phase: NonZeroU16::new(p).unwrap(),
            strict_mode: strict,
        })),
        Spec::SilRate(i, p) => $v.visit(Silencer::new(FixedUpdateRate {
            intensity: NonZeroU16::new(i).unwrap(),
            phase: NonZeroU16::new(p).unwrap(),
        })),
        Spec::Gain { seg, tr, seed } => $v.visit(WithSegment::new(custom_gain(seed), to_segment(seg), tr.map(to_transition))),
        Spec::Mod { seg, tr, rep, div, n, seed } => $v.visit(WithLoopBehavior::new(
            autd3::modulation::Custom::new(pr_bytes(seed, n), to_div(div)),
            to_loop(rep),
            to_segment(seg),
            tr.map(to_transition),
        )),
        Spec::Foci { n, seg, tr, rep, div, ss: _, size, seed } => {
            let ints = foci_ints(seed, n, size);
            let (d, r, s, t) = (to_div(div), to_loop(rep), to_segment(seg), tr.map(to_transition));
            match n {
                1 => foci_n!(1, $v, ints, size, d, r, s, t),
                2 => foci_n!(2, $v, ints, size, d, r, s, t),
                3 => foci_n!(3, $v, ints, size, d, r, s, t),
                4 => foci_n!(4, $v, ints, size, d, r, s, t),
                5 => foci_n!(5, $v, ints, size, d, r, s, t),
                6 => foci_n!(6, $v, ints, size, d, r, s, t),
                7 => foci_n!(7, $v, ints, size, d, r, s, t),
                _ => foci_n!(8, $v, ints, size, d, r, s, t),
            }
        }
        Spec::GainStm { mode, seg, tr, rep, div, size, seed } => {
            let gains: Vec<_> = (0..size).map(|k| custom_gain(seed.wrapping_add(7919 * k as u64))).collect();
            let mode = match mode {
                0 => GainSTMMode::PhaseIntensityFull,
                1 => GainSTMMode::PhaseFull,
                _ => GainSTMMode::PhaseHalf,
            };
            $v.visit(WithLoopBehavior::new(
                GainSTM::new(gains, to_div(div), GainSTMOption { mode }),
                to_loop(rep),
                to_segment(seg),
                tr.map(to_transition),
            ))
        }
        Spec::SwapGain(s, t) => $v.visit(SwapSegment::Gain(to_segment(s), to_transition(t))),
        Spec::SwapMod(s, t) => $v.visit(SwapSegment::Modulation(to_segment(s), to_transition(t))),
        Spec::SwapFoci(s, t) => $v.visit(SwapSegment::FociSTM(to_segment(s), to_transition(t))),
        Spec::SwapGainStm(s, t) => $v.visit(SwapSegment::GainSTM(to_segment(s), to_transition(t))),
        Spec::FirmInfo(t) => $v.visit(match t {
            1 => FirmwareVersionType::CPUMajor,
            2 => FirmwareVersionType::CPUMinor,
            3 => FirmwareVersionType::FPGAMajor,
            4 => FirmwareVersionType::FPGAMinor,
            5 => FirmwareVersionType::FPGAFunctions,
            _ => FirmwareVersionType::Clear,
        }),
        Spec::FanMask(m) => $v.visit(ForceFan::new(move |dev| (m >> dev.idx()) & 1 == 1)),
        Spec::ReadsMask(m) => $v.visit(ReadsFPGAState::new(move |dev| (m >> dev.idx()) & 1 == 1)),
        Spec::CpuGpioDev(xs) => $v.visit(CpuGPIOOutputs::new(move |dev| {
            let x = xs[dev.idx() % xs.len()];
            CpuGPIOPort::new(x & 0x20 != 0, x & 0x80 != 0)
        })),
        Spec::GpioInDev(fs) => $v.visit(EmulateGPIOIn::new(move |dev| {
            let f = fs[dev.idx() % fs.len()];
            move |g: GPIOIn| (f >> (g as u8)) & 1 == 1
        })),
        Spec::DebugDev(vals) => $v.visit(GPIOOutputs::new(move |dev, g: GPIOOut| debug_type_dev(vals[(g as usize + dev.idx()) % 4], dev))),
    }
    };
}

pub fn build<V: DgVisitor>(spec: &Spec, v: V) -> V::R {
    build_body!(spec, v)
}

/// as `DgVisitor`, but the visitor also learns that the datagram is a *single* one (`O2 = NullOp`, true for every
/// spec): with that the real tuple type `(A, B)` — `impl Datagram for (D1, D2)` + `CombinedOperationGenerator` —
/// can be named (coverage review C03 gap 1)
pub trait DgVisitor1 {
    type R;
    fn visit<D>(self, d: D) -> Self::R
    where
        D: Datagram,
        D::Error: std::error::Error,
        AUTDDriverError: From<D::Error>,
        D::G: OperationGenerator<O2 = autd3_core::datagram::NullOp>,
        AUTDDriverError: From<<<D::G as OperationGenerator>::O1 as Operation>::Error>;
}

pub fn build1<V: DgVisitor1>(spec: &Spec, v: V) -> V::R {
    build_body!(spec, v)
}

type TrFn = Box<dyn Fn(&Transducer) -> Drive + Send + Sync + 'static>;
fn custom_gain(seed: u64) -> autd3::gain::Custom<'static, TrFn, impl Fn(&Device) -> TrFn> {
    autd3::gain::Custom::new(move |dev: &Device| -> TrFn {
        let w = Arc::new(gain_drive_words(seed, dev.idx()));
        Box::new(move |tr: &Transducer| {
            let x = w[tr.idx()];
            Drive { phase: Phase((x & 0xFF) as u8), intensity: EmitIntensity((x >> 8) as u8) }
        })
    })
}

// ------------------------------------------------------------------------------------------------

pub struct World {
    pub cpus: Vec<CPUEmulator>,
    pub geo: Geometry,
    pub tx: Vec<TxMessage>,
    pub t: u64,
    /// when set, every delivered frame of the current send is kept: (device, 626 bytes)
    pub keep_frames: bool,
    pub frames: Vec<(usize, Vec<u8>)>,
}

pub struct SendOutcome {
    pub result: String,
    pub frames: usize,
    pub fh: u64,
}

fn err_name(e: &AUTDDriverError) -> String {
    let s = format!("{e:?}");
    let name: String = s.chars().take_while(|c| c.is_alphanumeric()).collect();
    name
}

fn hash_frame(h: u64, dev: usize, tx: &TxMessage) -> u64 {
    use zerocopy::IntoBytes;
    let mut v = Vec::with_capacity(9 + 626);
    v.extend_from_slice(&h.to_le_bytes());
    v.push(dev as u8);
    v.extend_from_slice(tx.as_bytes());
    fnv64(&v)
}

struct SendV<'a> {
    w: &'a mut World,
    max_frames: usize,
}
impl DgVisitor for SendV<'_> {
    type R = SendOutcome;
    fn visit<D>(self, d: D) -> SendOutcome
    where
        D: Datagram,
        AUTDDriverError: From<D::Error>,
        D::G: OperationGenerator,
        AUTDDriverError: From<<<D::G as OperationGenerator>::O1 as Operation>::Error>
            + From<<<D::G as OperationGenerator>::O2 as Operation>::Error>,
    {
        self.w.send_dg(d, self.max_frames)
    }
}

struct PairV1<'a> {
    w: &'a mut World,
    b: &'a Spec,
    max_frames: usize,
}
impl DgVisitor for PairV1<'_> {
    type R = SendOutcome;
    fn visit<A>(self, a: A) -> SendOutcome
    where
        A: Datagram,
        AUTDDriverError: From<A::Error>,
        A::G: OperationGenerator,
        AUTDDriverError: From<<<A::G as OperationGenerator>::O1 as Operation>::Error>
            + From<<<A::G as OperationGenerator>::O2 as Operation>::Error>,
    {
        build(self.b, PairV2 { w: self.w, a, max_frames: self.max_frames })
    }
}
struct PairV2<'a, A> {
    w: &'a mut World,
    a: A,
    max_frames: usize,
}
impl<A> DgVisitor for PairV2<'_, A>
where
    A: Datagram,
    AUTDDriverError: From<A::Error>,
    A::G: OperationGenerator,
    AUTDDriverError: From<<<A::G as OperationGenerator>::O1 as Operation>::Error>
        + From<<<A::G as OperationGenerator>::O2 as Operation>::Error>,
{
    type R = SendOutcome;
    fn visit<B>(self, b: B) -> SendOutcome
    where
        B: Datagram,
        AUTDDriverError: From<B::Error>,
        B::G: OperationGenerator,
        AUTDDriverError: From<<<B::G as OperationGenerator>::O1 as Operation>::Error>
            + From<<<B::G as OperationGenerator>::O2 as Operation>::Error>,
    {
        // what `impl Datagram for (D1, D2)` + `CombinedOperationGenerator` do, at operation level
        // (the tuple impl itself needs `D2::G::O2 = NullOp` as a *type* equality, which a generic
        // visitor cannot name; the real tuple type is exercised by the typed cases of `fw_c03`)
        self.w.send_pair(self.a, b, self.max_frames)
    }
}

struct TupV1<'a> {
    w: &'a mut World,
    b: &'a Spec,
    max_frames: usize,
}
impl DgVisitor1 for TupV1<'_> {
    type R = SendOutcome;
    fn visit<A>(self, a: A) -> SendOutcome
    where
        A: Datagram,
        A::Error: std::error::Error,
        AUTDDriverError: From<A::Error>,
        A::G: OperationGenerator<O2 = autd3_core::datagram::NullOp>,
        AUTDDriverError: From<<<A::G as OperationGenerator>::O1 as Operation>::Error>,
    {
        build1(self.b, TupV2 { w: self.w, a, max_frames: self.max_frames })
    }
}
struct TupV2<'a, A> {
    w: &'a mut World,
    a: A,
    max_frames: usize,
}
impl<A> DgVisitor1 for TupV2<'_, A>
where
    A: Datagram,
    A::Error: std::error::Error,
    AUTDDriverError: From<A::Error>,
    A::G: OperationGenerator<O2 = autd3_core::datagram::NullOp>,
    AUTDDriverError: From<<<A::G as OperationGenerator>::O1 as Operation>::Error>,
{
    type R = SendOutcome;
    fn visit<B>(self, b: B) -> SendOutcome
    where
        B: Datagram,
        B::Error: std::error::Error,
        AUTDDriverError: From<B::Error>,
        B::G: OperationGenerator<O2 = autd3_core::datagram::NullOp>,
        AUTDDriverError: From<<<B::G as OperationGenerator>::O1 as Operation>::Error>,
    {
        // the REAL tuple datagram: `impl Datagram for (D1, D2)` (operation_generator, error order) and
        // `CombinedOperationGenerator::generate`, through the ordinary single-datagram send loop
        self.w.send_dg((self.a, b), self.max_frames)
    }
}

impl World {
    pub fn new(n: usize, t0: u64) -> Self {
        let geo = crate::dev::create_geometry(n);
        let mut cpus: Vec<CPUEmulator> = (0..n).map(|i| CPUEmulator::new(i, NUM_TR)).collect();
        for c in cpus.iter_mut() {
            c.update_with_sys_time(DcSysTime::ZERO + Duration::from_nanos(t0));
        }
        World { cpus, geo, tx: vec![TxMessage::new_zeroed(); n], t: t0, keep_frames: false, frames: vec![] }
    }

    /// devices of different sizes (the `k`-th device has `sizes[k]` transducers on the AUTD3 grid; 249 = a plain AUTD3):
    /// operations whose wire size depends on the transducer count finish after different numbers of frames
    pub fn with_sizes(sizes: &[usize], t0: u64) -> Self {
        use autd3_core::geometry::{Device, Point3, Transducer, UnitQuaternion};
        let devs: Vec<Device> = sizes
            .iter()
            .map(|&k| {
                if k == NUM_TR {
                    autd3::prelude::AUTD3 { pos: Point3::origin(), ..Default::default() }.into()
                } else {
                    Device::new(UnitQuaternion::identity(), (0..k).map(|i| Transducer::new(Point3::new(10.16 * (i % 18) as f32, 10.16 * (i / 18) as f32, 0.))).collect())
                }
            })
            .collect();
        let geo = Geometry::new(devs);
        let mut cpus: Vec<CPUEmulator> = sizes.iter().enumerate().map(|(i, &k)| CPUEmulator::new(i, k)).collect();
        for c in cpus.iter_mut() {
            c.update_with_sys_time(DcSysTime::ZERO + Duration::from_nanos(t0));
        }
        World { cpus, geo, tx: vec![TxMessage::new_zeroed(); sizes.len()], t: t0, keep_frames: false, frames: vec![] }
    }

    fn clear_payloads(&mut self) {
        self.frames.clear();
        for t in self.tx.iter_mut() {
            t.payload_mut().fill(0);
            t.header.slot_2_offset = 0;
        }
    }

    fn deliver(&mut self, fh: &mut u64) -> Option<u8> {
        let mut bad = None;
        for (i, cpu) in self.cpus.iter_mut().enumerate() {
            *fh = hash_frame(*fh, i, &self.tx[i]);
            if self.keep_frames {
                use zerocopy::IntoBytes;
                self.frames.push((i, self.tx[i].as_bytes().to_vec()));
            }
            cpu.send(&self.tx);
            if (cpu.rx().ack() & ERR_BIT) == ERR_BIT && bad.is_none() {
                bad = Some(cpu.rx().ack());
            }
        }
        bad
    }

    pub fn send_dg<D>(&mut self, d: D, max_frames: usize) -> SendOutcome
    where
        D: Datagram,
        AUTDDriverError: From<D::Error>,
        D::G: OperationGenerator,
        AUTDDriverError: From<<<D::G as OperationGenerator>::O1 as Operation>::Error>
            + From<<<D::G as OperationGenerator>::O2 as Operation>::Error>,
    {
        self.clear_payloads();
        let generator = match d.operation_generator(&self.geo, false) {
            Ok(g) => g,
            Err(e) => return SendOutcome { result: format!("err:{}", err_name(&AUTDDriverError::from(e))), frames: 0, fh: 0 },
        };
        let mut op = OperationHandler::generate(generator, &self.geo);
        let (mut frames, mut fh) = (0usize, 0u64);
        loop {
            if OperationHandler::is_done(&op) {
                return SendOutcome { result: "ok".into(), frames, fh };
            }
            if frames >= max_frames {
                return SendOutcome { result: "aborted".into(), frames, fh };
            }
            if let Err(e) = OperationHandler::pack(&mut op, &self.geo, &mut self.tx, false) {
                return SendOutcome { result: format!("err:{}", err_name(&e)), frames, fh };
            }
            frames += 1;
            if let Some(a) = self.deliver(&mut fh) {
                return SendOutcome { result: format!("err:fw:{a}"), frames, fh };
            }
        }
    }

    pub fn send_pair<A, B>(&mut self, a: A, b: B, max_frames: usize) -> SendOutcome
    where
        A: Datagram,
        B: Datagram,
        AUTDDriverError: From<A::Error> + From<B::Error>,
        A::G: OperationGenerator,
        B::G: OperationGenerator,
        AUTDDriverError: From<<<A::G as OperationGenerator>::O1 as Operation>::Error>
            + From<<<B::G as OperationGenerator>::O1 as Operation>::Error>,
    {
        self.clear_payloads();
        let (mut g1, mut g2) = match (a.operation_generator(&self.geo, false), b.operation_generator(&self.geo, false)) {
            (Ok(g1), Ok(g2)) => (g1, g2),
            (Err(e), _) => return SendOutcome { result: format!("err:{}", err_name(&AUTDDriverError::from(e))), frames: 0, fh: 0 },
            (_, Err(e)) => return SendOutcome { result: format!("err:{}", err_name(&AUTDDriverError::from(e))), frames: 0, fh: 0 },
        };
        let mut op: Vec<Option<_>> = self
            .geo
            .devices()
            .map(|dev| {
                let (o1, _) = g1.generate(dev);
                let (o2, _) = g2.generate(dev);
                Some((o1, o2))
            })
            .collect();
        let (mut frames, mut fh) = (0usize, 0u64);
        loop {
            if OperationHandler::is_done(&op) {
                return SendOutcome { result: "ok".into(), frames, fh };
            }
            if frames >= max_frames {
                return SendOutcome { result: "aborted".into(), frames, fh };
            }
            if let Err(e) = OperationHandler::pack(&mut op, &self.geo, &mut self.tx, false) {
                return SendOutcome { result: format!("err:{}", err_name(&e)), frames, fh };
            }
            frames += 1;
            if let Some(a) = self.deliver(&mut fh) {
                return SendOutcome { result: format!("err:fw:{a}"), frames, fh };
            }
        }
    }

    /// a FociSTM's `ss` is the header's sound-speed field: `(device.sound_speed / METER * 64).round() as u16`.
    /// It is a property of the device, so the spec sets every device's sound speed before the send.
    fn apply_sound_speed(&mut self, s: &Spec) {
        if let Spec::Foci { ss, .. } = s {
            for dev in self.geo.iter_mut() {
                dev.sound_speed = *ss as f32 * 1000.0 / 64.0;
            }
        }
    }
    pub fn send_spec(&mut self, s: &Spec, max_frames: usize) -> SendOutcome {
        self.apply_sound_speed(s);
        build(s, SendV { w: self, max_frames })
    }
    pub fn send_pair_spec(&mut self, a: &Spec, b: &Spec, max_frames: usize) -> SendOutcome {
        self.apply_sound_speed(a);
        self.apply_sound_speed(b);
        build(a, PairV1 { w: self, b, max_frames })
    }

    /// `(a, b)` as the real tuple type (same observable contract as `send_pair_spec`, which re-states the tuple at
    /// operation level)
    pub fn send_tuple_spec(&mut self, a: &Spec, b: &Spec, max_frames: usize) -> SendOutcome {
        self.apply_sound_speed(a);
        self.apply_sound_speed(b);
        build1(a, TupV1 { w: self, b, max_frames })
    }

    pub fn clk(&mut self, t: u64) {
        self.t = t;
        for c in self.cpus.iter_mut() {
            c.update_with_sys_time(DcSysTime::ZERO + Duration::from_nanos(t));
        }
    }
}

// ------------------------------------------------------------------------------------------------
// observation record (must print exactly what `Drv/Fw.lean` prints)

fn words_bytes(ws: &[u16]) -> Vec<u8> {
    ws.iter().flat_map(|w| w.to_le_bytes()).collect()
}
fn drive_words(ds: &[Drive]) -> Vec<u16> {
    ds.iter().map(|d| d.phase.0 as u16 | ((d.intensity.0 as u16) << 8)).collect()
}

pub fn sample_idx(cycle: usize, unit: usize) -> Vec<usize> {
    if cycle <= 16 {
        return (0..cycle).collect();
    }
    let mut v = vec![0, 1, 2, cycle - 2, cycle - 1];
    for j in 0..15 {
        let b = if unit == 0 { 0 } else { (4096 * (j + 1)) / unit };
        for x in [b.wrapping_sub(1), b, b + 1] {
            if b == 0 && x == usize::MAX {
                // Lean: 0 - 1 = 0 on Nat
                if 0 < cycle && !v.contains(&0) {
                    v.push(0);
                }
                continue;
            }
            if x < cycle && !v.contains(&x) {
                v.push(x);
            }
        }
    }
    v
}

pub fn tmode_str(t: Result<TransitionMode, String>) -> String {
    match t {
        Ok(TransitionMode::SyncIdx) => "sync".into(),
        Ok(TransitionMode::SysTime(t)) => format!("sys{}", t.sys_time()),
        Ok(TransitionMode::GPIO(g)) => format!("gpio{}", g as u8),
        Ok(TransitionMode::Ext) => "ext".into(),
        Ok(TransitionMode::Immediate) => "imm".into(),
        Err(_) => "P".into(),
    }
}

pub fn stm_hash(cpu: &CPUEmulator, seg: Segment) -> u64 {
    let f = cpu.fpga();
    let cycle = f.stm_cycle(seg);
    let gain = f.is_stm_gain_mode(seg);
    let nf = f.num_foci(seg) as usize;
    let mut h = 0u64;
    for i in sample_idx(cycle, if gain { 64 } else { nf }) {
        h = match guarded(|| f.drives_at(seg, i)) {
            Ok(ds) => {
                let mut ws = vec![(h & 0xFFFF) as u16, ((h >> 16) & 0xFFFF) as u16, ((h >> 32) & 0xFFFF) as u16, (h >> 48) as u16];
                ws.extend(drive_words(&ds));
                fnv64(&words_bytes(&ws))
            }
            Err(_) => fnv64(&[0x50, (h & 0xFF) as u8]),
        };
    }
    h
}

pub fn mod_hash(cpu: &CPUEmulator, seg: Segment) -> u64 {
    match guarded(|| cpu.fpga().modulation_buffer(seg)) {
        Ok(b) => fnv64(&b),
        Err(_) => 0x50,
    }
}

pub fn scalar_obs(cpu: &CPUEmulator) -> String {
    let f = cpu.fpga();
    let g = |x: Result<String, String>| x.unwrap_or_else(|_| "P".into());
    let seg2 = |h: &dyn Fn(Segment) -> String| format!("{}/{}", h(Segment::S0), h(Segment::S1));
    let steps = g(guarded(|| {
        let s = f.silencer_completion_steps();
        format!("{}/{}", s.intensity.get(), s.phase.get())
    }));
    let ur = f.silencer_update_rate();
    let pwe = g(guarded(|| {
        let t: Vec<u16> = f.pulse_width_encoder_table().iter().map(|p| p.pulse_width()).collect();
        fnv64(&words_bytes(&t)).to_string()
    }));
    let pc: Vec<u8> = f.phase_correction().iter().map(|p| p.0).collect();
    let gi = f.gpio_in();
    [
        format!("ack={}", cpu.rx().ack()),
        format!("rx={}", cpu.rx().data()),
        format!("reads={}", cpu.reads_fpga_state() as u8),
        format!("sync={}", cpu.synchronized() as u8),
        format!("porta={}", cpu.port_a_podr()),
        format!("strict={}", cpu.silencer_strict_mode() as u8),
        format!("ur={}/{}", ur.intensity.get(), ur.phase.get()),
        format!("steps={steps}"),
        format!("fixedrate={}", f.silencer_fixed_update_rate_mode() as u8),
        format!("modreq={}", g(guarded(|| (f.req_modulation_segment() as u8).to_string()))),
        format!("modtr={}", tmode_str(guarded(|| f.modulation_transition_mode()))),
        format!("stmreq={}", g(guarded(|| (f.req_stm_segment() as u8).to_string()))),
        format!("stmtr={}", tmode_str(guarded(|| f.stm_transition_mode()))),
        format!("moddiv={}", seg2(&|s| f.modulation_freq_division(s).to_string())),
        format!("modcycle={}", seg2(&|s| f.modulation_cycle(s).to_string())),
        format!("modrep={}", seg2(&|s| f.modulation_loop_behavior(s).rep().to_string())),
        format!("gainmode={}", seg2(&|s| (f.is_stm_gain_mode(s) as u8).to_string())),
        format!("stmdiv={}", seg2(&|s| f.stm_freq_division(s).to_string())),
        format!("stmcycle={}", seg2(&|s| f.stm_cycle(s).to_string())),
        format!("stmrep={}", seg2(&|s| f.stm_loop_behavior(s).rep().to_string())),
        format!("ss={}", seg2(&|s| f.sound_speed(s).to_string())),
        format!("nf={}", seg2(&|s| f.num_foci(s).to_string())),
        format!("pwe={pwe}"),
        format!("pc={}", fnv64(&pc)),
        format!("dbgt=#{:?}", f.debug_types().to_vec()),
        format!("dbgv=#{:?}", f.debug_values().to_vec()),
        format!("fan={}", f.is_force_fan() as u8),
        format!("thermo={}", f.is_thermo_asserted() as u8),
        format!("state={}", f.fpga_state()),
        format!("cur={}/{}", f.current_mod_segment() as u8, f.current_stm_segment() as u8),
        format!("idx={}/{}", f.current_mod_idx(), f.current_stm_idx()),
        format!("gpio={}{}{}{}", gi[0] as u8, gi[1] as u8, gi[2] as u8, gi[3] as u8),
    ]
    .join(" ")
}

pub fn obs_hash(cpu: &CPUEmulator) -> String {
    format!(
        "{}:{}:{}:{}:{}",
        fnv64(scalar_obs(cpu).as_bytes()),
        mod_hash(cpu, Segment::S0),
        mod_hash(cpu, Segment::S1),
        stm_hash(cpu, Segment::S0),
        stm_hash(cpu, Segment::S1)
    )
}

impl World {
    pub fn obs_all(&self) -> String {
        self.cpus.iter().map(obs_hash).collect::<Vec<_>>().join(" ")
    }
    pub fn answer(&self, o: &SendOutcome) -> String {
        format!("R={} N={} F={} O={}", o.result, o.frames, o.fh, self.obs_all())
    }
    pub fn clk_answer(&self) -> String {
        let parts: Vec<String> = self
            .cpus
            .iter()
            .map(|c| {
                let f = c.fpga();
                format!(
                    "{}/{}/{}/{}/{}/{}",
                    f.fpga_state(),
                    c.rx().data(),
                    f.current_mod_segment() as u8,
                    f.current_stm_segment() as u8,
                    f.current_mod_idx(),
                    f.current_stm_idx()
                )
            })
            .collect();
        format!("S {}", parts.join(" "))
    }
    pub fn read_answer(&self) -> String {
        let parts: Vec<String> = self
            .cpus
            .iter()
            .map(|c| {
                let dr = match guarded(|| c.fpga().drives()) {
                    Ok(ds) => fnv64(&words_bytes(&drive_words(&ds))).to_string(),
                    Err(_) => "P".into(),
                };
                let m = match guarded(|| c.fpga().modulation()) {
                    Ok(v) => v.to_string(),
                    Err(_) => "P".into(),
                };
                format!("{dr}/{m}")
            })
            .collect();
        format!("D {}", parts.join(" "))
    }
}

/// A scripted session: writes each op line with the implementation's answer; a panic inside the
/// implementation is an answer (`panic`) and kills the session until the next `reset` (the model's
/// `dead` state), exactly like the Lean driver.
pub struct Session<'o> {
    pub out: &'o mut Out,
    pub w: World,
    pub dead: bool,
    pub log: Vec<String>,
    /// message of the panic that killed the session
    pub panic_msg: Option<String>,
}

impl<'o> Session<'o> {
    pub fn new(out: &'o mut Out, n: usize, t0: u64) -> Self {
        let w = World::new(n, t0);
        let line = format!("reset {n} {t0}");
        out.line(&line, "ok");
        Session { out, w, dead: false, log: vec![line], panic_msg: None }
    }
    fn emit(&mut self, op: String, ans: Result<String, String>) -> String {
        let a = match ans {
            Ok(a) => a,
            Err(m) => {
                self.dead = true;
                self.panic_msg = Some(m);
                "panic".to_string()
            }
        };
        // the model reports `panic:<site>`; compare only the fact of the panic
        self.out.line(&op, &a);
        self.log.push(op);
        a
    }
    pub fn send(&mut self, s: &Spec) -> String {
        if self.dead {
            return "dead".into();
        }
        let op = format!("send {}", s.text());
        let w = &mut self.w;
        let r = guarded(|| {
            let o = w.send_spec(s, usize::MAX);
            w.answer(&o)
        });
        self.emit(op, r)
    }
    pub fn abort(&mut self, k: usize, s: &Spec) -> String {
        if self.dead {
            return "dead".into();
        }
        let op = format!("abort {k} {}", s.text());
        let w = &mut self.w;
        let r = guarded(|| {
            let o = w.send_spec(s, k);
            w.answer(&o)
        });
        self.emit(op, r)
    }
    pub fn pair(&mut self, a: &Spec, b: &Spec) -> String {
        if self.dead {
            return "dead".into();
        }
        let op = format!("send pair {} | {}", a.text(), b.text());
        let w = &mut self.w;
        let r = guarded(|| {
            let o = w.send_pair_spec(a, b, usize::MAX);
            w.answer(&o)
        });
        self.emit(op, r)
    }
    /// the same op line as `pair`, answered by the real tuple type `(A, B)`
    pub fn pair_real(&mut self, a: &Spec, b: &Spec) -> String {
        if self.dead {
            return "dead".into();
        }
        let op = format!("send pair {} | {}", a.text(), b.text());
        let w = &mut self.w;
        let r = guarded(|| {
            let o = w.send_tuple_spec(a, b, usize::MAX);
            w.answer(&o)
        });
        self.emit(op, r)
    }
    pub fn clk(&mut self, t: u64) -> String {
        if self.dead {
            return "dead".into();
        }
        let w = &mut self.w;
        let r = guarded(|| {
            w.clk(t);
            w.clk_answer()
        });
        self.emit(format!("clk {t}"), r)
    }
    pub fn read(&mut self) -> String {
        if self.dead {
            return "dead".into();
        }
        let w = &self.w;
        let r = guarded(|| w.read_answer());
        self.emit("read".into(), r)
    }
    pub fn thermo(&mut self, dev: usize, on: bool) {
        if self.dead {
            return;
        }
        if on {
            self.w.cpus[dev].fpga_mut().assert_thermal_sensor();
        } else {
            self.w.cpus[dev].fpga_mut().deassert_thermal_sensor();
        }
        let _ = self.emit(format!("thermo {dev} {}", on as u8), Ok("ok".into()));
    }
}

// ------------------------------------------------------------------------------------------------
// resources (DESIGN Appendix B): what a datagram addresses, and the observable state of each

#[derive(Clone, Copy, Debug, PartialEq, Eq)]
pub enum Res {
    ModSeg(u8),
    ModReq,
    StmSeg(u8),
    StmReq,
    Silencer,
    Pwe,
    PhaseCorr,
    Debug,
    Fan,
    GpioIn,
    Reads,
    Sync,
    PortA,
}

pub const ALL_RES: [Res; 15] = [
    Res::ModSeg(0),
    Res::ModSeg(1),
    Res::ModReq,
    Res::StmSeg(0),
    Res::StmSeg(1),
    Res::StmReq,
    Res::Silencer,
    Res::Pwe,
    Res::PhaseCorr,
    Res::Debug,
    Res::Fan,
    Res::GpioIn,
    Res::Reads,
    Res::Sync,
    Res::PortA,
];

/// resources a datagram writes (everything for Clear)
pub fn touches(s: &Spec) -> Vec<Res> {
    let with = |base: Res, req: Res, tr: &Tr| if tr.is_some() { vec![base, req] } else { vec![base] };
    match s {
        Spec::Clear => ALL_RES.to_vec(),
        Spec::Sync => vec![Res::Sync],
        Spec::Fan(_) | Spec::FanMask(_) => vec![Res::Fan],
        Spec::GpioIn(_) | Spec::GpioInDev(_) => vec![Res::GpioIn],
        Spec::Reads(_) | Spec::FirmInfo(_) | Spec::ReadsMask(_) => vec![Res::Reads],
        Spec::CpuGpio(_) | Spec::CpuGpioDev(_) => vec![Res::PortA],
        Spec::Debug(_) | Spec::DebugDev(_) => vec![Res::Debug],
        Spec::PhaseCorr(_) => vec![Res::PhaseCorr],
        Spec::Pwe(_) | Spec::PweDefault => vec![Res::Pwe],
        Spec::SilSteps(..) | Spec::SilRate(..) => vec![Res::Silencer],
        Spec::Gain { seg, tr, .. } => with(Res::StmSeg(*seg), Res::StmReq, tr),
        Spec::Mod { seg, tr, .. } | Spec::ModRaw { seg, tr, .. } => with(Res::ModSeg(*seg), Res::ModReq, tr),
        Spec::Foci { seg, tr, .. } | Spec::GainStm { seg, tr, .. } => with(Res::StmSeg(*seg), Res::StmReq, tr),
        Spec::SwapGain(..) | Spec::SwapFoci(..) | Spec::SwapGainStm(..) => vec![Res::StmReq],
        Spec::SwapMod(..) => vec![Res::ModReq],
    }
}

/// STM content with the phase correction removed (so that PhaseCorrection and STM memory are separate resources)
pub fn stm_hash_nopc(cpu: &CPUEmulator, seg: Segment) -> String {
    let f = cpu.fpga();
    let pc: Vec<u8> = f.phase_correction().iter().map(|p| p.0).collect();
    let cycle = f.stm_cycle(seg);
    let gain = f.is_stm_gain_mode(seg);
    let nf = f.num_foci(seg) as usize;
    let mut h = 0u64;
    for i in sample_idx(cycle, if gain { 64 } else { nf }) {
        match guarded(|| f.drives_at(seg, i)) {
            Ok(ds) => {
                let mut ws = vec![(h & 0xFFFF) as u16, (h >> 48) as u16];
                ws.extend(ds.iter().enumerate().map(|(k, d)| d.phase.0.wrapping_sub(pc[k]) as u16 | ((d.intensity.0 as u16) << 8)));
                h = fnv64(&words_bytes(&ws));
            }
            Err(_) => return "P".into(),
        }
    }
    h.to_string()
}

/// time-independent observable state of a resource
pub fn res_obs(cpu: &CPUEmulator, r: Res) -> String {
    let f = cpu.fpga();
    let g = |x: Result<String, String>| x.unwrap_or_else(|_| "P".into());
    match r {
        Res::ModSeg(s) => {
            let s = to_segment(s);
            format!("{} {} {} {}", mod_hash(cpu, s), f.modulation_freq_division(s), f.modulation_loop_behavior(s).rep(), f.modulation_cycle(s))
        }
        Res::ModReq => format!(
            "{} {}",
            g(guarded(|| (f.req_modulation_segment() as u8).to_string())),
            tmode_str(guarded(|| f.modulation_transition_mode()))
        ),
        Res::StmSeg(s) => {
            let s = to_segment(s);
            let gain = f.is_stm_gain_mode(s);
            let extra = if gain { String::new() } else { format!(" {} {}", f.sound_speed(s), f.num_foci(s)) };
            format!("{} {} {} {} {}{extra}", stm_hash_nopc(cpu, s), gain as u8, f.stm_freq_division(s), f.stm_loop_behavior(s).rep(), f.stm_cycle(s))
        }
        Res::StmReq => format!("{} {}", g(guarded(|| (f.req_stm_segment() as u8).to_string())), tmode_str(guarded(|| f.stm_transition_mode()))),
        Res::Silencer => {
            // the *effective* configuration: in update-rate mode the completion-step registers (and the
            // strict flag that belongs to them) are dead values, and vice versa
            if f.silencer_fixed_update_rate_mode() {
                let ur = f.silencer_update_rate();
                format!("rate {}/{}", ur.intensity.get(), ur.phase.get())
            } else {
                let steps = g(guarded(|| {
                    let s = f.silencer_completion_steps();
                    format!("{}/{}", s.intensity.get(), s.phase.get())
                }));
                format!("steps {steps} strict={}", cpu.silencer_strict_mode() as u8)
            }
        }
        Res::Pwe => g(guarded(|| {
            let t: Vec<u16> = f.pulse_width_encoder_table().iter().map(|p| p.pulse_width()).collect();
            fnv64(&words_bytes(&t)).to_string()
        })),
        Res::PhaseCorr => {
            let pc: Vec<u8> = f.phase_correction().iter().map(|p| p.0).collect();
            fnv64(&pc).to_string()
        }
        Res::Debug => format!("{:?} {:?}", f.debug_types(), f.debug_values()),
        Res::Fan => format!("{}", f.is_force_fan() as u8),
        Res::GpioIn => format!("{:?}", f.gpio_in()),
        Res::Reads => format!("{}", cpu.reads_fpga_state() as u8),
        Res::Sync => format!("{}", cpu.synchronized() as u8),
        Res::PortA => format!("{}", cpu.port_a_podr()),
    }
}

/// time-evolving part (what the device is playing now)
pub fn res_dyn(cpu: &CPUEmulator, r: Res) -> String {
    let f = cpu.fpga();
    match r {
        Res::ModReq => format!("{}/{}", f.current_mod_segment() as u8, f.current_mod_idx()),
        Res::StmReq => format!("{}/{}", f.current_stm_segment() as u8, f.current_stm_idx()),
        _ => String::new(),
    }
}
