//! Streams `sampling` and `f32ops` (C06): the real `SamplingConfig` / `STMConfig` / `is_integer`
//! and the hardware's `f32` arithmetic against the Lean model, plus the implementation oracle that
//! states the property itself in exact integer arithmetic (an accepted rate is the nearest integer
//! division; the nearest variants are in range, nearest and monotone; the three views agree; the
//! emulator runs at the division the configuration names — `E` lines: FociSTM / GainSTM built with the
//! typed constructors and `into_nearest()` as well as with the `STMConfig` enum, 1/2/8 foci per pattern,
//! both segments, and a `Custom` modulation for a rate given directly; the oracle applies the property to
//! the division register read back from the device).
use crate::common::*;
use crate::dev::*;
use autd3::prelude::*;
use autd3_core::sampling_config::{Nearest, SamplingConfigError};
use autd3_core::utils::float::is_integer;
use autd3_driver::datagram::{ControlPoint, ControlPoints, GainSTMOption, STMConfig, WithSegment};
use autd3_firmware_emulator::CPUEmulator;
use std::time::Duration;

const PERIOD_NS: u128 = 25_000;
const BASE: i128 = 40_000;

fn hx(b: u32) -> String {
    format!("{b:08x}")
}

fn dur(ns: u128) -> Duration {
    Duration::new((ns / 1_000_000_000) as u64, (ns % 1_000_000_000) as u32)
}

fn sc_tok(r: Result<u16, SamplingConfigError>) -> String {
    match r {
        Ok(d) => d.to_string(),
        Err(SamplingConfigError::FreqOutOfRangeF(..)) => "range".into(),
        Err(SamplingConfigError::FreqInvalidF(..)) => "invalid".into(),
        Err(SamplingConfigError::PeriodOutOfRange(..)) => "prange".into(),
        Err(SamplingConfigError::PeriodInvalid(..)) => "pinvalid".into(),
        Err(e) => format!("other:{e:?}").replace(' ', "_"),
    }
}

fn drv_tok(r: &Result<u16, AUTDDriverError>) -> String {
    match r {
        Ok(d) => d.to_string(),
        Err(AUTDDriverError::SamplingConfig(e)) => sc_tok(Err(*e)),
        Err(AUTDDriverError::STMPeriodInvalid(..)) => "stm-invalid".into(),
        Err(e) => format!("other:{e:?}").replace(' ', "_"),
    }
}

/// finite `f32` as `(negative, m, e)` with value `m · 2^e`
fn decomp(bits: u32) -> Option<(bool, i128, i32)> {
    let ex = ((bits >> 23) & 0xFF) as i32;
    let fr = (bits & 0x7F_FFFF) as i128;
    let neg = bits >> 31 == 1;
    match ex {
        255 => None,
        0 => Some((neg, fr, -149)),
        _ => Some((neg, fr + (1 << 23), ex - 150)),
    }
}

#[derive(Clone, Copy)]
enum Kind {
    D,
    F,
    N,
    P,
    Q,
}
impl Kind {
    fn letter(self) -> &'static str {
        match self {
            Kind::D => "D",
            Kind::F => "F",
            Kind::N => "N",
            Kind::P => "P",
            Kind::Q => "Q",
        }
    }
}

fn config(kind: Kind, x: u128) -> SamplingConfig {
    match kind {
        Kind::D => SamplingConfig::Division(std::num::NonZeroU16::new(x as u16).unwrap()),
        Kind::F => SamplingConfig::Freq(f32::from_bits(x as u32) * Hz),
        Kind::N => SamplingConfig::FreqNearest(Nearest(f32::from_bits(x as u32) * Hz)),
        Kind::P => SamplingConfig::Period(dur(x)),
        Kind::Q => SamplingConfig::PeriodNearest(Nearest(dur(x))),
    }
}

fn stm_config(kind: Kind, x: u128) -> STMConfig {
    match kind {
        Kind::D => STMConfig::SamplingConfig(config(Kind::D, x)),
        Kind::F => STMConfig::Freq(f32::from_bits(x as u32) * Hz),
        Kind::N => STMConfig::FreqNearest(f32::from_bits(x as u32) * Hz),
        Kind::P => STMConfig::Period(dur(x)),
        Kind::Q => STMConfig::PeriodNearest(dur(x)),
    }
}

/// the Rust expression an op stands for (second line of a replay)
fn describe(kind: Kind, x: u128, n: Option<usize>) -> String {
    let v = match kind {
        Kind::D => format!("NonZeroU16::new({x}).unwrap()"),
        Kind::F | Kind::N => format!("f32::from_bits(0x{:08x}) * Hz /* {:?} Hz */", x as u32, f32::from_bits(x as u32)),
        Kind::P | Kind::Q => format!("Duration::from_nanos({x})"),
    };
    match (n, kind) {
        (None, Kind::N) | (None, Kind::Q) => format!("SamplingConfig::new({v}).into_nearest().division()"),
        (None, _) => format!("SamplingConfig::new({v}).division()"),
        (Some(n), Kind::F) => format!("STMConfig::Freq({v}).into_sampling_config({n})?.division()"),
        (Some(n), Kind::N) => format!("STMConfig::FreqNearest({v}).into_sampling_config({n})?.division()"),
        (Some(n), Kind::P) => format!("STMConfig::Period({v}).into_sampling_config({n})?.division()"),
        (Some(n), Kind::Q) => format!("STMConfig::PeriodNearest({v}).into_sampling_config({n})?.division()"),
        (Some(n), Kind::D) => format!("STMConfig::SamplingConfig(SamplingConfig::new({v})).into_sampling_config({n})?.division()"),
    }
}

fn arg_str(kind: Kind, x: u128) -> String {
    match kind {
        Kind::F | Kind::N => hx(x as u32),
        _ => x.to_string(),
    }
}

/// what an `E` line does not name (invisible to the model): see `Ctx::e2e`
#[derive(Clone, Copy)]
struct Vary {
    /// the typed constructor (`f32*Hz`, `Duration`, `SamplingConfig`, `.into_nearest()`) instead of the `STMConfig` enum
    typed: bool,
    /// foci per pattern of a FociSTM (1, 2 or 8)
    nfoci: usize,
    seg: Segment,
    /// another STM (division 12345) was written to the target segment before
    used: bool,
    ndev: usize,
}
impl Vary {
    const PLAIN: Vary = Vary { typed: false, nfoci: 1, seg: Segment::S0, used: false, ndev: 1 };
    fn describe(&self, gain: bool) -> String {
        format!(
            "{}{}, segment {:?}{}{}",
            if self.typed { "typed constructor" } else { "STMConfig enum" },
            if gain { String::new() } else { format!(", {} foci per pattern", self.nfoci) },
            self.seg,
            if self.used { ", used segment" } else { "" },
            if self.ndev > 1 { ", 2 devices" } else { "" }
        )
    }
}

struct Ctx {
    out: Out,
    /// (bits, division) of every `FreqNearest` evaluation, for the monotonicity oracle
    near_f: Vec<(u32, u16)>,
    /// (nanoseconds, division) of every `PeriodNearest` evaluation
    near_p: Vec<(u128, u16)>,
}

impl Ctx {
    // ------------------------------------------------------------------ oracles
    /// `Freq(f·n)` accepted with division `d`: `d` is the nearest integer to `40000 / (f·n)`
    fn oracle_freq(&mut self, bits: u32, n: u128, d: u16, key: String, replay: Vec<String>) {
        let bad = match decomp(bits) {
            None => Some("a non-finite frequency was accepted".to_string()),
            Some((neg, m, e)) => {
                let mn = m * n as i128;
                if neg || mn == 0 {
                    Some("a non-positive frequency was accepted".to_string())
                } else if !(-90..=0).contains(&e) || n > (1 << 33) {
                    None // outside the exactly checkable window; cannot be accepted in range anyway
                } else {
                    // | 40000·2^-e − d·m·n | · 2 < m·n
                    let lhs = (BASE << (-e) as u32) - d as i128 * mn;
                    if d == 0 || lhs.abs() * 2 >= mn {
                        let q = 40000.0 / (f32::from_bits(bits) as f64 * n as f64);
                        Some(format!("accepted with division {d}, but 40000/f = {q:.7}: the nearest integer is {}", q.round()))
                    } else {
                        None
                    }
                }
            }
        };
        if let Some(what) = bad {
            let f = f32::from_bits(bits);
            self.out.violation(key, format!("sampling frequency {f:?} Hz{}: {what}", if n == 1 { String::new() } else { format!(" x {n} points") }), replay);
        }
    }

    /// `FreqNearest(f)` gave `d`: in range, and no neighbouring division is closer in frequency
    fn oracle_freq_nearest(&mut self, bits: u32, d: u16, key: String, replay: Vec<String>) {
        let f = f32::from_bits(bits);
        let mut bad = None;
        if d == 0 {
            bad = Some("division 0 (outside 1..=65535)".to_string());
        } else if f.is_nan() || f.is_infinite() {
        } else if f <= 0.0 {
            if d != u16::MAX {
                bad = Some(format!("division {d}, but the lowest rate (division 65535) is the nearest to a non-positive request"));
            }
        } else if f >= 80000.0 {
            if d != 1 {
                bad = Some(format!("division {d}, but 40 kHz (division 1) is the nearest"));
            }
        } else if f < 0.3 {
            if d != u16::MAX {
                bad = Some(format!("division {d}, but division 65535 is the nearest"));
            }
        } else {
            let (_, m, e) = decomp(bits).unwrap();
            let sh = (-e) as u32; // 7..=26
            let a = |dd: i128| ((BASE << sh) - m * dd).abs();
            let d0 = d as i128;
            for dd in [d0 - 1, d0 + 1] {
                if !(1..=65535).contains(&dd) {
                    continue;
                }
                // dist(d) − dist(dd) > f·2^-22  ⇔  (a(d)·dd − a(dd)·d)·2^22 > m·d·dd
                let diff = a(d0) * dd - a(dd) * d0;
                if diff > 0 && (diff << 22) > m * d0 * dd {
                    let (r0, r1) = (40000.0 / d0 as f64, 40000.0 / dd as f64);
                    bad = Some(format!(
                        "division {d} ({r0:.4} Hz, off by {:.4}) although division {dd} ({r1:.4} Hz, off by {:.4}) is nearer",
                        (r0 - f as f64).abs(),
                        (r1 - f as f64).abs()
                    ));
                    break;
                }
            }
        }
        if let Some(what) = bad {
            self.out.violation(key, format!("nearest sampling frequency to {f:?} Hz: {what}"), replay);
        }
    }

    fn oracle_period(&mut self, ns: u128, n: u128, d: u16, key: String, replay: Vec<String>) {
        if d == 0 || ns != PERIOD_NS * d as u128 * n {
            self.out.violation(key, format!("period {ns} ns over {n} point(s) accepted with division {d}: {} ns is not that period", PERIOD_NS * d as u128 * n), replay);
        }
    }

    /// `PeriodNearest(ns)` gave `d`: in range and nearest in period
    fn oracle_period_nearest(&mut self, ns: u128, n: u128, d: u16, key: String, replay: Vec<String>) {
        let mut bad = None;
        if d == 0 {
            bad = Some("division 0 (outside 1..=65535)".to_string());
        } else if ns < (1 << 100) && n < (1 << 32) {
            let dist = |dd: i128| (PERIOD_NS as i128 * dd * n as i128 - ns as i128).abs();
            for dd in [d as i128 - 1, d as i128 + 1] {
                if (1..=65535).contains(&dd) && dist(dd) < dist(d as i128) {
                    bad = Some(format!("division {d} although division {dd} is nearer"));
                }
            }
        }
        if let Some(what) = bad {
            self.out.violation(key, format!("nearest sampling period to {ns} ns / {n} point(s): {what}"), replay);
        }
    }

    // ------------------------------------------------------------------ op lines
    fn eval(&mut self, kind: Kind, x: u128) -> String {
        let r = config(kind, x).division();
        let letter = kind.letter();
        let a = arg_str(kind, x);
        if let Ok(d) = r {
            let replay = vec![format!("{letter} {a}"), format!("{} == Ok({d})", describe(kind, x, None))];
            match kind {
                Kind::F => self.oracle_freq(x as u32, 1, d, format!("freq:{a}"), replay),
                Kind::N => {
                    self.oracle_freq_nearest(x as u32, d, format!("freq-nearest:{a}"), replay);
                    self.near_f.push((x as u32, d));
                }
                Kind::P => self.oracle_period(x, 1, d, format!("period:{a}"), replay),
                Kind::Q => {
                    self.oracle_period_nearest(x, 1, d, format!("period-nearest:{a}"), replay);
                    self.near_p.push((x, d));
                }
                Kind::D => {}
            }
        } else if matches!(kind, Kind::N | Kind::Q | Kind::D) {
            self.out.violation(format!("nearest-error:{letter}:{a}"), format!("{letter} {a}: a nearest/division configuration returned an error"), vec![format!("{letter} {a}")]);
        }
        match &r {
            Ok(_) => self.out.count(&format!("{letter}:accepted")),
            Err(e) => self.out.count(&format!("{letter}:{}", sc_tok(Err(*e)))),
        }
        self.out.case(match r {
            Ok(d) => Some(fnv64(format!("{letter}{a}>{d}").as_bytes())),
            Err(SamplingConfigError::FreqOutOfRangeF(..)) | Err(SamplingConfigError::PeriodOutOfRange(..)) => None,
            Err(_) => Some(fnv64(format!("{letter}{a}").as_bytes())),
        });
        sc_tok(r)
    }

    /// one line with many patterns of one kind
    fn many(&mut self, kind: Kind, xs: &[u128]) {
        if xs.is_empty() {
            return;
        }
        let toks: Vec<String> = xs.iter().map(|&x| self.eval(kind, x)).collect();
        let op = format!("{} {}", kind.letter(), xs.iter().map(|&x| arg_str(kind, x)).collect::<Vec<_>>().join(" "));
        self.out.line(&op, &toks.join(" "));
    }

    /// division, freq, period of one configuration, each called on its own
    fn views(&mut self, kind: Kind, x: u128) {
        let c = config(kind, x);
        let a = arg_str(kind, x);
        let letter = kind.letter();
        let (d, f, p) = (c.division(), c.freq(), c.period());
        let ftok = match f {
            Ok(f) => hx(f.hz().to_bits()),
            Err(e) => sc_tok(Err(e)),
        };
        let ptok = match p {
            Ok(p) => p.as_nanos().to_string(),
            Err(e) => sc_tok(Err(e)),
        };
        // oracle: the three views name one rate
        let bad = match (d, f, p) {
            (Ok(d), Ok(f), Ok(p)) => {
                let fb = f.hz().to_bits();
                let mut bad = None;
                if p.as_nanos() != PERIOD_NS * d as u128 {
                    bad = Some(format!("division {d} but period {} ns", p.as_nanos()));
                }
                match decomp(fb) {
                    Some((false, m, e)) if m > 0 && (-40..=0).contains(&e) => {
                        // nearest integer to 40000 / freq() is d
                        let lhs = (BASE << (-e) as u32) - d as i128 * m;
                        if lhs.abs() * 2 >= m {
                            bad = Some(format!("division {d} but freq() = {:?} Hz", f.hz()));
                        }
                    }
                    _ => bad = Some(format!("division {d} but freq() = {:?} Hz", f.hz())),
                }
                bad
            }
            (Err(a), Err(b), Err(c)) if sc_tok(Err(a)) == sc_tok(Err(b)) && sc_tok(Err(b)) == sc_tok(Err(c)) => None,
            _ => Some("division(), freq() and period() do not fail together".to_string()),
        };
        if let Some(what) = bad {
            self.out.violation(format!("views:{letter}:{a}"), format!("{letter} {a}: {what}"), vec![format!("V {letter} {a}")]);
        }
        self.out.case(Some(fnv64(format!("V{letter}{a}").as_bytes())));
        self.out.count("views");
        self.out.line(&format!("V {letter} {a}"), &format!("{} {ftok} {ptok}", sc_tok(d)));
    }

    fn eval_stm(&mut self, kind: Kind, n: usize, x: u128) -> String {
        let letter = kind.letter();
        let a = arg_str(kind, x);
        let r = guarded(|| stm_config(kind, x).into_sampling_config(n).and_then(|c| Ok(c.division()?)));
        let tok = match &r {
            Err(_) => "panic".to_string(),
            Ok(r) => drv_tok(r),
        };
        if let Ok(Ok(d)) = r {
            let key = format!("stm-{}:{a}x{n}", letter.to_lowercase());
            let replay = vec![format!("S{letter} {n} {a}"), format!("{} == Ok({d})", describe(kind, x, Some(n)))];
            match kind {
                Kind::F => self.oracle_freq(x as u32, n as u128, d, key, replay),
                Kind::P => self.oracle_period(x, n as u128, d, key, replay),
                Kind::N => {
                    // nearest to the product the code forms
                    let prod = (f32::from_bits(x as u32) * n as f32).to_bits();
                    self.oracle_freq_nearest(prod, d, key, replay);
                }
                Kind::Q => {
                    self.oracle_period_nearest(x, n as u128, d, key, replay);
                }
                Kind::D => {}
            }
        }
        self.out.count(&format!("S{letter}:{}", if tok.chars().all(|c| c.is_ascii_digit()) { "accepted" } else { &tok }));
        self.out.case(Some(fnv64(format!("S{letter}{a}x{n}").as_bytes())));
        tok
    }

    fn many_stm(&mut self, kind: Kind, n: usize, xs: &[u128]) {
        if xs.is_empty() {
            return;
        }
        let toks: Vec<String> = xs.iter().map(|&x| self.eval_stm(kind, n, x)).collect();
        let op = format!("S{} {n} {}", kind.letter(), xs.iter().map(|&x| arg_str(kind, x)).collect::<Vec<_>>().join(" "));
        self.out.line(&op, &toks.join(" "));
    }

    /// the division the device must run at is checked against the property itself (not only against what
    /// `sampling_config()` says): exact kinds name exactly that rate, nearest kinds never fail and are nearest
    fn oracle_e2e(&mut self, what: &str, kind: Kind, x: u128, n: usize, tok: &str, line: &str, vary: &str) {
        let letter = kind.letter();
        let a = arg_str(kind, x);
        let replay = vec![line.to_string(), format!("variation: {vary}")];
        match tok.parse::<u16>() {
            Ok(d) => {
                let key = format!("e2e-{what}-{}:{a}x{n}", letter.to_lowercase());
                match kind {
                    Kind::F => self.oracle_freq(x as u32, n as u128, d, key, replay),
                    Kind::P => self.oracle_period(x, n as u128, d, key, replay),
                    Kind::N => {
                        let prod = if n == 1 { x as u32 } else { (f32::from_bits(x as u32) * n as f32).to_bits() };
                        self.oracle_freq_nearest(prod, d, key, replay)
                    }
                    Kind::Q => self.oracle_period_nearest(x, n as u128, d, key, replay),
                    Kind::D => {
                        if d as u128 != x {
                            self.out.violation(key, format!("{what} with SamplingConfig::Division({x}): the device runs at division {d}"), replay)
                        }
                    }
                }
            }
            Err(_) => {
                if matches!(kind, Kind::N | Kind::Q | Kind::D) {
                    self.out.violation(
                        format!("e2e-nearest-error:{what}:{letter}:{a}x{n}"),
                        format!("{what} {letter} {a} with {n} point(s): a nearest/division configuration was refused with `{tok}`"),
                        replay,
                    );
                }
            }
        }
    }

    /// the same through the datagram, the operation and the firmware emulator.
    ///
    /// The op line names (kind, argument, number of patterns) only; everything in `Vary` is an *invisible*
    /// variation (the model answers from the pattern count alone): how the configuration reaches the STM (the
    /// `STMConfig` enum, or the typed constructor `FociSTM::new(.., f32*Hz | Duration | SamplingConfig)` with
    /// `.into_nearest()` for N/Q, through the `From` impls), foci per pattern (1, 2 or 8), the target segment, a
    /// device whose target segment ran another STM before, and a second device.
    fn e2e(&mut self, gain: bool, kind: Kind, x: u128, n: usize, v: Vary) {
        let letter = kind.letter();
        let a = arg_str(kind, x);
        let g = create_geometry(v.ndev);
        let mut cpus: Vec<CPUEmulator> = (0..v.ndev).map(|i| CPUEmulator::new(i, g[i].num_transducers())).collect();
        let mut tx = new_tx(v.ndev);
        send_with(&mut cpus, Silencer::disable(), &g, &mut tx, |_, _| {}).unwrap();
        if v.used {
            // another STM ran on the target segment before: its division register must be overwritten
            let old = FociSTM::new(vec![Point3::origin(); 3], config(Kind::D, 12345));
            send_with(&mut cpus, WithSegment { inner: old, segment: v.seg, transition_mode: None }, &g, &mut tx, |_, _| {}).unwrap();
        }
        macro_rules! go {
            ($stm:expr) => {{
                let stm = $stm;
                let expect = stm.sampling_config().and_then(|c| Ok(c.division()?));
                let sent = guarded(|| {
                    if v.seg == Segment::S1 {
                        send_with(&mut cpus, WithSegment { inner: stm, segment: Segment::S1, transition_mode: None }, &g, &mut tx, |_, _| {})
                    } else {
                        send_with(&mut cpus, stm, &g, &mut tx, |_, _| {})
                    }
                });
                (expect, sent)
            }};
        }
        // `$build` is the STM constructor applied to a configuration `$cfg` of the type the variation chooses
        macro_rules! with_cfg {
            ($cfg:ident => $build:expr) => {
                match (v.typed, kind) {
                    (false, _) => {
                        let $cfg = stm_config(kind, x);
                        go!($build)
                    }
                    (true, Kind::F) => {
                        let $cfg = f32::from_bits(x as u32) * Hz;
                        go!($build)
                    }
                    (true, Kind::N) => {
                        let $cfg = f32::from_bits(x as u32) * Hz;
                        go!(($build).into_nearest())
                    }
                    (true, Kind::P) => {
                        let $cfg = dur(x);
                        go!($build)
                    }
                    (true, Kind::Q) => {
                        let $cfg = dur(x);
                        go!(($build).into_nearest())
                    }
                    (true, Kind::D) => {
                        let $cfg = config(Kind::D, x);
                        go!($build)
                    }
                }
            };
        }
        fn pts<const N: usize>(n: usize) -> Vec<ControlPoints<N>> {
            (0..n).map(|k| ControlPoints::new([ControlPoint::default(); N], EmitIntensity(k as u8))).collect()
        }
        let (expect, sent) = if gain {
            with_cfg!(cfg => GainSTM::new((0..n).map(|_| Null {}).collect::<Vec<_>>(), cfg, GainSTMOption::default()))
        } else {
            match v.nfoci {
                1 => with_cfg!(cfg => FociSTM::new((0..n).map(|_| Point3::origin()).collect::<Vec<_>>(), cfg)),
                2 => with_cfg!(cfg => FociSTM::new(pts::<2>(n), cfg)),
                _ => with_cfg!(cfg => FociSTM::new(pts::<8>(n), cfg)),
            }
        };
        let name = if gain { "gain" } else { "foci" };
        let line = format!("E {name} {letter} {a} {n}");
        let vary = v.describe(gain);
        let tok = match sent {
            Err(m) => format!("panic:{}", panic_key(&m)),
            Ok(Err(e)) => drv_tok(&Err(e)),
            Ok(Ok(())) => {
                let ds: Vec<u16> = cpus.iter().map(|c| c.fpga().stm_freq_division(v.seg)).collect();
                if ds.iter().any(|&d| d != ds[v.ndev - 1]) {
                    self.out.violation(
                        format!("e2e-devices-differ:{name}:{letter}:{a}x{n}"),
                        format!("{name} STM {letter} {a} with {n} patterns: the devices run at different divisions {ds:?}"),
                        vec![line.clone(), format!("variation: {vary}")],
                    );
                }
                ds[v.ndev - 1].to_string()
            }
        };
        if tok != drv_tok(&expect) {
            self.out.violation(
                format!("e2e:{name}:{letter}:{a}x{n}"),
                format!("{name} STM {letter} {a} with {n} patterns ({vary}): sampling_config() says {}, the device runs at {tok}", drv_tok(&expect)),
                vec![line.clone(), format!("variation: {vary}")],
            );
        }
        self.oracle_e2e(&format!("{name}-stm"), kind, x, n, &tok, &line, &vary);
        self.out.count(&format!("e2e-{name}"));
        self.out.count(&format!("e2e-config-form(invisible):{}", if v.typed { format!("typed-{letter}") } else { "STMConfig-enum".to_string() }));
        if !gain {
            self.out.count(&format!("e2e-foci-per-pattern(invisible):{}", v.nfoci));
        }
        self.out.count(&format!("e2e-target(invisible):{:?}{}{}", v.seg, if v.used { "-used" } else { "-fresh" }, if v.ndev > 1 { "-2dev" } else { "" }));
        self.out.case(Some(fnv64(format!("E{name}{letter}{a}x{n}:{vary}").as_bytes())));
        self.out.line(&line, &tok);
    }

    /// a rate given directly, followed to the device: `Custom` modulation of two samples with the configuration
    /// `kind x`; the answer is the modulation division register. `typed`: the configuration reaches `Custom`
    /// as `f32*Hz` / `Duration` / `NonZeroU16` (through `Into<SamplingConfig>`) or, for the nearest kinds, via
    /// `SamplingConfig::new(..).into_nearest()`; otherwise as the enum value. Invisible to the model.
    fn e2e_mod(&mut self, kind: Kind, x: u128, typed: bool, seg: Segment) {
        let letter = kind.letter();
        let a = arg_str(kind, x);
        let g = create_geometry(1);
        let mut cpu = CPUEmulator::new(0, g[0].num_transducers());
        let mut tx = new_tx(1);
        send(&mut cpu, Silencer::disable(), &g, &mut tx).unwrap();
        let expect: Result<u16, AUTDDriverError> = config(kind, x).division().map_err(Into::into);
        macro_rules! go {
            ($cfg:expr) => {{
                let m = autd3::modulation::Custom::new(vec![0xFFu8; 2], $cfg);
                guarded(|| {
                    if seg == Segment::S1 {
                        send(&mut cpu, WithSegment { inner: m, segment: Segment::S1, transition_mode: None }, &g, &mut tx)
                    } else {
                        send(&mut cpu, m, &g, &mut tx)
                    }
                })
            }};
        }
        let sent = match (typed, kind) {
            (false, _) => go!(config(kind, x)),
            (true, Kind::F) => go!(f32::from_bits(x as u32) * Hz),
            (true, Kind::N) => go!(SamplingConfig::new(f32::from_bits(x as u32) * Hz).into_nearest()),
            (true, Kind::P) => go!(dur(x)),
            (true, Kind::Q) => go!(SamplingConfig::new(dur(x)).into_nearest()),
            (true, Kind::D) => go!(std::num::NonZeroU16::new(x as u16).unwrap()),
        };
        let line = format!("E mod {letter} {a}");
        let vary = format!("{} config, segment {seg:?}", if typed { "typed" } else { "SamplingConfig-enum" });
        let tok = match sent {
            Err(m) => format!("panic:{}", panic_key(&m)),
            Ok(Err(e)) => drv_tok(&Err(e)),
            Ok(Ok(())) => cpu.fpga().modulation_freq_division(seg).to_string(),
        };
        if tok != drv_tok(&expect) {
            self.out.violation(
                format!("e2e:mod:{letter}:{a}"),
                format!("modulation {letter} {a} ({vary}): SamplingConfig::division() says {}, the device runs at {tok}", drv_tok(&expect)),
                vec![line.clone(), format!("variation: {vary}")],
            );
        }
        self.oracle_e2e("modulation", kind, x, 1, &tok, &line, &vary);
        self.out.count("e2e-mod");
        self.out.count(&format!("e2e-mod-config-form(invisible):{}", if typed { format!("typed-{letter}") } else { "SamplingConfig-enum".to_string() }));
        self.out.count(&format!("e2e-mod:{}", if tok.chars().all(|c| c.is_ascii_digit()) { "accepted" } else { &tok }));
        self.out.case(Some(fnv64(format!("Emod{letter}{a}:{vary}").as_bytes())));
        self.out.line(&line, &tok);
    }

    /// lower request never yields a higher device rate
    fn oracle_monotone(&mut self) {
        let mut v: Vec<(f32, u32, u16)> = self.near_f.iter().filter(|(b, _)| !f32::from_bits(*b).is_nan()).map(|&(b, d)| (f32::from_bits(b), b, d)).collect();
        v.sort_by(|a, b| a.0.partial_cmp(&b.0).unwrap().then(a.1.cmp(&b.1)));
        v.dedup_by_key(|t| t.1);
        // the smallest division seen so far among strictly lower requests
        let mut lower: Option<(u32, u16)> = None; // (bits, min division) over all f' < current group
        let mut i = 0;
        while i < v.len() {
            let mut j = i;
            while j < v.len() && v[j].0 == v[i].0 {
                j += 1;
            }
            for t in &v[i..j] {
                if let Some((lb, ld)) = lower {
                    if t.2 > ld {
                        self.out.violation(
                            format!("freq-nearest-monotone:{}:{}", hx(lb), hx(t.1)),
                            format!("request {:?} Hz gives division {ld} but the higher request {:?} Hz gives division {} (a lower rate)", f32::from_bits(lb), t.0, t.2),
                            vec![format!("N {} {}", hx(lb), hx(t.1))],
                        );
                    }
                }
            }
            for t in &v[i..j] {
                if lower.map_or(true, |(_, ld)| t.2 < ld) {
                    lower = Some((t.1, t.2));
                }
            }
            i = j;
        }
        let mut p = std::mem::take(&mut self.near_p);
        p.sort();
        p.dedup();
        for w in p.windows(2) {
            if w[0].0 < w[1].0 && w[0].1 > w[1].1 {
                self.out.violation(
                    format!("period-nearest-monotone:{}:{}", w[0].0, w[1].0),
                    format!("period {} ns gives division {} but the longer period {} ns gives division {}", w[0].0, w[0].1, w[1].0, w[1].1),
                    vec![format!("Q {} {}", w[0].0, w[1].0)],
                );
            }
        }
    }
}

fn ulp_neighbours(center: u32, k: i64) -> Vec<u128> {
    (-k..=k).map(|i| (center as i64 + i) as u32 as u128).collect()
}

fn run_sampling(args: &Args) {
    let mut ctx = Ctx { out: Out::new(&args.out), near_f: vec![], near_p: vec![] };
    let thorough = args.tier == "thorough";
    let mut rng = Rng::new(args.seed ^ 0xC06);

    // ---- corpus first: DESIGN §6 F6/F7 witnesses
    ctx.many(Kind::F, &[13333.334f32.to_bits() as u128, 20000.002f32.to_bits() as u128, 13333.333f32.to_bits() as u128]);
    ctx.many(Kind::N, &[f32::NAN.to_bits() as u128, 27000f32.to_bits() as u128, (-1.0f32).to_bits() as u128, f32::NEG_INFINITY.to_bits() as u128, 0x8000_0000]);
    ctx.many_stm(Kind::F, 10, &[1333.3334f32.to_bits() as u128]);
    ctx.out.count_n("corpus", 3);

    // ---- every division: the three views
    for d in 1..=65535u128 {
        ctx.views(Kind::D, d);
    }

    // ---- every division: ±8 ulp around 40000/d, exact and nearest
    for d in 1..=65535u32 {
        let c = (40000.0f32 / d as f32).to_bits();
        let xs = ulp_neighbours(c, 8);
        ctx.many(Kind::F, &xs);
        ctx.many(Kind::N, &xs);
    }
    ctx.out.count_n("divisor-neighbourhoods(±8ulp)", 65535);

    // ---- nearest: ±3 ulp around the frequency midway between two neighbouring rates (where the answer flips; exact ties included)
    for d in 1..65535u32 {
        let t = 20000.0f64 / d as f64 + 20000.0f64 / (d + 1) as f64;
        let xs = ulp_neighbours((t as f32).to_bits(), if thorough { 8 } else { 3 });
        ctx.many(Kind::N, &xs);
    }
    ctx.out.count_n(if thorough { "midpoint-neighbourhoods(±8ulp)" } else { "midpoint-neighbourhoods(±3ulp)" }, 65534);
    // ---- nearest: ±2 ulp around the midpoint in division space (where the unrepaired code flipped)
    for d in (1..65535u32).step_by(if thorough { 1 } else { 7 }) {
        let t = 40000.0f64 / (d as f64 + 0.5);
        ctx.many(Kind::N, &ulp_neighbours((t as f32).to_bits(), 2));
    }

    // ---- special floats, range ends
    let fmin = 40000.0f32 / 65535.0;
    let mut specials: Vec<u128> = vec![];
    for b in [0u32, 1, 2, 0x007F_FFFF, 0x0080_0000, 0x0080_0001, 0x3F00_0000, 0x3EFF_FFFF, 0x3F00_0001, 0x3F80_0000, 0x7F7F_FFFF, 0x7F80_0000, 0x7F80_0001, 0x7FC0_0000, 0x7FFF_FFFF] {
        specials.push(b as u128);
        specials.push((b | 0x8000_0000) as u128);
    }
    specials.extend(ulp_neighbours(fmin.to_bits(), 16));
    specials.extend(ulp_neighbours(40000f32.to_bits(), 16));
    specials.extend(ulp_neighbours(80000f32.to_bits(), 2));
    specials.extend(ulp_neighbours(30000f32.to_bits(), 4));
    for chunk in specials.chunks(16) {
        ctx.many(Kind::F, chunk);
        ctx.many(Kind::N, chunk);
    }
    for &s in &specials {
        ctx.views(Kind::F, s);
        ctx.views(Kind::N, s);
    }

    // ---- random floats: inside the accepted range (uniform over bit patterns), and anywhere
    let (lo, hi) = (fmin.to_bits(), 40000f32.to_bits());
    let nrand = if thorough { 150_000 } else { 6_000 };
    for _ in 0..nrand {
        let xs: Vec<u128> = (0..16).map(|_| rng.range(lo as u64 - 64, hi as u64 + 64) as u128).collect();
        ctx.many(Kind::F, &xs);
        ctx.many(Kind::N, &xs);
        let ys: Vec<u128> = (0..16).map(|_| rng.below(1 << 32) as u128).collect();
        ctx.many(Kind::N, &ys);
        ctx.many(Kind::F, &ys[..4]);
    }
    for _ in 0..(if thorough { 4000 } else { 500 }) {
        let k = if rng.chance(1, 2) { Kind::F } else { Kind::N };
        ctx.views(k, rng.range(lo as u64 - 64, hi as u64 + 64) as u128);
    }

    // ---- periods: every multiple of 25 µs, ±1 ns, the half-way points ±1 ns, range ends
    for k in 1..=65535u128 {
        let p = k * PERIOD_NS;
        ctx.many(Kind::P, &[p - 1, p, p + 1]);
        ctx.many(Kind::Q, &[p - 1, p, p + 1, p + 12499, p + 12500, p + 12501]);
    }
    let pspecial: Vec<u128> = vec![0, 1, 12499, 12500, 12501, 24999, 65535 * PERIOD_NS + 12499, 65535 * PERIOD_NS + 12500, 65536 * PERIOD_NS, 131072 * PERIOD_NS, 131071 * PERIOD_NS, u64::MAX as u128, u64::MAX as u128 * 1_000_000_000 + 999_999_999, 1_000_000_000, 999_999_999];
    ctx.many(Kind::P, &pspecial);
    ctx.many(Kind::Q, &pspecial);
    for &p in &pspecial {
        ctx.views(Kind::P, p);
        ctx.views(Kind::Q, p);
    }
    for _ in 0..(if thorough { 20_000 } else { 2_000 }) {
        let xs: Vec<u128> = (0..8)
            .map(|_| match rng.below(3) {
                0 => rng.range(0, 70_000) as u128 * PERIOD_NS + rng.below(3) as u128,
                1 => rng.range(0, 1_700_000_000) as u128,
                _ => rng.next() as u128 * rng.below(1 << 20) as u128,
            })
            .collect();
        ctx.many(Kind::P, &xs);
        ctx.many(Kind::Q, &xs);
    }

    // ---- STM: frequency × number of points around exact divisors
    let sizes: Vec<usize> = if thorough { (2..=1024).collect() } else { (2..=17).chain([20, 25, 32, 50, 64, 100, 127, 128, 200, 255, 256, 500, 1000, 1023, 1024]).collect() };
    let nd = if thorough { 900 } else { 120 };
    for &n in &sizes {
        let mut ds: Vec<u32> = (1..=40).chain([63, 64, 65, 100, 255, 256, 1000, 4096, 32768, 65534, 65535]).collect();
        while ds.len() < nd {
            ds.push(rng.range(1, 65535) as u32);
        }
        for d in ds {
            // the f32 nearest to 40000/(d·n), and its neighbours
            let c = (40000.0f64 / (d as f64 * n as f64)) as f32;
            let xs = ulp_neighbours(c.to_bits(), if thorough { 4 } else { 2 });
            ctx.many_stm(Kind::F, n, &xs);
            ctx.many_stm(Kind::N, n, &xs[1..4]);
        }
        // periods
        let mut ps: Vec<u128> = vec![];
        for _ in 0..12 {
            let d = rng.range(1, 65535) as u128;
            let p = d * PERIOD_NS * n as u128;
            ps.extend([p, p + 1, p + n as u128, p.saturating_sub(n as u128)]);
        }
        ps.extend([0, PERIOD_NS * n as u128, 65535 * PERIOD_NS * n as u128, 65536 * PERIOD_NS * n as u128, PERIOD_NS]);
        ctx.many_stm(Kind::P, n, &ps);
        ctx.many_stm(Kind::Q, n, &ps);
        ctx.many_stm(Kind::D, n, &[1, 65535, rng.range(1, 65535) as u128]);
    }
    // ---- STM: degenerate and very large numbers of points (into_sampling_config is public)
    for n in [0usize, 1, 65536, (1 << 24) + 1, (1 << 32) - 1, 1 << 32, (1 << 32) + 2, usize::MAX] {
        let fs: Vec<u128> = [1.0f32, 0.61036086, 40000.0, 1e-3, 2.3283064e-10, 9.313226e-6, f32::NAN, 0.0].iter().map(|f| f.to_bits() as u128).collect();
        ctx.many_stm(Kind::F, n, &fs);
        ctx.many_stm(Kind::N, n, &fs);
        let ps: Vec<u128> = vec![0, PERIOD_NS, PERIOD_NS * (n as u128), PERIOD_NS * (n as u128 % (1 << 32)), 1 << 40, (1u128 << 32) * PERIOD_NS * 3];
        ctx.many_stm(Kind::P, n, &ps);
        ctx.many_stm(Kind::Q, n, &ps);
        ctx.out.count("stm-degenerate-sizes");
    }

    // ---- through the driver and the firmware emulator. The op line carries (kind, argument, patterns); the rest is
    // cycled so that every (stm, kind, config form, foci per pattern, segment) combination occurs in the quick tier
    let ne2e = if thorough { 2400 } else { 360 };
    for i in 0..ne2e {
        let gain = i % 2 == 1;
        let kind = [Kind::D, Kind::F, Kind::N, Kind::P, Kind::Q][(i / 2) % 5];
        let v = Vary {
            typed: (i / 10) % 2 == 1,
            nfoci: [1, 2, 8][(i / 20) % 3],
            seg: if (i / 60) % 2 == 1 { Segment::S1 } else { Segment::S0 },
            used: rng.chance(1, 3),
            ndev: if rng.chance(1, 4) { 2 } else { 1 },
        };
        let n = *rng.pick(&[2usize, 2, 3, 4, 5, 7, 10, 16]);
        let d = match rng.below(4) {
            0 => rng.range(1, 40),
            1 => rng.range(1, 65535),
            2 => *rng.pick(&[1u64, 2, 3, 65534, 65535]),
            _ => rng.range(1, 4096),
        } as u128;
        match kind {
            Kind::D => ctx.e2e(gain, Kind::D, d, n, v),
            Kind::F => {
                let c = ((40000.0f64 / (d as f64 * n as f64)) as f32).to_bits();
                ctx.e2e(gain, Kind::F, (c as i64 + rng.range(0, 2) as i64 - 1) as u128, n, v)
            }
            Kind::N => {
                let c = ((40000.0f64 / (d as f64 * n as f64)) as f32).to_bits();
                ctx.e2e(gain, Kind::N, (c as i64 + rng.range(0, 400) as i64 - 200) as u128, n, v)
            }
            Kind::P => ctx.e2e(gain, Kind::P, d * PERIOD_NS * n as u128 + if rng.chance(1, 6) { 1 } else { 0 }, n, v),
            Kind::Q => ctx.e2e(gain, Kind::Q, d * PERIOD_NS * n as u128 + rng.below(30_000) as u128, n, v),
        }
    }
    // the witnesses end to end, in every form
    for typed in [false, true] {
        for nfoci in [1, 2, 8] {
            let v = Vary { typed, nfoci, ..Vary::PLAIN };
            ctx.e2e(false, Kind::F, 1333.3334f32.to_bits() as u128, 10, v);
            ctx.e2e(true, Kind::N, 13500f32.to_bits() as u128, 2, v);
            // a period that is not a multiple of the pattern count / of 25 us: exact refuses, nearest rounds
            ctx.e2e(false, Kind::P, 250_001, 2, v);
            ctx.e2e(false, Kind::Q, 250_001, 2, v);
            ctx.e2e(true, Kind::P, 262_500, 2, v);
            ctx.e2e(true, Kind::Q, 262_500, 2, Vary { seg: Segment::S1, ..v });
        }
    }

    // ---- a rate given directly, followed to the device: Custom modulation (corpus: F6/F7 witnesses first)
    let mut k = 0usize;
    let next_form = |k: &mut usize| {
        *k += 1;
        (*k % 2 == 0, if (*k / 2) % 2 == 1 { Segment::S1 } else { Segment::S0 })
    };
    for f in [13333.334f32, 20000.002, 13333.333, 40000.0, 40000.004, 0.61036086, 0.6103609, 0.0, f32::NAN] {
        for _ in 0..2 {
            let (typed, seg) = next_form(&mut k);
            ctx.e2e_mod(Kind::F, f.to_bits() as u128, typed, seg);
        }
    }
    for f in [f32::NAN, 27000.0, -1.0, f32::NEG_INFINITY, -0.0, f32::INFINITY, 13500.0, 0.3, 1e9] {
        for _ in 0..2 {
            let (typed, seg) = next_form(&mut k);
            ctx.e2e_mod(Kind::N, f.to_bits() as u128, typed, seg);
        }
    }
    for p in [0u128, 24_999, 25_000, 25_001, 37_500, 65535 * PERIOD_NS, 65535 * PERIOD_NS + 12_500, 65536 * PERIOD_NS, u64::MAX as u128] {
        for kind in [Kind::P, Kind::Q] {
            let (typed, seg) = next_form(&mut k);
            ctx.e2e_mod(kind, p, typed, seg);
        }
    }
    ctx.out.count_n("corpus", 3);
    let nmod = if thorough { 2000 } else { 300 };
    for i in 0..nmod {
        let kind = [Kind::D, Kind::F, Kind::N, Kind::P, Kind::Q][i % 5];
        let typed = (i / 5) % 2 == 1;
        let seg = if (i / 10) % 2 == 1 { Segment::S1 } else { Segment::S0 };
        let d = match rng.below(4) {
            0 => rng.range(1, 40),
            1 => rng.range(1, 65535),
            2 => *rng.pick(&[1u64, 2, 3, 65534, 65535]),
            _ => rng.range(1, 4096),
        } as u128;
        let c = (40000.0f32 / d as f32).to_bits();
        let x = match kind {
            Kind::D => d,
            Kind::F => (c as i64 + rng.range(0, 2) as i64 - 1) as u128,
            Kind::N => (c as i64 + rng.range(0, 400) as i64 - 200) as u128,
            Kind::P => d * PERIOD_NS + if rng.chance(1, 6) { 1 } else { 0 },
            Kind::Q => d * PERIOD_NS + rng.below(30_000) as u128,
        };
        ctx.e2e_mod(kind, x, typed, seg);
    }

    ctx.oracle_monotone();
    ctx.out.sample("F 46505556  (SamplingConfig::Freq(13333.334 Hz).division())".into());
    ctx.out.sample("N 7fc00000 46d2f000 bf800000 ff800000 80000000  (FreqNearest of NaN, 27000, -1, -inf, -0)".into());
    ctx.out.sample("SF 10 44a6aaab  (STMConfig::Freq(1333.3334 Hz).into_sampling_config(10)?.division())".into());
    ctx.out.sample("V D 65535 / Q 37499 37500 37501 / E foci Q 1250123 5 / E mod F 46505556".into());
    ctx.out.finish(
        "sampling",
        "a case is one configuration evaluated (one bit pattern / duration / (config, size) pair); all are non-trivial; distinct by (kind, argument, size) and, for E lines, by the variation the op line does not name (counters marked `(invisible)`: typed constructor vs enum, foci per pattern, segment, used segment, second device — the model answers from (kind, argument, patterns) alone)",
    );
}

// ---------------------------------------------------------------------------------------------
fn bits_tok(f: f32) -> String {
    if f.is_nan() { "nan".into() } else { hx(f.to_bits()) }
}

fn interesting(rng: &mut Rng) -> u32 {
    match rng.below(10) {
        0 => *rng.pick(&[0u32, 0x8000_0000, 1, 0x8000_0001, 0x007F_FFFF, 0x0080_0000, 0x7F7F_FFFF, 0xFF7F_FFFF, 0x7F80_0000, 0xFF80_0000, 0x7FC0_0000, 0x3F80_0000, 0x3F00_0000, 0x4000_0000, 0x471C_4000, 0x477F_FF00, 0x4B80_0000, 0x4B00_0000, 0x4B7F_FFFF]),
        1 => rng.below(1 << 24) as u32,                                     // subnormal / tiny
        2 => 0x3F80_0000 + rng.below(17 << 23) as u32,                      // [1, 2^17)
        3 => (rng.range(1, 70000) as f32).to_bits(),                        // integers
        4 => (rng.range(1, 140000) as f32 * 0.5).to_bits(),                 // halves
        5 => {
            let k = rng.range(1, 65535) as f32;                             // near an integer
            (k.to_bits() as i64 + rng.range(0, 6) as i64 - 3) as u32
        }
        6 => (40000.0f32 / rng.range(1, 65535) as f32).to_bits().wrapping_add(rng.below(5) as u32).wrapping_sub(2),
        7 => rng.below(1 << 32) as u32 | 0x8000_0000,
        _ => rng.below(1 << 32) as u32,
    }
}

fn run_f32ops(args: &Args) {
    let mut out = Out::new(&args.out);
    let thorough = args.tier == "thorough";
    let mut rng = Rng::new(args.seed ^ 0xF32);
    let n = if thorough { 2_000_000 } else { 300_000 };
    let base = 40000f32;
    // the witnesses of DESIGN §3.1
    out.line("div 471c4000 46505556", &bits_tok(base / 13333.334));
    out.line("div 471c4000 46505555", &bits_tok(base / 13333.333));
    for i in 0..n {
        let (a, b, c) = (interesting(&mut rng), interesting(&mut rng), interesting(&mut rng));
        let (fa, fb, fc) = (f32::from_bits(a), f32::from_bits(b), f32::from_bits(c));
        let (op, ans) = match i % 12 {
            0 => (format!("div {} {}", hx(a), hx(b)), bits_tok(fa / fb)),
            1 => (format!("div 471c4000 {}", hx(a)), bits_tok(base / fa)),
            2 => (format!("mul {} {}", hx(a), hx(b)), bits_tok(fa * fb)),
            3 => {
                let k = match rng.below(4) {
                    0 => rng.range(0, 1100),
                    1 => rng.range(0, 1 << 26),
                    2 => (1u64 << rng.range(20, 63)) + rng.below(5) - 2,
                    _ => rng.next(),
                };
                (format!("ofnat {k}"), bits_tok(k as usize as f32))
            }
            4 => (format!("round {}", hx(a)), bits_tok(fa.round())),
            5 => (format!("u16 {}", hx(a)), (fa as u16).to_string()),
            6 => (format!("isint {}", hx(a)), (is_integer(fa as f64) as u8).to_string()),
            7 => (format!("le {} {}", hx(a), hx(b)), ((fa <= fb) as u8).to_string()),
            8 => (format!("lt {} {}", hx(a), hx(b)), ((fa < fb) as u8).to_string()),
            9 => {
                let ans = match guarded(|| fa.clamp(fb, fc)) {
                    Ok(x) => bits_tok(x),
                    Err(_) => "panic".into(),
                };
                (format!("clamp {} {} {}", hx(a), hx(b), hx(c)), ans)
            }
            10 => (format!("s24 {}", hx(a)), ((fa as f64 * 16777216.0) as u128).to_string()),
            _ => {
                let k = rng.range(0, 2048) as usize;
                (format!("mul {} {}", hx(a), hx((k as f32).to_bits())), bits_tok(fa * k as f32))
            }
        };
        out.count(op.split(' ').next().unwrap());
        out.case(Some(fnv64(op.as_bytes())));
        out.line(&op, &ans);
    }
    out.sample("div 471c4000 46505556 -> 403fffff".into());
    out.finish("f32ops", "a case is one operation on random/boundary bit patterns; distinct by op line");
}

pub fn run(args: &Args) {
    match args.stream.as_str() {
        "f32ops" => run_f32ops(args),
        _ => run_sampling(args),
    }
}
