//! `masks` stream (C12): disabled devices are invisible.
//!
//! Every case is a geometry of `n` devices with distinct poses, an enable mask, and one operation:
//! a geometry aggregate, a sound-speed setter, `reconfigure`, a datagram of every class pushed
//! through the real `OperationHandler::{generate, pack}` into pre-filled tx buffers, scripted
//! operations (all branches of `pack_op2`, `None` entries, failing packs), and the column maps of the
//! holographic gains (fill side: the real `NalgebraBackend::generate_propagation_matrix`, columns
//! identified by bit-equality with `propagate`; read side: the real `Naive` + `generate_result` over a
//! backend whose solution vector encodes its own index).
//!
//! Everything that reaches `generate_propagation_matrix` (raw-pointer writes: a wrong column offset is
//! undefined behaviour) runs in a child process (`vh masks-child`); a child that dies is the answer
//! `crash` and an oracle violation with the replay, not the end of the stream.
//!
//! Oracle-only additions after the coverage review (notes/coverage-review/C11-C15.md, C12; counters say
//! "oracle only"): `Group{holo::GS|GSPAT|LM}` (a partial filter reaches the iterative solvers under a mask; a
//! panic of a floating-point class is a violation), failing packs re-run with `parallel = true`
//! (schedule-independent facts), and the pressure of Greedy's drives masked vs restricted (numerical support).
//!
//! The op lines carry only integers / bit patterns; the Lean model (`Model/Mask.lean`) answers them.
//! The oracle states the property on the implementation: the same operation on a geometry that
//! contains only the enabled devices gives identical frames / aggregates, and nothing that belongs
//! to a disabled device (tx bytes, message id, sound speed) changes.
use crate::common::*;
use crate::fwc::{self, DgVisitor, Spec};
use autd3::prelude::*;
use autd3_core::acoustics::{directivity::Sphere, propagate};
use autd3_core::datagram::{Datagram, Operation};
use autd3_core::gain::{BitVec, Gain, GainCalculator, GainCalculatorGenerator};
use autd3_core::geometry::{Device, Transducer};
use autd3_driver::{
    datagram::{ControlPoint, ControlPoints, PhaseCorrection},
    firmware::{
        cpu::TxMessage,
        operation::{OperationGenerator, OperationHandler},
    },
};
use autd3_gain_holo::{
    Complex, EmissionConstraint, GS, GSOption, GSPAT, GSPATOption, Greedy, GreedyOption, HoloError, LM, LMOption, LinAlgBackend, MatrixX,
    MatrixXc, NalgebraBackend, Naive, NaiveOption, Pa, Trans, VectorX, VectorXc,
};
use std::collections::HashMap;
use std::sync::{Arc, Mutex};
use zerocopy::{FromZeros, IntoBytes};

// ------------------------------------------------------------------------------------ geometry

#[derive(Clone, Debug)]
enum DevSpec {
    /// a full AUTD3 unit (249 transducers) at `pos`, rotated by ZYZ Euler angles in degrees
    Autd3 { pos: [f32; 3], rot: [f32; 3] },
    /// a hand-made unit: the listed transducer positions, identity rotation
    Small { pts: Vec<[f32; 3]> },
}

fn make_device(s: &DevSpec) -> Device {
    match s {
        DevSpec::Autd3 { pos, rot } => AUTD3 {
            pos: Point3::new(pos[0], pos[1], pos[2]),
            rot: EulerAngle::ZYZ(rot[0] * deg, rot[1] * deg, rot[2] * deg),
        }
        .into(),
        DevSpec::Small { pts } => Device::new(
            UnitQuaternion::identity(),
            pts.iter().map(|p| Transducer::new(Point3::new(p[0], p[1], p[2]))).collect(),
        ),
    }
}

fn first_pos_bits(d: &Device) -> [u32; 3] {
    let p = d[0].position();
    [p.x.to_bits(), p.y.to_bits(), p.z.to_bits()]
}

/// identity of a physical unit: the bit pattern of its first transducer's position → uid
type UidTable = Arc<Vec<[u32; 3]>>;

fn uid_of(t: &UidTable, d: &Device) -> usize {
    let k = first_pos_bits(d);
    t.iter().position(|x| *x == k).expect("device with unknown pose")
}

fn canon(f: f32) -> u32 {
    if f.is_nan() { 0x7fc00000 } else { f.to_bits() }
}
fn p3(x: f32, y: f32, z: f32) -> String {
    format!("{:08x}.{:08x}.{:08x}", canon(x), canon(y), canon(z))
}

fn dev_text(uid: usize, d: &Device) -> String {
    let c = d.center();
    let bb = d.aabb();
    format!(
        "{uid}:{}:{:08x}:{}:{}:{}",
        d.num_transducers(),
        d.sound_speed.to_bits(),
        p3(c.x, c.y, c.z),
        p3(bb.min.x, bb.min.y, bb.min.z),
        p3(bb.max.x, bb.max.y, bb.max.z)
    )
}

fn mask_str(m: &[bool]) -> String {
    m.iter().map(|b| if *b { '1' } else { '0' }).collect()
}

/// one geometry + tx buffers; knows how to rebuild the geometry that holds only the enabled devices
struct W {
    specs: Vec<DevSpec>,
    uids: UidTable,
    geo: Geometry,
    tx: Vec<TxMessage>,
}

impl W {
    fn new(specs: Vec<DevSpec>) -> W {
        let w = W::new_any(specs);
        for i in 0..w.uids.len() {
            for j in 0..i {
                assert!(w.uids[i] != w.uids[j], "poses must be distinct");
            }
        }
        w
    }
    /// poses may coincide (then no uid-keyed content may be used in this world)
    fn new_any(specs: Vec<DevSpec>) -> W {
        let geo = Geometry::new(specs.iter().map(make_device).collect());
        let uids: UidTable = Arc::new(geo.iter().map(first_pos_bits).collect());
        let n = specs.len();
        W { specs, uids, geo, tx: vec![TxMessage::new_zeroed(); n] }
    }
    fn n(&self) -> usize {
        self.specs.len()
    }
    fn mask(&self) -> Vec<bool> {
        self.geo.iter().map(|d| d.enable).collect()
    }
    fn enabled(&self) -> Vec<usize> {
        (0..self.n()).filter(|&i| self.geo[i].enable).collect()
    }
    fn geo_line(&self) -> String {
        let ds: Vec<String> = self.geo.iter().enumerate().map(|(i, d)| dev_text(i, d)).collect();
        format!("geo {}", ds.join(" "))
    }
    fn set_mask(&mut self, m: &[bool]) {
        for (i, b) in m.iter().enumerate() {
            self.geo[i].enable = *b;
        }
    }
    /// the geometry that contains only the enabled devices (same poses, same sound speeds), and their tx buffers
    fn restricted(&self) -> (Geometry, Vec<TxMessage>) {
        let en = self.enabled();
        let mut g = Geometry::new(en.iter().map(|&i| make_device(&self.specs[i])).collect());
        for (k, &i) in en.iter().enumerate() {
            g[k].sound_speed = self.geo[i].sound_speed;
        }
        (g, en.iter().map(|&i| self.tx[i].clone()).collect())
    }
    fn tx_init(&mut self, seed: u64) {
        for i in 0..self.n() {
            let b = pr_bytes(seed + 31 * i as u64, 2);
            self.tx[i].header.msg_id = b[0] % 128;
            self.tx[i].header.slot_2_offset = b[1] as u16;
            self.tx[i].payload_mut().copy_from_slice(&pr_bytes(seed + 31 * i as u64 + 7, 622));
        }
    }
}

// ------------------------------------------------------------------------------------ aggregates

fn agg_answer(g: &Geometry) -> String {
    let c = g.center();
    let bb = g.aabb();
    format!(
        "nd={} nt={} c={} bb={}/{}",
        g.num_devices(),
        g.num_transducers(),
        p3(c.x, c.y, c.z),
        p3(bb.min.x, bb.min.y, bb.min.z),
        p3(bb.max.x, bb.max.y, bb.max.z)
    )
}

fn ss_answer(g: &Geometry) -> String {
    format!("ss={}", g.iter().map(|d| format!("{:08x}", d.sound_speed.to_bits())).collect::<Vec<_>>().join("."))
}

// ------------------------------------------------------------------------------------ sending

struct SendOut {
    /// "ok" | "err:<Name>" | "more"
    result: String,
    /// per successful pack: hash of the 626 bytes of every device's tx
    frames: Vec<Vec<u64>>,
    /// per device: running hash over its frames (`h := fnv64(le8(h) ++ frame)`)
    run: Vec<u64>,
}
impl SendOut {
    fn fail(result: String, n: usize) -> SendOut {
        SendOut { result, frames: vec![], run: vec![0; n] }
    }
}

fn err_name(e: &AUTDDriverError) -> String {
    let s = format!("{e:?}");
    s.chars().take_while(|c| c.is_alphanumeric()).collect()
}

fn snapshot(tx: &[TxMessage]) -> Vec<u64> {
    tx.iter().map(|t| fnv64(t.as_bytes())).collect()
}

/// no datagram of the stream needs more frames than this; a send that does not finish (e.g. operations
/// generated for devices that are never packed) ends with `more` instead of hanging the harness
const MAX_ROUNDS: usize = 3000;

fn pack_loop<O1, O2>(ops: &mut [Option<(O1, O2)>], geo: &Geometry, tx: &mut [TxMessage], rounds: usize, parallel: bool) -> SendOut
where
    O1: Operation,
    O2: Operation,
    AUTDDriverError: From<O1::Error> + From<O2::Error>,
{
    let mut frames = vec![];
    let mut run = vec![0u64; tx.len()];
    loop {
        if OperationHandler::is_done(ops) {
            return SendOut { result: "ok".into(), frames, run };
        }
        if frames.len() >= rounds {
            return SendOut { result: "more".into(), frames, run };
        }
        if let Err(e) = OperationHandler::pack(ops, geo, tx, parallel) {
            return SendOut { result: format!("err:{}", err_name(&e)), frames, run };
        }
        frames.push(snapshot(tx));
        for (h, t) in run.iter_mut().zip(tx.iter()) {
            *h = le8_hash(*h, t.as_bytes());
        }
    }
}

fn run_send<D>(d: D, geo: &Geometry, tx: &mut [TxMessage], parallel: bool) -> SendOut
where
    D: Datagram,
    AUTDDriverError: From<D::Error>,
    D::G: OperationGenerator,
    AUTDDriverError: From<<<D::G as OperationGenerator>::O1 as Operation>::Error>
        + From<<<D::G as OperationGenerator>::O2 as Operation>::Error>,
{
    let generator = match d.operation_generator(geo, false) {
        Ok(g) => g,
        Err(e) => return SendOut::fail(format!("err:{}", err_name(&AUTDDriverError::from(e))), tx.len()),
    };
    let mut ops = OperationHandler::generate(generator, geo);
    pack_loop(&mut ops, geo, tx, MAX_ROUNDS, parallel)
}

struct RunV<'a> {
    geo: &'a Geometry,
    tx: &'a mut [TxMessage],
    parallel: bool,
}
impl DgVisitor for RunV<'_> {
    type R = SendOut;
    fn visit<D>(self, d: D) -> SendOut
    where
        D: Datagram,
        AUTDDriverError: From<D::Error>,
        D::G: OperationGenerator,
        AUTDDriverError: From<<<D::G as OperationGenerator>::O1 as Operation>::Error>
            + From<<<D::G as OperationGenerator>::O2 as Operation>::Error>,
    {
        run_send(d, self.geo, self.tx, self.parallel)
    }
}

struct PairV1<'a> {
    geo: &'a Geometry,
    tx: &'a mut [TxMessage],
    uids: UidTable,
    b: &'a Spec,
    parallel: bool,
}
impl DgVisitor for PairV1<'_> {
    type R = SendOut;
    fn visit<A>(self, a: A) -> SendOut
    where
        A: Datagram,
        AUTDDriverError: From<A::Error>,
        A::G: OperationGenerator,
        AUTDDriverError: From<<<A::G as OperationGenerator>::O1 as Operation>::Error>
            + From<<<A::G as OperationGenerator>::O2 as Operation>::Error>,
    {
        build_uid(self.b, self.uids.clone(), PairV2 { geo: self.geo, tx: self.tx, a, parallel: self.parallel })
    }
}
struct PairV2<'a, A> {
    geo: &'a Geometry,
    tx: &'a mut [TxMessage],
    a: A,
    parallel: bool,
}
impl<A> DgVisitor for PairV2<'_, A>
where
    A: Datagram,
    AUTDDriverError: From<A::Error>,
    A::G: OperationGenerator,
    AUTDDriverError: From<<<A::G as OperationGenerator>::O1 as Operation>::Error>
        + From<<<A::G as OperationGenerator>::O2 as Operation>::Error>,
{
    type R = SendOut;
    fn visit<B>(self, b: B) -> SendOut
    where
        B: Datagram,
        AUTDDriverError: From<B::Error>,
        B::G: OperationGenerator,
        AUTDDriverError: From<<<B::G as OperationGenerator>::O1 as Operation>::Error>
            + From<<<B::G as OperationGenerator>::O2 as Operation>::Error>,
    {
        // the tuple datagram at operation level (see `fwc::PairV2`): first operations of both
        let (mut g1, mut g2) = match (self.a.operation_generator(self.geo, false), b.operation_generator(self.geo, false)) {
            (Ok(g1), Ok(g2)) => (g1, g2),
            (Err(e), _) => return SendOut::fail(format!("err:{}", err_name(&AUTDDriverError::from(e))), self.tx.len()),
            (_, Err(e)) => return SendOut::fail(format!("err:{}", err_name(&AUTDDriverError::from(e))), self.tx.len()),
        };
        let mut ops: Vec<Option<_>> = self
            .geo
            .devices()
            .map(|dev| {
                let (o1, _) = g1.generate(dev);
                let (o2, _) = g2.generate(dev);
                Some((o1, o2))
            })
            .collect();
        pack_loop(&mut ops, self.geo, self.tx, MAX_ROUNDS, self.parallel)
    }
}

type TrFn = Box<dyn Fn(&Transducer) -> Drive + Send + Sync + 'static>;
/// like `fwc::custom_gain`, but the per-device payload is keyed by the unit's identity, not by `idx`
fn custom_gain_uid(seed: u64, uids: UidTable) -> autd3::gain::Custom<'static, TrFn, impl Fn(&Device) -> TrFn> {
    autd3::gain::Custom::new(move |dev: &Device| -> TrFn {
        let w = Arc::new(fwc::gain_drive_words(seed, uid_of(&uids, dev)));
        Box::new(move |tr: &Transducer| {
            let x = w[tr.idx()];
            Drive { phase: Phase((x & 0xFF) as u8), intensity: EmitIntensity((x >> 8) as u8) }
        })
    })
}

/// `fwc::build` with the three idx-keyed datagram classes re-keyed by uid
fn build_uid<V: DgVisitor>(spec: &Spec, uids: UidTable, v: V) -> V::R {
    match spec.clone() {
        Spec::Gain { seg, tr, seed } => {
            v.visit(WithSegment::new(custom_gain_uid(seed, uids), fwc::to_segment(seg), tr.map(fwc::to_transition)))
        }
        Spec::GainStm { mode, seg, tr, rep, div, size, seed } => {
            let gains: Vec<_> = (0..size).map(|k| custom_gain_uid(seed.wrapping_add(7919 * k as u64), uids.clone())).collect();
            let mode = match mode {
                0 => GainSTMMode::PhaseIntensityFull,
                1 => GainSTMMode::PhaseFull,
                _ => GainSTMMode::PhaseHalf,
            };
            v.visit(WithLoopBehavior::new(
                GainSTM::new(gains, fwc::to_div(div), GainSTMOption { mode }),
                fwc::to_loop(rep),
                fwc::to_segment(seg),
                tr.map(fwc::to_transition),
            ))
        }
        Spec::PhaseCorr(seed) => v.visit(PhaseCorrection::new(move |dev| {
            let b = pr_bytes(seed.wrapping_add(1000003 * uid_of(&uids, dev) as u64), fwc::NUM_TR);
            move |tr: &Transducer| Phase(b[tr.idx()])
        })),
        _ => fwc::build(spec, v),
    }
}

fn send_spec(spec: &Spec, pair: Option<&Spec>, uids: &UidTable, geo: &Geometry, tx: &mut [TxMessage], parallel: bool) -> SendOut {
    match pair {
        None => build_uid(spec, uids.clone(), RunV { geo, tx, parallel }),
        Some(b) => build_uid(spec, uids.clone(), PairV1 { geo, tx, uids: uids.clone(), b, parallel }),
    }
}

fn le8_hash(h: u64, bytes: &[u8]) -> u64 {
    let mut v = Vec::with_capacity(8 + bytes.len());
    v.extend_from_slice(&h.to_le_bytes());
    v.extend_from_slice(bytes);
    fnv64(&v)
}

/// the answer line of a send: result, frame count, per-device running hash over its frames, final ids
fn send_answer(o: &SendOut, final_tx: &[TxMessage], with_final: bool) -> String {
    let dot = |v: Vec<String>| v.join(".");
    let mut s = format!("R={} N={} H={}", o.result, o.frames.len(), dot(o.run.iter().map(|h| h.to_string()).collect()));
    if with_final {
        s += &format!(
            " M={} S={}",
            dot(final_tx.iter().map(|t| t.header.msg_id.to_string()).collect()),
            dot(final_tx.iter().map(|t| t.header.slot_2_offset.to_string()).collect())
        );
    }
    s
}

// ------------------------------------------------------------------------------------ mock operations

#[derive(Clone, Debug)]
struct MockSpec {
    tag: u8,
    pack_size: usize,
    required: usize,
    frames: usize,
    broken_at: usize,
}
impl MockSpec {
    fn text(&self) -> String {
        format!("{}:{}:{}:{}:{}", self.tag, self.pack_size, self.required, self.frames, self.broken_at)
    }
}

struct MockOp {
    s: MockSpec,
    uids: UidTable,
}
impl Operation for MockOp {
    type Error = AUTDDriverError;
    fn required_size(&self, _: &Device) -> usize {
        self.s.required
    }
    fn pack(&mut self, dev: &Device, tx: &mut [u8]) -> Result<usize, AUTDDriverError> {
        if self.s.frames == self.s.broken_at {
            return Err(AUTDDriverError::NotSupportedTag);
        }
        tx[0] = self.s.tag;
        tx[1] = uid_of(&self.uids, dev) as u8;
        tx[2] = dev.num_transducers() as u8;
        tx[3] = self.s.frames as u8;
        self.s.frames -= 1;
        Ok(self.s.pack_size)
    }
    fn is_done(&self) -> bool {
        self.s.frames == 0
    }
}

type MockOps = Vec<Option<(MockSpec, MockSpec)>>;

fn mock_text(ops: &MockOps) -> String {
    ops.iter()
        .map(|o| match o {
            None => "-".to_string(),
            Some((a, b)) => format!("{}/{}", a.text(), b.text()),
        })
        .collect::<Vec<_>>()
        .join(" ")
}

/// The property for one run of a datagram: `masked` = (outcome, final tx) on the geometry with its
/// mask, `restricted` = the same on the geometry that contains only the enabled devices, `before` =
/// the tx buffers before. `Some(text)` when the property is violated.
fn frames_verdict(w: &W, before: &[TxMessage], masked: (&SendOut, &[TxMessage]), restricted: (&SendOut, &[TxMessage])) -> Option<String> {
        let en = w.enabled();
        let mut bad: Option<String> = None;
        // nothing of a disabled device is touched — bytes, message id, slot offset — at any time
        for i in 0..w.n() {
            if !w.geo[i].enable {
                let h0 = fnv64(before[i].as_bytes());
                if masked.1[i].as_bytes() != before[i].as_bytes() {
                    bad = Some(format!("tx buffer of disabled device {i} changed (msg id {} → {})", before[i].header.msg_id, masked.1[i].header.msg_id));
                }
                for (k, fr) in masked.0.frames.iter().enumerate() {
                    if fr[i] != h0 && bad.is_none() {
                        bad = Some(format!("tx buffer of disabled device {i} differs in frame {k}"));
                    }
                }
            }
        }
        if bad.is_none() && masked.0.result != restricted.0.result {
            bad = Some(format!("result `{}` vs `{}` in the geometry of the enabled devices only", masked.0.result, restricted.0.result));
        }
        if bad.is_none() && masked.0.frames.len() != restricted.0.frames.len() {
            bad = Some(format!("{} frames vs {} in the geometry of the enabled devices only", masked.0.frames.len(), restricted.0.frames.len()));
        }
        if bad.is_none() {
            'outer: for (k, (a, b)) in masked.0.frames.iter().zip(restricted.0.frames.iter()).enumerate() {
                for (r, &i) in en.iter().enumerate() {
                    if a[i] != b[r] {
                        bad = Some(format!("frame {k} of enabled device {i} differs from frame {k} of device {r} in the geometry of the enabled devices only"));
                        break 'outer;
                    }
                }
            }
        }
        if bad.is_none() && masked.0.result.starts_with("ok") {
            for (r, &i) in en.iter().enumerate() {
                if masked.1[i].as_bytes() != restricted.1[r].as_bytes() {
                    bad = Some(format!("final tx of enabled device {i} differs from the restricted geometry's device {r}"));
                }
            }
        }
        bad
}

/// (coverage review C12 gap 3) a FAILING pack under `parallel = true`: only the schedule-independent facts (DESIGN
/// O4: which message ids of the enabled devices were advanced in the never-sent buffers depends on the schedule) —
/// it fails with the serial error, after the same complete frames, and nothing of a disabled device is touched
fn failing_parallel_verdict(w: &W, before: &[TxMessage], serial: &SendOut, par: &SendOut, ptx: &[TxMessage]) -> Option<String> {
    if par.result != serial.result {
        return Some(format!("pack(parallel = true) gives `{}`, the serial pack `{}`", par.result, serial.result));
    }
    if par.frames != serial.frames {
        return Some(format!("pack(parallel = true) sends {} frames before failing / different ones, the serial pack {}", par.frames.len(), serial.frames.len()));
    }
    for i in 0..w.n() {
        if !w.geo[i].enable && ptx[i].as_bytes() != before[i].as_bytes() {
            return Some(format!(
                "the failing pack(parallel = true) changed the tx buffer of disabled device {i} (msg id {} → {}, slot-2 offset {} → {})",
                before[i].header.msg_id, ptx[i].header.msg_id, before[i].header.slot_2_offset, ptx[i].header.slot_2_offset
            ));
        }
    }
    None
}

/// a floating-point datagram class on both worlds (tx pre-filled from `seed`): (result, verdict)
fn float_verdict<D, F>(w: &W, make: F) -> (SendOut, Vec<TxMessage>, Option<String>)
where
    F: Fn() -> D,
    D: Datagram,
    AUTDDriverError: From<D::Error>,
    D::G: OperationGenerator,
    AUTDDriverError: From<<<D::G as OperationGenerator>::O1 as Operation>::Error>
        + From<<<D::G as OperationGenerator>::O2 as Operation>::Error>,
{
    let before = w.tx.clone();
    let (rg, mut rtx) = w.restricted();
    let mut tx = w.tx.clone();
    let geo = &w.geo;
    let (n, nr) = (tx.len(), rtx.len());
    let o = guarded(|| run_send(make(), geo, &mut tx, false)).unwrap_or_else(|p| SendOut::fail(format!("panic:{}", panic_key(&p)), n));
    let o_r = guarded(|| run_send(make(), &rg, &mut rtx, false)).unwrap_or_else(|p| SendOut::fail(format!("panic:{}", panic_key(&p)), nr));
    let mut v = frames_verdict(w, &before, (&o, &tx), (&o_r, &rtx));
    // none of the floating-point classes of this stream has a legitimate panic: one that occurs alike with and
    // without the disabled devices (e.g. a solver sizing its vectors by `geometry.num_transducers()` under a
    // partial filter) must not pass as "same result"
    if v.is_none() && o.result.starts_with("panic") {
        v = Some(format!("the datagram panicked ({}), in the geometry of the enabled devices only: {}", o.result, o_r.result));
    }
    (o, tx, v)
}

fn holo_foci(m: usize) -> Vec<(Point3, autd3_gain_holo::Amplitude)> {
    foci_points(m).into_iter().map(|q| (q, 5e3 * Pa)).collect()
}

/// the holographic datagram classes by name (run in the child: they write through raw pointers)
fn holo_class_verdict(w: &W, name: &str, m: usize) -> Option<(SendOut, Vec<TxMessage>, Option<String>)> {
    let be = || Arc::new(NalgebraBackend::<Sphere>::new());
    Some(match name {
        "holo::Naive" => float_verdict(w, || Naive::new(holo_foci(m), NaiveOption::default(), be())),
        "holo::GS" => float_verdict(w, || GS::new(holo_foci(m), GSOption::default(), be())),
        "holo::GSPAT" => float_verdict(w, || GSPAT::new(holo_foci(m), GSPATOption::default(), be())),
        "holo::LM" => float_verdict(w, || LM::new(holo_foci(m), LMOption::default(), be())),
        "Group{holo::Naive}" => float_verdict(w, || {
            let mut gm = HashMap::new();
            gm.insert(0u8, Naive::new(holo_foci(m), NaiveOption::default(), be()));
            gm.insert(1u8, Naive::new(holo_foci(1), NaiveOption::default(), be()));
            Group::new(|_dev: &Device| |tr: &Transducer| match tr.idx() % 3 { 0 => Some(0u8), 1 => Some(1u8), _ => None }, gm)
        }),
        // (coverage review C12 gap 1) the iterative solvers behind a Group: each receives a PARTIAL filter (a third of
        // the transducers of every enabled device) under the mask — `n = cols_c(&g)` and `geometry.num_transducers()`
        // differ only here
        "Group{holo::GS}" => float_verdict(w, || {
            let mut gm = HashMap::new();
            gm.insert(0u8, GS::new(holo_foci(m), GSOption::default(), be()));
            gm.insert(1u8, GS::new(holo_foci(1), GSOption::default(), be()));
            Group::new(|_dev: &Device| |tr: &Transducer| match tr.idx() % 3 { 0 => Some(0u8), 1 => Some(1u8), _ => None }, gm)
        }),
        "Group{holo::GSPAT}" => float_verdict(w, || {
            let mut gm = HashMap::new();
            gm.insert(0u8, GSPAT::new(holo_foci(m), GSPATOption::default(), be()));
            gm.insert(1u8, GSPAT::new(holo_foci(1), GSPATOption::default(), be()));
            Group::new(|_dev: &Device| |tr: &Transducer| match tr.idx() % 3 { 0 => Some(0u8), 1 => Some(1u8), _ => None }, gm)
        }),
        "Group{holo::LM}" => float_verdict(w, || {
            let mut gm = HashMap::new();
            gm.insert(0u8, LM::new(holo_foci(m), LMOption::default(), be()));
            gm.insert(1u8, LM::new(holo_foci(1), LMOption::default(), be()));
            Group::new(|_dev: &Device| |tr: &Transducer| match tr.idx() % 3 { 0 => Some(0u8), 1 => Some(1u8), _ => None }, gm)
        }),
        _ => return None,
    })
}

// ------------------------------------------------------------------------------------ the context

/// Greedy's pressure is checked when at least this many transducers are selected (with a handful, 16 phase steps
/// cannot hit half of the maximum)
const GREEDY_MIN_SELECTED: usize = 100;
/// |P_masked / P_restricted - 1| and |P_masked / request - 1| (measured on the unchanged code: see the distribution)
const TH_GREEDY_MASK: f64 = 0.08;

struct Ctx {
    /// largest deviation seen by the Greedy pressure check
    greedy_worst: f64,
    out: Out,
    /// kinds of which an actual case was already written to the evidence samples
    sampled: Vec<String>,
    /// child process for the memory-unsafe observations
    worker: Option<Worker>,
}

impl Ctx {
    /// keep the first case of a kind, as run, for the evidence file
    fn sample_once(&mut self, kind: &str, w: &W, op: &str) {
        if !self.sampled.iter().any(|k| k == kind) {
            self.sampled.push(kind.to_string());
            let g: String = w.geo_line().chars().take(260).collect();
            self.out.sample(format!("{g}… / mask {} / {}", mask_str(&w.mask()), op.chars().take(300).collect::<String>()));
        }
    }
    fn start(&mut self, w: &W) {
        self.out.line(&w.geo_line(), "ok");
    }
    fn mask(&mut self, w: &mut W, m: &[bool]) {
        w.set_mask(m);
        self.out.line(&format!("mask {}", mask_str(m)), "ok");
    }

    /// aggregates: line + oracle (same aggregates on the restricted geometry; mean / tight box of enabled units)
    fn agg(&mut self, w: &W, tag: &str) {
        let ans = agg_answer(&w.geo);
        self.out.line("agg", &ans);
        let (rg, _) = w.restricted();
        let ans_r = agg_answer(&rg);
        let m = mask_str(&w.mask());
        let nontrivial = w.mask().iter().any(|b| !*b);
        self.out.case(if nontrivial { Some(fnv64(format!("agg:{tag}:{}:{m}", w.n()).as_bytes())) } else { None });
        self.out.count("agg");
        let replay = vec![w.geo_line(), format!("mask {m}"), "agg".to_string()];
        if ans != ans_r {
            let which = ans
                .split(' ')
                .zip(ans_r.split(' '))
                .filter(|(a, b)| a != b)
                .map(|(a, _)| a.split('=').next().unwrap_or("?").to_string())
                .collect::<Vec<_>>()
                .join("+");
            let names = which.replace("nd", "num_devices").replace("nt", "num_transducers").replace("bb", "aabb");
            let names = if names == "c" { "center".to_string() } else { names.replace("+c", "+center").replace("c+", "center+") };
            self.out.violation(
                format!("agg:{names}:n={}:mask={m}", w.n()),
                format!(
                    "Geometry aggregate(s) {names} of {} devices with enable mask {m} differ from the geometry that contains only the enabled devices: masked `{ans}` vs restricted `{ans_r}`",
                    w.n()
                ),
                replay.clone(),
            );
        }
        // independent statement: centre = mean of the enabled units' centres; box = tight box of their transducers
        let en = w.enabled();
        if !en.is_empty() {
            let mut mean = [0f64; 3];
            let (mut lo, mut hi) = ([f32::INFINITY; 3], [f32::NEG_INFINITY; 3]);
            for &i in &en {
                let c = w.geo[i].center();
                for (k, v) in [c.x, c.y, c.z].iter().enumerate() {
                    mean[k] += *v as f64 / en.len() as f64;
                }
                for tr in w.geo[i].iter() {
                    let p = tr.position();
                    for (k, v) in [p.x, p.y, p.z].iter().enumerate() {
                        lo[k] = lo[k].min(*v);
                        hi[k] = hi[k].max(*v);
                    }
                }
            }
            let c = w.geo.center();
            let scale = en.iter().map(|&i| w.geo[i].center().coords.iter().fold(0f64, |a, v| a.max(v.abs() as f64))).fold(1f64, f64::max);
            let off = [c.x as f64 - mean[0], c.y as f64 - mean[1], c.z as f64 - mean[2]];
            if off.iter().any(|d| !(d.abs() <= 1e-4 * scale)) {
                self.out.violation(
                    format!("agg:center-not-mean:n={}:mask={m}", w.n()),
                    format!("Geometry::center() = ({}, {}, {}) is not the mean ({:.4}, {:.4}, {:.4}) of the {} enabled devices' centres (mask {m})", c.x, c.y, c.z, mean[0], mean[1], mean[2], en.len()),
                    replay.clone(),
                );
            }
            let bb = w.geo.aabb();
            if [bb.min.x, bb.min.y, bb.min.z] != lo || [bb.max.x, bb.max.y, bb.max.z] != hi {
                self.out.violation(
                    format!("agg:aabb-not-tight:n={}:mask={m}", w.n()),
                    format!("Geometry::aabb() is not the bounding box of the enabled devices' transducers (mask {m})"),
                    replay,
                );
            }
        }
    }

    /// `set_sound_speed` / `set_sound_speed_from_temp`: line + oracle (enabled get the value, disabled keep theirs)
    fn sound_speed(&mut self, w: &mut W, temp: bool, bits: u32) {
        let before: Vec<u32> = w.geo.iter().map(|d| d.sound_speed.to_bits()).collect();
        let v = f32::from_bits(bits);
        if temp {
            w.geo.set_sound_speed_from_temp(v);
        } else {
            w.geo.set_sound_speed(v);
        }
        let op = format!("{} {:08x}", if temp { "sstemp" } else { "ss" }, bits);
        self.out.line(&op, &ss_answer(&w.geo));
        let m = mask_str(&w.mask());
        self.out.case(Some(fnv64(format!("{op}:{}:{m}", w.n()).as_bytes())));
        self.out.count(if temp { "sstemp" } else { "ss" });
        let mut one = Device::new(UnitQuaternion::identity(), vec![Transducer::new(Point3::origin())]);
        if temp {
            one.set_sound_speed_from_temp(v);
        } else {
            one.sound_speed = v;
        }
        for i in 0..w.n() {
            let now = w.geo[i].sound_speed.to_bits();
            let want = if w.geo[i].enable { one.sound_speed.to_bits() } else { before[i] };
            if now != want {
                self.out.violation(
                    format!("ss:{}:n={}:mask={m}", if temp { "temp" } else { "set" }, w.n()),
                    format!(
                        "sound-speed setter with mask {m}: device {i} ({}) has sound speed bits {now:08x}, expected {want:08x}",
                        if w.geo[i].enable { "enabled" } else { "disabled" }
                    ),
                    vec![w.geo_line(), format!("mask {m}"), op.clone()],
                );
            }
        }
    }

    fn reconf(&mut self, w: &mut W, new_specs: Vec<DevSpec>) {
        let before: Vec<(bool, u32)> = w.geo.iter().map(|d| (d.enable, d.sound_speed.to_bits())).collect();
        let devs: Vec<Device> = new_specs.iter().map(make_device).collect();
        let texts: Vec<String> = devs.iter().enumerate().map(|(i, d)| dev_text(i, d)).collect();
        let ns = new_specs.clone();
        w.geo.reconfigure(|dev| make_device(&ns[dev.idx()]));
        w.specs = new_specs;
        w.uids = Arc::new(w.geo.iter().map(first_pos_bits).collect());
        let ans = w
            .geo
            .iter()
            .map(|d| format!("{}/{}/{:08x}/{}/{}", d.idx(), d.enable as u8, d.sound_speed.to_bits(), uid_of(&w.uids, d), d.num_transducers()))
            .collect::<Vec<_>>()
            .join(" ");
        let op = format!("reconf {}", texts.join(" "));
        self.out.line(&op, &ans);
        let m = mask_str(&w.mask());
        self.out.case(Some(fnv64(format!("reconf:{}:{m}", w.n()).as_bytes())));
        self.out.count("reconf");
        for i in 0..w.n() {
            if (w.geo[i].enable, w.geo[i].sound_speed.to_bits()) != before[i] || w.geo[i].idx() != i {
                self.out.violation(
                    format!("reconf:n={}:mask={m}", w.n()),
                    format!("reconfigure changed enable/sound speed/idx of device {i} (mask {m})"),
                    vec![format!("mask {m}"), op.clone()],
                );
            }
        }
    }

    fn tx_init(&mut self, w: &mut W, seed: u64) {
        w.tx_init(seed);
        self.out.line(&format!("txinit {seed}"), "ok");
    }

    /// the property on the implementation for one run (see `frames_verdict`)
    fn oracle_frames(
        &mut self,
        w: &W,
        before: &[TxMessage],
        masked: (&SendOut, &[TxMessage]),
        restricted: (&SendOut, &[TxMessage]),
        key: String,
        what: &str,
        replay: Vec<String>,
    ) {
        if let Some(b) = frames_verdict(w, before, masked, restricted) {
            let m = mask_str(&w.mask());
            self.out.violation(key, format!("{what}, {} devices, enable mask {m}: {b}", w.n()), replay);
        }
    }

    /// one datagram through `generate` + `pack`, line + oracle
    fn send(&mut self, w: &mut W, spec: &Spec, pair: Option<&Spec>, model: bool) {
        let before = w.tx.clone();
        let (rg, mut rtx) = w.restricted();
        let uids = w.uids.clone();
        let text = match pair {
            None => spec.text(),
            Some(b) => format!("pair {} | {}", spec.text(), b.text()),
        };
        let kind = match pair {
            None => spec.kind().to_string(),
            Some(b) => format!("{}|{}", spec.kind(), b.kind()),
        };
        let geo = &w.geo;
        let mut tx = w.tx.clone();
        let n = tx.len();
        let o = match guarded(|| send_spec(spec, pair, &uids, geo, &mut tx, false)) {
            Ok(o) => o,
            Err(p) => SendOut::fail(format!("panic:{}", panic_key(&p)), n),
        };
        let nr = rtx.len();
        let o_r = match guarded(|| send_spec(spec, pair, &uids, &rg, &mut rtx, false)) {
            Ok(o) => o,
            Err(p) => SendOut::fail(format!("panic:{}", panic_key(&p)), nr),
        };
        let m = mask_str(&w.mask());
        let op = format!("send {text}");
        if model {
            let ans = if o.result.starts_with("panic") { "panic".to_string() } else { send_answer(&o, &tx, true) };
            self.out.line(&op, &ans);
        }
        let nontrivial = w.mask().iter().any(|b| !*b);
        if nontrivial && pair.is_some() && w.n() >= 3 && model && w.geo.num_devices() >= 2 {
            self.sample_once("send-pair", w, &op);
        }
        self.out.case(if nontrivial { Some(fnv64(format!("send:{kind}:{}:{m}", w.n()).as_bytes())) } else { None });
        self.out.count(&format!("send:{kind}"));
        self.out.count(&format!("result:{}", o.result.split(':').take(2).collect::<Vec<_>>().join(":")));
        self.out.count_n("frames", o.frames.len() as u64);
        let replay = vec![w.geo_line(), format!("mask {m}"), "txinit <seed>".to_string(), op];
        self.oracle_frames(w, &before, (&o, &tx), (&o_r, &rtx), format!("send:{kind}:n={}:mask={m}", w.n()), &format!("datagram `{text}`"), replay.clone());
        // the second copy of the zip/filter chain (`parallel = true`): same frames whenever packing succeeds
        if o.result == "ok" {
            let mut ptx = before.clone();
            let o_p = match guarded(|| send_spec(spec, pair, &uids, geo, &mut ptx, true)) {
                Ok(o) => o,
                Err(p) => SendOut::fail(format!("panic:{}", panic_key(&p)), n),
            };
            self.out.count("parallel-pack-runs");
            if o_p.result != o.result || o_p.frames != o.frames {
                self.out.violation(
                    format!("send-parallel:{kind}:n={}:mask={m}", w.n()),
                    format!("datagram `{text}`, {} devices, enable mask {m}: OperationHandler::pack(parallel = true) gives `{}` / different frames than the serial pack (`{}`)", w.n(), o_p.result, o.result),
                    replay,
                );
            }
        } else if o.result.starts_with("err") {
            let mut ptx = before.clone();
            let o_p = match guarded(|| send_spec(spec, pair, &uids, geo, &mut ptx, true)) {
                Ok(o) => o,
                Err(p) => SendOut::fail(format!("panic:{}", panic_key(&p)), n),
            };
            self.out.count("parallel-pack-runs of a FAILING pack (oracle only)");
            if let Some(b) = failing_parallel_verdict(w, &before, &o, &o_p, &ptx) {
                self.out.violation(
                    format!("send-parallel-failing:{kind}:n={}:mask={m}", w.n()),
                    format!("datagram `{text}` (refused by pack), {} devices, enable mask {m}: {b}", w.n()),
                    replay,
                );
            }
        }
        w.tx = tx;
    }

    /// scripted operations through `OperationHandler::pack`
    fn mock(&mut self, w: &mut W, rounds: usize, ops: &MockOps, tag: &str) {
        let before = w.tx.clone();
        let (rg, mut rtx) = w.restricted();
        let mk = |uids: &UidTable| -> Vec<Option<(MockOp, MockOp)>> {
            ops.iter()
                .map(|o| o.as_ref().map(|(a, b)| (MockOp { s: a.clone(), uids: uids.clone() }, MockOp { s: b.clone(), uids: uids.clone() })))
                .collect()
        };
        let mut tx = w.tx.clone();
        let mut live = mk(&w.uids);
        let geo = &w.geo;
        let n = tx.len();
        let o = match guarded(|| pack_loop(&mut live, geo, &mut tx, rounds, false)) {
            Ok(o) => o,
            Err(p) => SendOut::fail(format!("panic:{}", panic_key(&p)), n),
        };
        let mut live_r = mk(&w.uids);
        let nr = rtx.len();
        let o_r = match guarded(|| pack_loop(&mut live_r, &rg, &mut rtx, rounds, false)) {
            Ok(o) => o,
            Err(p) => SendOut::fail(format!("panic:{}", panic_key(&p)), nr),
        };
        let left = live
            .iter()
            .map(|o| match o {
                None => "-".to_string(),
                Some((a, b)) => format!("{}/{}", a.s.frames, b.s.frames),
            })
            .collect::<Vec<_>>()
            .join(" ");
        let op = format!("mock {rounds} {}", mock_text(ops));
        let ans = if o.result.starts_with("panic") { "panic".to_string() } else { format!("{} O={left}", send_answer(&o, &tx, true)) };
        self.out.line(&op, &ans);
        let m = mask_str(&w.mask());
        self.out.case(Some(fnv64(format!("mock:{tag}:{}:{m}:{}", w.n(), mock_text(ops)).as_bytes())));
        if tag == "broken" && w.n() >= 3 && w.mask().iter().any(|b| !*b) && w.geo.num_devices() >= 2 {
            self.sample_once("mock-broken", w, &op);
        }
        self.out.count(&format!("mock:{tag}"));
        self.out.count(&format!("result:{}", o.result.split(':').take(2).collect::<Vec<_>>().join(":")));
        let replay = vec![w.geo_line(), format!("mask {m}"), op];
        // the restricted geometry needs as many operations as it has devices: same list (ops are per enabled device)
        self.oracle_frames(w, &before, (&o, &tx), (&o_r, &rtx), format!("mock:{tag}:n={}:mask={m}", w.n()), &format!("scripted operations ({tag})"), replay.clone());
        if !o.result.starts_with("err") && !o.result.starts_with("panic") {
            let mut ptx = before.clone();
            let mut live_p = mk(&w.uids);
            let o_p = match guarded(|| pack_loop(&mut live_p, geo, &mut ptx, rounds, true)) {
                Ok(o) => o,
                Err(p) => SendOut::fail(format!("panic:{}", panic_key(&p)), n),
            };
            self.out.count("parallel-pack-runs");
            if o_p.result != o.result || o_p.frames != o.frames {
                self.out.violation(
                    format!("mock-parallel:{tag}:n={}:mask={m}", w.n()),
                    format!("scripted operations ({tag}), enable mask {m}: pack(parallel = true) differs from the serial pack"),
                    replay,
                );
            }
        } else if o.result.starts_with("err") {
            let mut ptx = before.clone();
            let mut live_p = mk(&w.uids);
            let o_p = match guarded(|| pack_loop(&mut live_p, geo, &mut ptx, rounds, true)) {
                Ok(o) => o,
                Err(p) => SendOut::fail(format!("panic:{}", panic_key(&p)), n),
            };
            self.out.count("parallel-pack-runs of a FAILING pack (oracle only)");
            if let Some(b) = failing_parallel_verdict(w, &before, &o, &o_p, &ptx) {
                self.out.violation(
                    format!("mock-parallel-failing:{tag}:n={}:mask={m}", w.n()),
                    format!("scripted operations ({tag}, one of them fails), enable mask {m}: {b}"),
                    replay,
                );
            }
        }
        w.tx = tx;
    }
}


// ------------------------------------------------------------------------------------ holographic index maps

/// filter entry of one device position
#[derive(Clone, Debug)]
enum FEntry {
    Absent,
    Bits(Vec<bool>),
    Rand(u64, usize),
}
impl FEntry {
    fn bits(&self) -> Option<Vec<bool>> {
        match self {
            FEntry::Absent => None,
            FEntry::Bits(b) => Some(b.clone()),
            FEntry::Rand(seed, len) => Some(pr_bytes(*seed, *len).iter().map(|b| b % 2 == 1).collect()),
        }
    }
    fn text(&self) -> String {
        match self {
            FEntry::Absent => "-".into(),
            FEntry::Bits(b) => format!("b{}", mask_str(b)),
            FEntry::Rand(s, l) => format!("r{s}:{l}"),
        }
    }
}
type FilterSpec = Option<Vec<FEntry>>;

fn filter_text(f: &FilterSpec) -> String {
    match f {
        None => "none".into(),
        Some(es) => format!("f:{}", es.iter().map(|e| e.text()).collect::<Vec<_>>().join(",")),
    }
}

/// the `HashMap<usize, BitVec>` the gains receive. `positions[k]` = position (in the filter spec) of the
/// device that sits at index `k`; `full`: the geometry is the original one (key = position), otherwise
/// the geometry of the enabled devices only (key = rank among the enabled)
fn filter_map(f: &FilterSpec, positions: &[usize], full: bool) -> Option<HashMap<usize, BitVec>> {
    f.as_ref().map(|es| {
        let mut m = HashMap::new();
        for (k, &p) in positions.iter().enumerate() {
            if let Some(bits) = es[p].bits() {
                m.insert(if full { p } else { k }, bits.iter().copied().collect::<BitVec>());
            }
        }
        m
    })
}

/// a backend that delegates the transfer matrix to the real `NalgebraBackend` (and keeps a copy) and
/// whose "solution" vector encodes its own index: `q[i]` has phase byte `i % 256` and, under
/// `EmissionConstraint::Normalize` with maximum 1, intensity `i / 256 + 1`
struct IndexBackend {
    real: NalgebraBackend<Sphere>,
    matrix: Mutex<Option<MatrixXc>>,
}

fn index_code(i: usize) -> Complex {
    let r = ((i / 256) + 1) as f32 / 255.0;
    let theta = (i % 256) as f32 * 2.0 * PI / 256.0;
    Complex::from_polar(r, theta)
}

macro_rules! unused {
    ($($name:ident ( $($a:ident : $t:ty),* ) -> $r:ty;)*) => {
        $(fn $name(&self, $($a: $t),*) -> Result<$r, HoloError> { let _ = ($(&$a),*); unimplemented!("IndexBackend::{}", stringify!($name)) })*
    };
}

impl LinAlgBackend<Sphere> for IndexBackend {
    type MatrixXc = MatrixXc;
    type MatrixX = MatrixX;
    type VectorXc = VectorXc;
    type VectorX = VectorX;

    fn generate_propagation_matrix(
        &self,
        geometry: &Geometry,
        foci: &[Point3],
        filter: Option<&HashMap<usize, BitVec>>,
    ) -> Result<MatrixXc, HoloError> {
        let m = self.real.generate_propagation_matrix(geometry, foci, filter)?;
        *self.matrix.lock().unwrap() = Some(m.clone());
        Ok(m)
    }
    fn cols_c(&self, m: &MatrixXc) -> Result<usize, HoloError> {
        Ok(m.ncols())
    }
    fn gen_back_prop(&self, m: usize, n: usize, _: &MatrixXc) -> Result<MatrixXc, HoloError> {
        Ok(MatrixXc::zeros(m, n))
    }
    fn from_slice_cv(&self, v: &[f32]) -> Result<VectorXc, HoloError> {
        Ok(VectorXc::from_iterator(v.len(), v.iter().map(|x| Complex::new(*x, 0.))))
    }
    fn alloc_zeros_cv(&self, size: usize) -> Result<VectorXc, HoloError> {
        Ok(VectorXc::zeros(size))
    }
    fn alloc_v(&self, size: usize) -> Result<VectorX, HoloError> {
        Ok(VectorX::zeros(size))
    }
    fn gemv_c(&self, _: Trans, _: Complex, _: &MatrixXc, _: &VectorXc, _: Complex, y: &mut VectorXc) -> Result<(), HoloError> {
        for i in 0..y.len() {
            y[i] = index_code(i);
        }
        Ok(())
    }
    fn norm_squared_cv(&self, _: &VectorXc, _: &mut VectorX) -> Result<(), HoloError> {
        Ok(())
    }
    fn max_v(&self, _: &VectorX) -> Result<f32, HoloError> {
        Ok(1.0)
    }
    fn to_host_cv(&self, v: VectorXc) -> Result<VectorXc, HoloError> {
        Ok(v)
    }
    unused! {
        alloc_m(rows: usize, cols: usize) -> MatrixX;
        alloc_cv(size: usize) -> VectorXc;
        alloc_cm(rows: usize, cols: usize) -> MatrixXc;
        alloc_zeros_v(size: usize) -> VectorX;
        alloc_zeros_cm(rows: usize, cols: usize) -> MatrixXc;
        to_host_v(v: VectorX) -> VectorX;
        to_host_m(v: MatrixX) -> MatrixX;
        to_host_cm(v: MatrixXc) -> MatrixXc;
        from_slice_v(v: &[f32]) -> VectorX;
        from_slice_m(rows: usize, cols: usize, v: &[f32]) -> MatrixX;
        from_slice2_cv(r: &[f32], i: &[f32]) -> VectorXc;
        from_slice2_cm(rows: usize, cols: usize, r: &[f32], i: &[f32]) -> MatrixXc;
        copy_from_slice_v(v: &[f32], dst: &mut VectorX) -> ();
        copy_to_v(src: &VectorX, dst: &mut VectorX) -> ();
        copy_to_m(src: &MatrixX, dst: &mut MatrixX) -> ();
        clone_v(v: &VectorX) -> VectorX;
        clone_m(v: &MatrixX) -> MatrixX;
        clone_cv(v: &VectorXc) -> VectorXc;
        clone_cm(v: &MatrixXc) -> MatrixXc;
        make_complex2_v(real: &VectorX, imag: &VectorX, v: &mut VectorXc) -> ();
        create_diagonal(v: &VectorX, a: &mut MatrixX) -> ();
        create_diagonal_c(v: &VectorXc, a: &mut MatrixXc) -> ();
        get_diagonal(a: &MatrixX, v: &mut VectorX) -> ();
        real_cm(a: &MatrixXc, b: &mut MatrixX) -> ();
        imag_cm(a: &MatrixXc, b: &mut MatrixX) -> ();
        scale_assign_cv(a: Complex, b: &mut VectorXc) -> ();
        conj_assign_v(b: &mut VectorXc) -> ();
        exp_assign_cv(v: &mut VectorXc) -> ();
        concat_col_cm(a: &MatrixXc, b: &MatrixXc, c: &mut MatrixXc) -> ();
        hadamard_product_cm(x: &MatrixXc, y: &MatrixXc, z: &mut MatrixXc) -> ();
        dot(x: &VectorX, y: &VectorX) -> f32;
        dot_c(x: &VectorXc, y: &VectorXc) -> Complex;
        add_v(alpha: f32, a: &VectorX, b: &mut VectorX) -> ();
        add_m(alpha: f32, a: &MatrixX, b: &mut MatrixX) -> ();
        gevv_c(trans_a: Trans, trans_b: Trans, alpha: Complex, a: &VectorXc, x: &VectorXc, beta: Complex, y: &mut MatrixXc) -> ();
        gemm_c(trans_a: Trans, trans_b: Trans, alpha: Complex, a: &MatrixXc, b: &MatrixXc, beta: Complex, y: &mut MatrixXc) -> ();
        solve_inplace(a: &MatrixX, x: &mut VectorX) -> ();
        reduce_col(a: &MatrixX, b: &mut VectorX) -> ();
        scaled_to_cv(a: &VectorXc, b: &VectorXc, c: &mut VectorXc) -> ();
        scaled_to_assign_cv(a: &VectorXc, b: &mut VectorXc) -> ();
    }
}

fn foci_points(m: usize) -> Vec<Point3> {
    (0..m).map(|k| Point3::new(37.3 + 11.7 * k as f32, -23.1 + 7.9 * (k * k) as f32, 151.3 + 13.1 * k as f32)).collect()
}

/// result of the index-map observation: n, per column the owner `(dev idx, tr idx)` (None = not
/// identifiable), per enabled device the read-back index of every transducer
struct HoloObs {
    n: usize,
    fill: Vec<Option<(usize, usize)>>,
    read: Vec<(usize, Vec<Result<Option<usize>, ()>>)>,
}

fn holo_observe(geo: &Geometry, m: usize, filter: Option<&HashMap<usize, BitVec>>) -> HoloObs {
    let foci = foci_points(m);
    let backend = Arc::new(IndexBackend { real: NalgebraBackend::<Sphere>::new(), matrix: Mutex::new(None) });
    let g = Naive::new(
        foci.iter().map(|p| (*p, 1. * Pa)),
        NaiveOption { constraint: EmissionConstraint::Normalize, ..Default::default() },
        backend.clone(),
    );
    let mut generator = g.init_full(geo, filter, false).expect("Naive::init_full");
    let mat = backend.matrix.lock().unwrap().take().expect("matrix recorded");
    let n = mat.ncols();
    assert_eq!(mat.nrows(), m);
    // fill side: which transducer's transfer values are in column j
    let mut by_bits: HashMap<(u32, u32), Vec<(usize, usize)>> = HashMap::new();
    for dev in geo.iter() {
        for tr in dev.iter() {
            let v = propagate::<Sphere>(tr, dev.wavenumber(), dev.axial_direction(), &foci[0]);
            by_bits.entry((v.re.to_bits(), v.im.to_bits())).or_default().push((dev.idx(), tr.idx()));
        }
    }
    let fill = (0..n)
        .map(|j| {
            let v = mat[(0, j)];
            let cands = by_bits.get(&(v.re.to_bits(), v.im.to_bits()))?;
            let ok: Vec<_> = cands
                .iter()
                .filter(|(d, t)| {
                    (0..m).all(|f| {
                        let e = propagate::<Sphere>(&geo[*d][*t], geo[*d].wavenumber(), geo[*d].axial_direction(), &foci[f]);
                        let a = mat[(f, j)];
                        e.re.to_bits() == a.re.to_bits() && e.im.to_bits() == a.im.to_bits()
                    })
                })
                .collect();
            if ok.len() == 1 { Some(*ok[0]) } else { None }
        })
        .collect();
    // read side: decode the index out of each drive
    let mut table: HashMap<(u8, u8), usize> = HashMap::new();
    for i in 0..n.max(1) {
        let q = index_code(i);
        let key = (Phase::from(q).0, EmissionConstraint::Normalize.convert(q.norm(), 1.0).0);
        assert!(key != (0, 0) && table.insert(key, i).is_none(), "index code not injective at {i}");
    }
    let read = geo
        .devices()
        .map(|dev| {
            let calc = generator.generate(dev);
            (
                dev.idx(),
                dev.iter()
                    .map(|tr| {
                        let d = calc.calc(tr);
                        if d == Drive::NULL { Ok(None) } else { table.get(&(d.phase.0, d.intensity.0)).map(|i| Some(*i)).ok_or(()) }
                    })
                    .collect(),
            )
        })
        .collect();
    HoloObs { n, fill, read }
}

fn short_or_hash(s: String) -> String {
    if s.chars().count() <= 200 { s } else { format!("#{}", fnv64(s.as_bytes())) }
}

fn holo_answer(o: &HoloObs) -> String {
    let fill = o.fill.iter().map(|c| c.map(|(d, t)| format!("{d}.{t}")).unwrap_or("?".into())).collect::<Vec<_>>().join(",");
    let read = o
        .read
        .iter()
        .map(|(i, r)| {
            format!(
                "{i}:{}",
                r.iter()
                    .map(|x| match x {
                        Ok(None) => "-".to_string(),
                        Ok(Some(k)) => k.to_string(),
                        Err(()) => "?".to_string(),
                    })
                    .collect::<Vec<_>>()
                    .join(",")
            )
        })
        .collect::<Vec<_>>()
        .join(";");
    format!("n={} F={} R={}", o.n, short_or_hash(fill), short_or_hash(read))
}


// ---- child process: the pointer branch of `generate_propagation_matrix` writes through a raw pointer;
// a wrong offset is undefined behaviour (heap corruption, abort). Every holographic observation
// therefore runs in a child (`vh masks-child`); a child that dies is an answer (`crash`).

fn spec_text(s: &DevSpec) -> String {
    let b = |v: &[f32; 3]| format!("{:08x},{:08x},{:08x}", v[0].to_bits(), v[1].to_bits(), v[2].to_bits());
    match s {
        DevSpec::Autd3 { pos, rot } => format!("A/{}/{}", b(pos), b(rot)),
        DevSpec::Small { pts } => format!("S/{}", pts.iter().map(b).collect::<Vec<_>>().join("|")),
    }
}
fn parse_v3(t: &str) -> Option<[f32; 3]> {
    let v: Vec<u32> = t.split(',').map(|x| u32::from_str_radix(x, 16).ok()).collect::<Option<_>>()?;
    if v.len() == 3 { Some([f32::from_bits(v[0]), f32::from_bits(v[1]), f32::from_bits(v[2])]) } else { None }
}
fn parse_spec(t: &str) -> Option<DevSpec> {
    let parts: Vec<&str> = t.split('/').collect();
    match parts.as_slice() {
        ["A", p, r] => Some(DevSpec::Autd3 { pos: parse_v3(p)?, rot: parse_v3(r)? }),
        ["S", pts] => Some(DevSpec::Small { pts: pts.split('|').map(parse_v3).collect::<Option<_>>()? }),
        _ => None,
    }
}
fn parse_filter(t: &str) -> Option<FilterSpec> {
    if t == "none" {
        return Some(None);
    }
    let es = t.strip_prefix("f:")?;
    es.split(',')
        .map(|e| {
            if e == "-" {
                Some(FEntry::Absent)
            } else if let Some(b) = e.strip_prefix('b') {
                Some(FEntry::Bits(b.chars().map(|c| c == '1').collect()))
            } else if let Some(r) = e.strip_prefix('r') {
                let (s, l) = r.split_once(':')?;
                Some(FEntry::Rand(s.parse().ok()?, l.parse().ok()?))
            } else {
                None
            }
        })
        .collect::<Option<Vec<_>>>()
        .map(Some)
}

fn obs_text(o: &HoloObs) -> String {
    let fill = o.fill.iter().map(|c| c.map(|(d, t)| format!("{d}.{t}")).unwrap_or("?".into())).collect::<Vec<_>>().join(",");
    let read = o
        .read
        .iter()
        .map(|(i, r)| {
            format!(
                "{i}:{}",
                r.iter()
                    .map(|x| match x {
                        Ok(None) => "-".to_string(),
                        Ok(Some(k)) => k.to_string(),
                        Err(()) => "?".to_string(),
                    })
                    .collect::<Vec<_>>()
                    .join(",")
            )
        })
        .collect::<Vec<_>>()
        .join(";");
    format!("obs {} F={fill} R={read}", o.n)
}
fn parse_obs(t: &str) -> Option<HoloObs> {
    let w: Vec<&str> = t.split(' ').collect();
    let ["obs", n, f, r] = w.as_slice() else { return None };
    let (f, r) = (f.strip_prefix("F=")?, r.strip_prefix("R=")?);
    let fill = if f.is_empty() {
        vec![]
    } else {
        f.split(',')
            .map(|e| if e == "?" { Some(None) } else { e.split_once('.').and_then(|(d, t)| Some(Some((d.parse().ok()?, t.parse().ok()?)))) })
            .collect::<Option<Vec<_>>>()?
    };
    let read = if r.is_empty() {
        vec![]
    } else {
        r.split(';')
            .map(|row| {
                let (i, es) = row.split_once(':')?;
                let es = if es.is_empty() {
                    vec![]
                } else {
                    es.split(',')
                        .map(|e| match e {
                            "-" => Some(Ok(None)),
                            "?" => Some(Err(())),
                            k => k.parse().ok().map(|k| Ok(Some(k))),
                        })
                        .collect::<Option<Vec<_>>>()?
                };
                Some((i.parse().ok()?, es))
            })
            .collect::<Option<Vec<_>>>()?
    };
    Some(HoloObs { n: n.parse().ok()?, fill, read })
}

fn greedy_rows(geo: &Geometry, fm: Option<&HashMap<usize, BitVec>>) -> Vec<(usize, Vec<bool>)> {
    let g = Greedy::<Sphere>::new(foci_points(2).into_iter().map(|p| (p, 1. * Pa)), GreedyOption::default());
    let mut generator = g.init_full(geo, fm, false).expect("Greedy::init_full");
    geo.devices()
        .map(|dev| {
            let c = generator.generate(dev);
            (dev.idx(), dev.iter().map(|tr| c.calc(tr) != Drive::NULL).collect())
        })
        .collect()
}
/// (coverage review C12 gap 2) the VALUES Greedy returns, not only which transducers it assigns: one target, request =
/// half of what the selected transducers of the enabled devices deliver with all phases aligned (computed here, in
/// f64, from `propagate`); answer = (request, pressure the returned drives produce at the target), both as f64 bits.
/// A disabled device that took part in Greedy's accumulated field would show as a pressure shortfall.
fn greedy_pressure(geo: &Geometry, fm: Option<&HashMap<usize, BitVec>>) -> String {
    let target = foci_points(1)[0];
    let selected = |dev: &Device, tr: &Transducer| fm.is_none_or(|f| f.get(&dev.idx()).is_some_and(|b| b[tr.idx()]));
    let mut full = 0f64;
    for dev in geo.devices() {
        for tr in dev.iter().filter(|tr| selected(dev, tr)) {
            full += propagate::<Sphere>(tr, dev.wavenumber(), dev.axial_direction(), &target).norm() as f64;
        }
    }
    let request = (0.5 * full) as f32;
    let g = Greedy::<Sphere>::new([(target, request * Pa)], GreedyOption::default());
    let mut generator = g.init_full(geo, fm, false).expect("Greedy::init_full");
    let (mut re, mut im) = (0f64, 0f64);
    for dev in geo.devices() {
        let c = generator.generate(dev);
        for tr in dev.iter() {
            let d = c.calc(tr);
            let a = d.intensity.0 as f64 / 255.0;
            let ph = d.phase.0 as f64 / 256.0 * 2.0 * std::f64::consts::PI;
            let v = propagate::<Sphere>(tr, dev.wavenumber(), dev.axial_direction(), &target);
            let (gr, gi) = (v.re as f64, v.im as f64);
            re += a * (ph.cos() * gr - ph.sin() * gi);
            im += a * (ph.cos() * gi + ph.sin() * gr);
        }
    }
    format!("press {:016x} {:016x}", (request as f64).to_bits(), (re * re + im * im).sqrt().to_bits())
}
fn parse_press(t: &str) -> Option<(f64, f64)> {
    let w: Vec<&str> = t.split(' ').collect();
    let ["press", a, p] = w.as_slice() else { return None };
    Some((f64::from_bits(u64::from_str_radix(a, 16).ok()?), f64::from_bits(u64::from_str_radix(p, 16).ok()?)))
}
fn rows_text(rows: &[(usize, Vec<bool>)]) -> String {
    format!("rows {}", rows.iter().map(|(i, b)| format!("{i}:{}", mask_str(b))).collect::<Vec<_>>().join(";"))
}
fn parse_rows(t: &str) -> Option<Vec<(usize, Vec<bool>)>> {
    let r = t.strip_prefix("rows ")?;
    if r.is_empty() {
        return Some(vec![]);
    }
    r.split(';').map(|row| row.split_once(':').and_then(|(i, b)| Some((i.parse().ok()?, b.chars().map(|c| c == '1').collect())))).collect()
}

/// `H <specs> <mask> <m> <filter> <restricted 0|1>` / `G <specs> <mask> <filter> <restricted 0|1>`
fn child_answer(line: &str) -> String {
    let w: Vec<&str> = line.split(' ').collect();
    if let ["F", s, k, seed, name, m] = w.as_slice() {
        let (Some(specs), Ok(seed), Ok(m)) = (s.split(';').map(parse_spec).collect::<Option<Vec<_>>>(), seed.parse::<u64>(), m.parse::<usize>()) else {
            return "bad-op".into();
        };
        let mut world = W::new_any(specs);
        let mask: Vec<bool> = k.chars().map(|c| c == '1').collect();
        if mask.len() != world.n() {
            return "bad-op".into();
        }
        world.set_mask(&mask);
        world.tx_init(seed);
        return match guarded(|| holo_class_verdict(&world, name, m)) {
            Ok(Some((o, _, v))) => format!("verdict {} {}", o.result, v.unwrap_or_default().replace(['\n', '\r'], " ")).trim_end().to_string(),
            Ok(None) => "bad-op".into(),
            Err(p) => format!("panic {}", p.replace(['\n', '\r'], " ")),
        };
    }
    let (specs, mask, m, filter, restricted) = match w.as_slice() {
        ["H", s, k, m, f, r] => (*s, *k, m.parse::<usize>().ok(), *f, *r == "1"),
        ["G", s, k, f, r] | ["P", s, k, f, r] => (*s, *k, None, *f, *r == "1"),
        _ => return "bad-op".into(),
    };
    let pressure = w[0] == "P";
    let Some(specs) = specs.split(';').map(parse_spec).collect::<Option<Vec<_>>>() else { return "bad-op".into() };
    let Some(f) = parse_filter(filter) else { return "bad-op".into() };
    let mut world = W::new_any(specs);
    let mask: Vec<bool> = mask.chars().map(|c| c == '1').collect();
    if mask.len() != world.n() {
        return "bad-op".into();
    }
    world.set_mask(&mask);
    let (geo, positions): (Geometry, Vec<usize>) = if restricted { (world.restricted().0, world.enabled()) } else { (Geometry::new(vec![]), (0..world.n()).collect()) };
    let geo = if restricted { &geo } else { &world.geo };
    let fm = filter_map(&f, &positions, !restricted);
    let r = match m {
        Some(m) => guarded(|| obs_text(&holo_observe(geo, m, fm.as_ref()))),
        None if pressure => guarded(|| greedy_pressure(geo, fm.as_ref())),
        None => guarded(|| rows_text(&greedy_rows(geo, fm.as_ref()))),
    };
    match r {
        Ok(a) => a,
        Err(p) => format!("panic {}", p.replace(['\n', '\r'], " ")),
    }
}

fn child_main() {
    use std::io::{BufRead, Write};
    let stdin = std::io::stdin();
    let stdout = std::io::stdout();
    for line in stdin.lock().lines() {
        let Ok(line) = line else { break };
        let a = child_answer(&line);
        let mut o = stdout.lock();
        let _ = writeln!(o, "{a}");
        let _ = o.flush();
    }
}

struct Worker {
    child: std::process::Child,
    stdin: std::process::ChildStdin,
    rx: std::sync::mpsc::Receiver<String>,
}
impl Worker {
    fn spawn() -> Worker {
        use std::io::BufRead;
        use std::process::{Command, Stdio};
        let exe = std::env::current_exe().expect("current_exe");
        let mut child = Command::new(exe).arg("masks-child").stdin(Stdio::piped()).stdout(Stdio::piped()).stderr(Stdio::null()).spawn().expect("spawn child");
        let stdin = child.stdin.take().unwrap();
        let stdout = child.stdout.take().unwrap();
        let (txc, rx) = std::sync::mpsc::channel();
        std::thread::spawn(move || {
            for line in std::io::BufReader::new(stdout).split(b'\n') {
                match line {
                    Ok(l) => {
                        if txc.send(String::from_utf8_lossy(&l).into_owned()).is_err() {
                            break;
                        }
                    }
                    Err(_) => break,
                }
            }
        });
        Worker { child, stdin, rx }
    }
}

/// what came back from the child
enum Reply {
    Line(String),
    Panic(String),
    /// the process died (abort, signal) or hung
    Crash(String),
}

impl Ctx {
    fn ask(&mut self, query: &str) -> Reply {
        use std::io::Write;
        if self.worker.is_none() {
            self.worker = Some(Worker::spawn());
            self.out.count("child processes started");
        }
        let w = self.worker.as_mut().unwrap();
        let sent = writeln!(w.stdin, "{query}").and_then(|_| w.stdin.flush());
        let got = if sent.is_ok() { w.rx.recv_timeout(std::time::Duration::from_secs(120)).ok() } else { None };
        match got {
            Some(a) if a.starts_with("obs ") || a.starts_with("rows ") || a.starts_with("verdict ") || a.starts_with("press ") => Reply::Line(a),
            Some(a) if a.starts_with("panic ") => Reply::Panic(a[6..].to_string()),
            other => {
                let mut w = self.worker.take().unwrap();
                let st = match w.child.try_wait() {
                    Ok(Some(st)) => format!("child process ended: {st}"),
                    _ => {
                        let _ = w.child.kill();
                        format!("child process hung or printed `{}`; killed ({:?})", other.unwrap_or_default().chars().take(40).collect::<String>(), w.child.wait().ok())
                    }
                };
                Reply::Crash(st)
            }
        }
    }
    fn world_query(w: &W) -> String {
        format!("{} {}", w.specs.iter().map(spec_text).collect::<Vec<_>>().join(";"), mask_str(&w.mask()))
    }
}

impl Ctx {
    fn holo(&mut self, w: &W, m: usize, f: &FilterSpec, tag: &str) {
        let op = format!("holo {m} {}", filter_text(f));
        let mk = mask_str(&w.mask());
        let replay = vec![w.geo_line(), format!("mask {mk}"), op.clone()];
        self.out.case(Some(fnv64(format!("holo:{tag}:{}:{mk}:{m}:{}", w.n(), filter_text(f)).as_bytes())));
        self.out.count(&format!("holo:{tag}:{}", if w.geo.num_devices() < m { "row-branch" } else { "ptr-branch" }));
        let q = format!("H {} {m} {} 0", Ctx::world_query(w), filter_text(f));
        let obs = match self.ask(&q) {
            Reply::Line(a) => match parse_obs(&a) {
                Some(o) => o,
                None => panic!("unparsable observation `{}`", a.chars().take(80).collect::<String>()),
            },
            Reply::Panic(p) => {
                self.out.line(&op, "panic");
                self.out.violation(
                    format!("holo:panic:{}:n={}:mask={mk}", panic_key(&p), w.n()),
                    format!("holographic gain panicked with enable mask {mk}, {m} foci, filter {}: {p}", filter_text(f)),
                    replay,
                );
                return;
            }
            Reply::Crash(st) => {
                self.out.line(&op, "crash");
                self.out.count("child crashes");
                self.out.violation(
                    format!("holo:crash:{tag}:n={}:mask={mk}", w.n()),
                    format!("generate_propagation_matrix / holographic gain killed the process (memory corruption) with enable mask {mk}, {m} foci, filter {}: {st}", filter_text(f)),
                    replay,
                );
                return;
            }
        };
        self.out.line(&op, &holo_answer(&obs));
        if f.is_some() && tag == "small" && w.n() >= 3 && w.mask().iter().any(|b| !*b) && w.geo.num_devices() >= 2 {
            self.sample_once("holo-filter", w, &format!("{op} → {}", holo_answer(&obs)));
        }
        // oracle 1: the column a transducer's transfer values were written to is the column its drive is read from;
        // the columns of the enabled (and selected) transducers are exactly 0..n, each once
        let mut bad: Option<String> = None;
        let mut col_of: HashMap<(usize, usize), usize> = HashMap::new();
        for (j, c) in obs.fill.iter().enumerate() {
            match c {
                None => bad = bad.or(Some(format!("column {j} of the transfer matrix holds no (or an ambiguous) transducer's values"))),
                Some(dt) => {
                    if col_of.insert(*dt, j).is_some() {
                        bad = bad.or(Some(format!("transducer {dt:?} fills two columns")));
                    }
                }
            }
        }
        let mut used = vec![false; obs.n];
        for (d, row) in &obs.read {
            for (t, r) in row.iter().enumerate() {
                match r {
                    Err(()) => bad = bad.or(Some(format!("device {d} transducer {t}: drive decodes to no index"))),
                    Ok(None) => {
                        if col_of.contains_key(&(*d, t)) {
                            bad = bad.or(Some(format!("device {d} transducer {t} fills column {} but reads nothing back", col_of[&(*d, t)])));
                        }
                    }
                    Ok(Some(k)) => {
                        if col_of.get(&(*d, t)) != Some(k) {
                            bad = bad.or(Some(format!("device {d} transducer {t} fills column {:?} but reads index {k}", col_of.get(&(*d, t)))));
                        }
                        if *k < obs.n {
                            if used[*k] {
                                bad = bad.or(Some(format!("index {k} read by two transducers")));
                            }
                            used[*k] = true;
                        }
                    }
                }
            }
        }
        if bad.is_none() && used.iter().any(|u| !*u) {
            bad = Some("some column is read by no transducer".into());
        }
        // oracle 2: identical to the geometry that contains only the enabled devices
        if bad.is_none() {
            let en = w.enabled();
            let q = format!("H {} {m} {} 1", Ctx::world_query(w), filter_text(f));
            match self.ask(&q) {
                Reply::Panic(p) => bad = Some(format!("restricted geometry panicked: {p}")),
                Reply::Crash(st) => bad = Some(format!("restricted geometry: {st}")),
                Reply::Line(a) => {
                    let r = parse_obs(&a).expect("observation");
                    let rank = |d: usize| en.iter().position(|x| *x == d);
                    let fill_m: Vec<_> = obs.fill.iter().map(|c| c.and_then(|(d, t)| rank(d).map(|k| (k, t)))).collect();
                    let read_m: Vec<_> = obs.read.iter().map(|(d, row)| (rank(*d).unwrap_or(usize::MAX), row.clone())).collect();
                    if obs.n != r.n || fill_m != r.fill || read_m != r.read {
                        bad = Some(format!("column maps differ from those in the geometry of the enabled devices only (n = {} vs {})", obs.n, r.n));
                    }
                }
            }
        }
        if let Some(b) = bad {
            self.out.violation(
                format!("holo:{tag}:n={}:mask={mk}", w.n()),
                format!("holographic index maps, {} devices, enable mask {mk}, {m} foci, filter {}: {b}", w.n(), filter_text(f)),
                replay,
            );
        }
    }

    fn greedy(&mut self, w: &W, f: &FilterSpec, tag: &str) {
        let op = format!("greedy {}", filter_text(f));
        let mk = mask_str(&w.mask());
        let replay = vec![w.geo_line(), format!("mask {mk}"), op.clone()];
        self.out.case(Some(fnv64(format!("greedy:{tag}:{}:{mk}:{}", w.n(), filter_text(f)).as_bytes())));
        self.out.count(&format!("greedy:{tag}"));
        let q = format!("G {} {} 0", Ctx::world_query(w), filter_text(f));
        let rows = match self.ask(&q) {
            Reply::Line(a) => parse_rows(&a).expect("rows"),
            Reply::Panic(p) => {
                self.out.line(&op, "panic");
                self.out.violation(
                    format!("greedy:panic:{}:n={}:mask={mk}", panic_key(&p), w.n()),
                    format!("Greedy panicked with enable mask {mk}, filter {}: {p}", filter_text(f)),
                    replay,
                );
                return;
            }
            Reply::Crash(st) => {
                self.out.line(&op, "crash");
                self.out.violation(format!("greedy:crash:{tag}:n={}:mask={mk}", w.n()), format!("Greedy killed the process with enable mask {mk}: {st}"), replay);
                return;
            }
        };
        let ans = short_or_hash(rows.iter().map(|(i, b)| format!("{i}:{}", mask_str(b))).collect::<Vec<_>>().join(";"));
        self.out.line(&op, &ans);
        // oracle: assigned = enabled ∧ selected; identical in the restricted geometry
        let mut bad = None;
        for (d, row) in &rows {
            let want: Vec<bool> = match f {
                None => vec![true; w.geo[*d].num_transducers()],
                Some(es) => match es[*d].bits() {
                    None => vec![false; w.geo[*d].num_transducers()],
                    Some(b) => b[..w.geo[*d].num_transducers()].to_vec(),
                },
            };
            if *row != want {
                bad = Some(format!("device {d}: assigned transducers {} ≠ selected {}", mask_str(row), mask_str(&want)));
            }
        }
        if rows.iter().map(|r| r.0).collect::<Vec<_>>() != w.enabled() {
            bad = Some("calculators exist for other devices than the enabled ones".into());
        }
        if bad.is_none() {
            let q = format!("G {} {} 1", Ctx::world_query(w), filter_text(f));
            match self.ask(&q) {
                Reply::Panic(p) => bad = Some(format!("restricted geometry panicked: {p}")),
                Reply::Crash(st) => bad = Some(format!("restricted geometry: {st}")),
                Reply::Line(a) => {
                    let r = parse_rows(&a).expect("rows");
                    let a: Vec<_> = rows.iter().map(|x| x.1.clone()).collect();
                    let b: Vec<_> = r.iter().map(|x| x.1.clone()).collect();
                    if a != b {
                        bad = Some("assignment differs from the geometry of the enabled devices only".into());
                    }
                }
            }
        }
        // the values (oracle only, NUMERICAL SUPPORT CHECK — Greedy shuffles with a thread-local RNG, its drives are not
        // reproducible): the pressure at one target, requested at half of what the selected transducers can deliver,
        // is the same with the disabled devices present and in the geometry of the enabled devices only
        let selected: usize = rows.iter().map(|r| r.1.iter().filter(|b| **b).count()).sum();
        if bad.is_none() && selected >= GREEDY_MIN_SELECTED {
            let mut ps = vec![];
            for restricted in [0, 1] {
                let q = format!("P {} {} {restricted}", Ctx::world_query(w), filter_text(f));
                match self.ask(&q) {
                    Reply::Panic(p) => bad = Some(format!("pressure run (restricted = {restricted}) panicked: {p}")),
                    Reply::Crash(st) => bad = Some(format!("pressure run (restricted = {restricted}): {st}")),
                    Reply::Line(a) => ps.push(parse_press(&a).expect("press")),
                }
            }
            if let [(a_m, p_m), (a_r, p_r)] = ps[..] {
                self.out.count("greedy:pressure masked-vs-restricted (oracle only)");
                let dev = (p_m / p_r - 1.0).abs().max((p_m / a_m - 1.0).abs());
                self.greedy_worst = self.greedy_worst.max(dev);
                if a_m.to_bits() != a_r.to_bits() {
                    bad = Some(format!("the full-power reference differs ({a_m} vs {a_r} Pa): harness"));
                } else if !((p_m / p_r - 1.0).abs() <= TH_GREEDY_MASK) || !((p_m / a_m - 1.0).abs() <= TH_GREEDY_MASK) {
                    bad = Some(format!(
                        "requested {a_m:.1} Pa (half of the aligned-phase pressure of the {selected} selected transducers): the drives deliver {p_m:.1} Pa ({:+.1} %) with the disabled devices present, {p_r:.1} Pa in the geometry of the enabled devices only",
                        (p_m / a_m - 1.0) * 100.0
                    ));
                }
            }
        }
        if let Some(b) = bad {
            self.out.violation(format!("greedy:{tag}:n={}:mask={mk}", w.n()), format!("Greedy, enable mask {mk}, filter {}: {b}", filter_text(f)), replay);
        }
    }

    /// datagram classes whose payload is computed in floating point from the poses (no model line):
    /// masked world vs the world of the enabled devices only, frame by frame
    fn float_class<D, F>(&mut self, w: &mut W, name: &str, make: F)
    where
        F: Fn() -> D,
        D: Datagram,
        AUTDDriverError: From<D::Error>,
        D::G: OperationGenerator,
        AUTDDriverError: From<<<D::G as OperationGenerator>::O1 as Operation>::Error>
            + From<<<D::G as OperationGenerator>::O2 as Operation>::Error>,
    {
        let (o, tx, verdict) = float_verdict(w, make);
        self.float_report(w, name, &o.result, verdict);
        w.tx = tx;
    }

    fn float_report(&mut self, w: &W, name: &str, result: &str, verdict: Option<String>) {
        let m = mask_str(&w.mask());
        let nontrivial = w.mask().iter().any(|b| !*b);
        self.out.case(if nontrivial { Some(fnv64(format!("float:{name}:{}:{m}", w.n()).as_bytes())) } else { None });
        self.out.count(&format!("float:{name}"));
        self.out.count(&format!("result:{}", result.split(':').take(2).collect::<Vec<_>>().join(":")));
        if let Some(b) = verdict {
            let replay = vec![w.geo_line(), format!("mask {m}"), format!("send <{name}> (floating-point class: implementation oracle only)")];
            self.out.violation(format!("float:{name}:n={}:mask={m}", w.n()), format!("datagram {name}, {} devices, enable mask {m}: {b}", w.n()), replay);
        }
    }

    /// a holographic datagram class: in the child process (tx buffers pre-filled from `seed` there)
    fn float_holo(&mut self, w: &W, name: &str, m: usize, seed: u64) {
        let q = format!("F {} {seed} {name} {m}", Ctx::world_query(w));
        match self.ask(&q) {
            Reply::Line(a) => {
                let rest = a.strip_prefix("verdict ").expect("verdict");
                let (result, v) = rest.split_once(' ').unwrap_or((rest, ""));
                self.float_report(w, name, result, if v.is_empty() { None } else { Some(v.to_string()) });
            }
            Reply::Panic(p) => self.float_report(w, name, "panic", Some(format!("panicked: {p}"))),
            Reply::Crash(st) => {
                self.out.count("child crashes");
                self.float_report(w, name, "crash", Some(format!("killed the process (memory corruption): {st}")))
            }
        }
    }
}

// ------------------------------------------------------------------------------------ generators

fn autd3_world(n: usize, rng: Option<&mut Rng>) -> Vec<DevSpec> {
    match rng {
        None => (0..n)
            .map(|i| {
                let k = i as f32;
                DevSpec::Autd3 {
                    pos: [193.0 * k + 7.0 * k * k + 10.0, 11.0 * k * k - 5.0, -3.0 * k + 2.0],
                    rot: if i % 2 == 1 { [37.0 * k, 13.0 * k, 5.0] } else { [0.0, 0.0, 0.0] },
                }
            })
            .collect(),
        Some(r) => (0..n)
            .map(|i| DevSpec::Autd3 {
                // distinct by construction (x grows with i), otherwise random
                pos: [200.0 * i as f32 + r.below(150) as f32 + 0.25 * r.below(4) as f32, r.below(400) as f32 - 200.0, r.below(100) as f32 - 50.0],
                rot: if r.chance(1, 2) { [r.below(360) as f32, r.below(180) as f32, r.below(360) as f32] } else { [0.0, 0.0, 0.0] },
            })
            .collect(),
    }
}

/// hand-made units with 1..6 transducers each (different counts, distinct positions)
fn small_world(n: usize, salt: usize) -> Vec<DevSpec> {
    (0..n)
        .map(|i| {
            let k = 1 + (2 * i + 1 + salt) % 6;
            DevSpec::Small {
                pts: (0..k).map(|j| [50.0 * i as f32 + 10.16 * j as f32 + 1.0, 20.0 * i as f32 + 0.5 * (j * j) as f32, i as f32 - 2.0 * j as f32]).collect(),
            }
        })
        .collect()
}

/// AUTD3 units and hand-made ones mixed (different `num_transducers` per device)
fn mixed_world(n: usize) -> Vec<DevSpec> {
    let a = autd3_world(n, None);
    let s = small_world(n, 3);
    (0..n).map(|i| if i % 2 == 0 { a[i].clone() } else { s[i].clone() }).collect()
}

fn origin_world(n: usize) -> Vec<DevSpec> {
    (0..n).map(|_| DevSpec::Autd3 { pos: [0.0; 3], rot: [0.0; 3] }).collect()
}

fn all_masks(n: usize) -> Vec<Vec<bool>> {
    (0..(1usize << n)).map(|b| (0..n).map(|i| (b >> i) & 1 == 1).collect()).collect()
}

const IMM: Option<(u8, u64)> = Some((0xFF, 0));

/// model-compared datagram classes whose content does not depend on the pose (per-device content keyed by uid)
fn wire_specs(rng: &mut Rng, full: bool) -> Vec<(Spec, Option<Spec>)> {
    let s = |rng: &mut Rng| rng.below(1 << 30);
    let mut v: Vec<(Spec, Option<Spec>)> = vec![
        (Spec::Clear, None),
        (Spec::Sync, None),
        (Spec::Fan(true), None),
        (Spec::Reads(true), None),
        (Spec::CpuGpio(0xA0), None),
        (Spec::GpioIn(5), None),
        (Spec::Debug([0x0100000000000000, 0x2100000000000123, 0x5100000000000007, 0xF000000000000001]), None),
        (Spec::PhaseCorr(s(rng)), None),
        (Spec::Pwe(s(rng)), None),
        (Spec::SilSteps(10, 40, true), None),
        (Spec::SilRate(3, 7), None),
        (Spec::Gain { seg: 0, tr: IMM, seed: s(rng) }, None),
        (Spec::Gain { seg: 1, tr: None, seed: s(rng) }, None),
        (Spec::Mod { seg: 0, tr: IMM, rep: 0xFFFF, div: 10, n: 2, seed: s(rng) }, None),
        (Spec::Mod { seg: 1, tr: None, rep: 3, div: 5120, n: 900, seed: s(rng) }, None),
        (Spec::GainStm { mode: 0, seg: 0, tr: IMM, rep: 0xFFFF, div: 100, size: 3, seed: s(rng) }, None),
        (Spec::GainStm { mode: 1, seg: 1, tr: None, rep: 0, div: 100, size: 5, seed: s(rng) }, None),
        (Spec::GainStm { mode: 2, seg: 0, tr: Some((0, 0)), rep: 0xFFFF, div: 100, size: 9, seed: s(rng) }, None),
        (Spec::SwapGain(1, (0xFF, 0)), None),
        (Spec::SwapMod(1, (0, 0)), None),
        (Spec::FirmInfo(1), None),
        // rejected at pack time: the first enabled device's message id is advanced, nothing else
        (Spec::Gain { seg: 0, tr: Some((0, 0)), seed: s(rng) }, None),
        (Spec::SwapGain(0, (0, 0)), None),
        // two operations in one frame / spilling into the next
        (Spec::SilSteps(10, 40, false), Some(Spec::Gain { seg: 0, tr: IMM, seed: s(rng) })),
        (Spec::Mod { seg: 0, tr: IMM, rep: 0xFFFF, div: 10, n: 300, seed: s(rng) }, Some(Spec::Gain { seg: 0, tr: IMM, seed: s(rng) })),
        (Spec::Gain { seg: 1, tr: IMM, seed: s(rng) }, Some(Spec::Mod { seg: 1, tr: IMM, rep: 0xFFFF, div: 10, n: 700, seed: s(rng) })),
    ];
    if full {
        v.extend([
            (Spec::PweDefault, None),
            (Spec::SwapFoci(0, (1, 12345)), None),
            (Spec::SwapGainStm(1, (2, 1)), None),
            (Spec::Mod { seg: 0, tr: Some((0, 0)), rep: 0xFFFF, div: 10, n: 254, seed: s(rng) }, None),
            (Spec::Mod { seg: 0, tr: IMM, rep: 0xFFFF, div: 10, n: 255, seed: s(rng) }, None),
            (Spec::Mod { seg: 0, tr: IMM, rep: 0xFFFF, div: 10, n: 4000, seed: s(rng) }, None),
            (Spec::GainStm { mode: 2, seg: 1, tr: IMM, rep: 7, div: 100, size: 2, seed: s(rng) }, None),
            (Spec::GainStm { mode: 0, seg: 1, tr: IMM, rep: 7, div: 100, size: 40, seed: s(rng) }, None),
            (Spec::Mod { seg: 0, tr: IMM, rep: 0xFFFF, div: 10, n: 1000, seed: s(rng) }, Some(Spec::GainStm { mode: 1, seg: 0, tr: IMM, rep: 0xFFFF, div: 100, size: 3, seed: s(rng) })),
            (Spec::PhaseCorr(s(rng)), Some(Spec::Pwe(s(rng)))),
        ]);
    }
    v
}

/// FociSTM classes (model-compared only in the all-at-origin geometry: the fixed-point records depend on the pose)
fn foci_specs(rng: &mut Rng) -> Vec<Spec> {
    vec![
        Spec::Foci { n: 1, seg: 0, tr: IMM, rep: 0xFFFF, div: 100, ss: 21760, size: 2, seed: rng.below(1 << 30) },
        Spec::Foci { n: 3, seg: 1, tr: None, rep: 2, div: 100, ss: 21760, size: 60, seed: rng.below(1 << 30) },
        Spec::Foci { n: 8, seg: 0, tr: Some((0, 0)), rep: 0xFFFF, div: 100, ss: 21760, size: 20, seed: rng.below(1 << 30) },
    ]
}

fn rand_mock(rng: &mut Rng) -> MockSpec {
    let required = *rng.pick(&[4usize, 10, 322, 618]);
    let pack_size = match rng.below(6) {
        0 => 4,
        1 => 300,
        2 => 622 - required,
        3 => (623 - required).min(622),
        4 => 618,
        _ => 4 + rng.below(600) as usize,
    };
    let frames = rng.below(4) as usize;
    let broken_at = if rng.chance(1, 8) && frames > 0 { 1 + rng.below(frames as u64) as usize } else { 0 };
    MockSpec { tag: 0xA0 + rng.below(16) as u8, pack_size, required, frames, broken_at }
}

fn mock_sets(rng: &mut Rng, k: usize) -> Vec<(&'static str, usize, MockOps)> {
    let ok = |tag: u8, p: usize, r: usize, f: usize| MockSpec { tag, pack_size: p, required: r, frames: f, broken_at: 0 };
    let mut v: Vec<(&'static str, usize, MockOps)> = vec![];
    // every branch of pack_op2, one after the other over the enabled devices (cyclic)
    let branches = [
        (ok(0xA1, 8, 4, 0), ok(0xB1, 8, 4, 0)),
        (ok(0xA2, 8, 4, 0), ok(0xB2, 8, 4, 2)),
        (ok(0xA3, 8, 4, 2), ok(0xB3, 8, 4, 0)),
        (ok(0xA4, 300, 4, 1), ok(0xB4, 10, 322, 1)),
        (ok(0xA5, 301, 4, 1), ok(0xB5, 10, 322, 1)),
        (ok(0xA6, 618, 4, 2), ok(0xB6, 4, 4, 1)),
    ];
    for shift in 0..2 {
        v.push(("branches", 4, (0..k).map(|i| Some(branches[(i + shift * 3) % branches.len()].clone())).collect()));
    }
    // `None` entries (what group_send hands over)
    v.push(("none", 3, (0..k).map(|i| if i % 2 == 0 { None } else { Some((ok(0xA7, 8, 4, 2), ok(0xB7, 8, 4, 1))) }).collect()));
    // a failing pack at each position, in the first or the second operation, first or later frame
    for pos in 0..k.min(3) {
        for second in [false, true] {
            let bad = MockSpec { tag: 0xE0, pack_size: 8, required: 4, frames: 2, broken_at: if pos % 2 == 0 { 2 } else { 1 } };
            let good = ok(0xA8, 8, 4, 2);
            v.push((
                "broken",
                5,
                (0..k).map(|i| Some(if i == pos { if second { (good.clone(), bad.clone()) } else { (bad.clone(), good.clone()) } } else { (good.clone(), good.clone()) })).collect(),
            ));
        }
    }
    // fewer / more operations than enabled devices (the zip stops at the shorter side)
    if k > 0 {
        v.push(("short", 3, (0..k - 1).map(|_| Some((ok(0xA9, 8, 4, 1), ok(0xB9, 8, 4, 1)))).collect()));
    }
    v.push(("long", 3, (0..k + 2).map(|_| Some((ok(0xAA, 8, 4, 1), ok(0xBA, 8, 4, 0)))).collect()));
    // a round limit below what the operations need
    v.push(("cut", 1, (0..k).map(|_| Some((ok(0xAB, 8, 4, 3), ok(0xBB, 8, 4, 0)))).collect()));
    // random
    v.push(("random", 6, (0..k).map(|_| if rng.chance(1, 6) { None } else { Some((rand_mock(rng), rand_mock(rng))) }).collect()));
    v
}

fn filters_for(w: &W, rng: &mut Rng, big: bool) -> Vec<FilterSpec> {
    let n = w.n();
    let nt: Vec<usize> = w.geo.iter().map(|d| d.num_transducers()).collect();
    let bits = |rng: &mut Rng, i: usize| -> FEntry {
        if big { FEntry::Rand(rng.below(1 << 30), nt[i]) } else { FEntry::Bits((0..nt[i]).map(|_| rng.chance(1, 2)).collect()) }
    };
    let mut v: Vec<FilterSpec> = vec![None];
    v.push(Some((0..n).map(|i| bits(rng, i)).collect()));
    v.push(Some((0..n).map(|i| if (i + rng.below(2) as usize) % 2 == 0 { FEntry::Absent } else { bits(rng, i) }).collect()));
    if !big {
        v.push(Some((0..n).map(|i| FEntry::Bits(vec![i % 2 == 0; nt[i]])).collect()));
        v.push(Some((0..n).map(|i| FEntry::Bits((0..nt[i]).map(|t| t == 0 || t + 1 == nt[i]).collect())).collect()));
    }
    v
}

/// everything for one (world, mask)
fn mask_case(ctx: &mut Ctx, w: &mut W, mask: &[bool], rng: &mut Rng, tag: &str, level: u8) {
    ctx.mask(w, mask);
    ctx.agg(w, tag);
    let k = mask.iter().filter(|b| **b).count();
    // datagram classes (model-compared)
    for (a, b) in wire_specs(rng, level >= 2) {
        ctx.tx_init(w, rng.below(1 << 30));
        ctx.send(w, &a, b.as_ref(), true);
    }
    // two sends without re-initialising the buffers in between: message ids continue per device
    ctx.send(w, &Spec::Clear, None, true);
    ctx.send(w, &Spec::Sync, None, true);
    if level >= 1 {
        for (name, rounds, ops) in mock_sets(rng, k) {
            ctx.tx_init(w, rng.below(1 << 30));
            ctx.mock(w, rounds, &ops, name);
        }
    }
    // setters
    ctx.sound_speed(w, false, (340.0f32 * 1000.0 + rng.below(9000) as f32).to_bits());
    ctx.sound_speed(w, true, (rng.below(45) as f32 + 0.25 * rng.below(4) as f32).to_bits());
    ctx.agg(w, tag);
}

fn float_classes(ctx: &mut Ctx, w: &mut W, rng: &mut Rng, holo: bool) {
    let p = Point3::new(30.0 + rng.below(200) as f32, -40.0 + rng.below(100) as f32, 150.0 + rng.below(50) as f32);
    ctx.tx_init(w, rng.below(1 << 30));
    ctx.float_class(w, "Focus", || Focus::new(p, FocusOption::default()));
    ctx.float_class(w, "Plane", || Plane::new(Vector3::z_axis(), PlaneOption::default()));
    ctx.float_class(w, "Bessel", || Bessel::new(p, Vector3::z_axis(), 0.3 * rad, BesselOption::default()));
    ctx.float_class(w, "Uniform", || Uniform::new(EmitIntensity(0x80), Phase(0x40)));
    ctx.float_class(w, "Null", Null::new);
    ctx.float_class(w, "Sine", || Sine::new(150 * Hz, SineOption::default()));
    ctx.float_class(w, "FociSTM<1>", || {
        let pts: Vec<ControlPoints<1>> = (0..30).map(|i| ControlPoints::from(p + Vector3::new(i as f32, 0.5 * i as f32, 0.0))).collect();
        WithLoopBehavior::new(FociSTM::new(pts, fwc::to_div(100)), LoopBehavior::Infinite, Segment::S0, Some(TransitionMode::Immediate))
    });
    ctx.float_class(w, "FociSTM<2>", || {
        let pts: Vec<ControlPoints<2>> = (0..100)
            .map(|i| ControlPoints::new([ControlPoint::new(p + Vector3::new(i as f32, 0.0, 0.0), Phase(0)), ControlPoint::new(p - Vector3::new(0.0, i as f32, 0.0), Phase(i as u8))], EmitIntensity(200)))
            .collect();
        WithLoopBehavior::new(FociSTM::new(pts, fwc::to_div(100)), LoopBehavior::Infinite, Segment::S1, None)
    });
    ctx.float_class(w, "GainSTM<Focus>", || {
        let gains: Vec<Focus> = (0..5).map(|i| Focus::new(p + Vector3::new(3.0 * i as f32, 0.0, 0.0), FocusOption::default())).collect();
        WithLoopBehavior::new(
            GainSTM::new(gains, fwc::to_div(100), GainSTMOption { mode: GainSTMMode::PhaseIntensityFull }),
            LoopBehavior::Infinite,
            Segment::S0,
            Some(TransitionMode::Immediate),
        )
    });
    if holo {
        let nd = w.geo.num_devices();
        for m in [1usize, 2, nd + 1] {
            ctx.float_holo(w, "holo::Naive", m, rng.below(1 << 30));
        }
        ctx.float_holo(w, "holo::GS", 2, rng.below(1 << 30));
        ctx.float_holo(w, "holo::GSPAT", nd + 1, rng.below(1 << 30));
        // a holographic gain behind a Group: the filters reach `generate_propagation_matrix` / `generate_result`
        ctx.float_holo(w, "Group{holo::Naive}", 2, rng.below(1 << 30));
        if w.n() <= 3 {
            // the iterative solvers with a partial filter under the mask (foci count on both sides of the path switch)
            ctx.float_holo(w, "Group{holo::GS}", 2, rng.below(1 << 30));
            ctx.float_holo(w, "Group{holo::GSPAT}", nd + 1, rng.below(1 << 30));
            ctx.float_holo(w, "Group{holo::LM}", 2, rng.below(1 << 30));
            ctx.float_holo(w, "holo::LM", 1, rng.below(1 << 30));
        }
    }
}

fn holo_cases(ctx: &mut Ctx, w: &W, rng: &mut Rng, big: bool, tag: &str) {
    let nd = w.geo.num_devices();
    let ms: Vec<usize> = if big { vec![1, nd + 1] } else { vec![1, 2, nd + 1] };
    for f in filters_for(w, rng, big) {
        for &m in &ms {
            ctx.holo(w, m, &f, tag);
        }
        ctx.greedy(w, &f, tag);
    }
}

pub fn run(args: &Args) {
    if args.stream == "masks-child" {
        child_main();
        return;
    }
    // a panic outside `guarded` is a harness defect: say where, fail the stream
    if let Err(p) = guarded(|| run_inner(args)) {
        eprintln!("masks: harness panic: {p}");
        std::process::exit(101);
    }
}

fn run_inner(args: &Args) {
    let mut ctx = Ctx { greedy_worst: 0.0, out: Out::new(&args.out), sampled: vec![], worker: None };
    let thorough = args.tier == "thorough";
    let mut rng = Rng::new(args.seed ^ 0xC12);

    // ---- corpus: the F10 witness (two devices, the second disabled; then the first) and its 3-device form
    {
        let mut w = W::new(autd3_world(2, None));
        ctx.start(&w);
        for m in [[true, false], [false, true]] {
            ctx.mask(&mut w, &m);
            ctx.agg(&w, "F10");
        }
        let mut w = W::new(autd3_world(3, None));
        ctx.start(&w);
        ctx.mask(&mut w, &[true, false, true]);
        ctx.agg(&w, "F10");
        ctx.out.sample(format!("{} / mask 10 / agg", w.geo_line().chars().take(160).collect::<String>()));
    }

    // ---- all 2^n masks, n ≤ 5
    for n in 1..=5usize {
        // full AUTD3 units with distinct poses: aggregates, setters, every datagram class, scripted operations
        let mut w = W::new(autd3_world(n, None));
        ctx.start(&w);
        for mask in all_masks(n) {
            mask_case(&mut ctx, &mut w, &mask, &mut rng, "exhaustive", if thorough { 2 } else { 1 });
            if n <= 3 || thorough || mask.iter().filter(|b| !**b).count() == 1 {
                float_classes(&mut ctx, &mut w, &mut rng, n <= 4);
            }
            if n <= 3 || thorough {
                holo_cases(&mut ctx, &w, &mut rng, true, "autd3");
            }
        }
        // hand-made small units / mixed: explicit column maps; mixed also through every datagram class
        let w = &mut W::new(small_world(n, 0));
        ctx.start(w);
        for mask in all_masks(n) {
            ctx.mask(w, &mask);
            ctx.agg(w, "small");
            holo_cases(&mut ctx, w, &mut rng, false, "small");
        }
        let w = &mut W::new(mixed_world(n));
        ctx.start(w);
        for mask in all_masks(n) {
            if thorough || n <= 3 {
                mask_case(&mut ctx, w, &mask, &mut rng, "mixed", 1);
            } else {
                ctx.mask(w, &mask);
                ctx.agg(w, "mixed");
            }
        }
        // all devices at the origin: FociSTM records are pose independent → model-compared
        let mut w = W::new_any(origin_world(n));
        ctx.start(&w);
        for mask in all_masks(n) {
            ctx.mask(&mut w, &mask);
            for s in foci_specs(&mut rng) {
                ctx.tx_init(&mut w, rng.below(1 << 30));
                ctx.send(&mut w, &s, None, true);
            }
            ctx.tx_init(&mut w, rng.below(1 << 30));
            ctx.send(&mut w, &Spec::Foci { n: 2, seg: 0, tr: IMM, rep: 0xFFFF, div: 100, ss: 21760, size: 4, seed: 77 }, Some(&Spec::SilRate(1, 1)), true);
        }
        // reconfigure under every mask: enable flags and sound speeds stay, everything else is rebuilt
        let mut w = W::new(autd3_world(n, None));
        ctx.start(&w);
        for (k, mask) in all_masks(n).into_iter().enumerate() {
            ctx.mask(&mut w, &mask);
            ctx.sound_speed(&mut w, false, (330000.0f32 + k as f32).to_bits());
            let new_specs = if k % 2 == 0 { mixed_world(n) } else { autd3_world(n, Some(&mut rng)) };
            ctx.reconf(&mut w, new_specs);
            ctx.agg(&w, "reconf");
            ctx.tx_init(&mut w, rng.below(1 << 30));
            ctx.send(&mut w, &Spec::Gain { seg: 0, tr: IMM, seed: rng.below(1 << 30) }, None, true);
        }
    }

    // ---- random masks, 6 ≤ n ≤ 16
    let rounds = if thorough { 200 } else { 10 };
    for r in 0..rounds {
        let n = if r < 3 { [16usize, 6, 11][r] } else { rng.range(6, 16) as usize };
        let mut w = W::new(autd3_world(n, Some(&mut rng)));
        ctx.start(&w);
        let masks: Vec<Vec<bool>> = (0..if thorough { 6 } else { 3 })
            .map(|j| match (r + j) % 5 {
                0 => (0..n).map(|i| i != n / 2).collect(),          // exactly one disabled
                1 => (0..n).map(|i| i == n - 1).collect(),          // exactly one enabled (the last)
                2 => (0..n).map(|i| i % 2 == 1).collect(),          // first disabled, alternating
                _ => (0..n).map(|_| rng.chance(1, 2)).collect(),
            })
            .collect();
        for mask in masks {
            mask_case(&mut ctx, &mut w, &mask, &mut rng, "random", if thorough { 2 } else { 1 });
            if r % 3 == 0 {
                float_classes(&mut ctx, &mut w, &mut rng, false);
            }
        }
        let w = &mut W::new(if r % 2 == 0 { small_world(n, r) } else { mixed_world(n) });
        ctx.start(w);
        for _ in 0..(if thorough { 6 } else { 3 }) {
            let mask: Vec<bool> = (0..n).map(|_| rng.chance(2, 3)).collect();
            ctx.mask(w, &mask);
            ctx.agg(w, "random-small");
            holo_cases(&mut ctx, w, &mut rng, r % 2 == 1, "random");
        }
    }
    let worst = (ctx.greedy_worst * 1e4).round() as u64;
    ctx.out.notes.push(format!("Greedy pressure check (oracle only, threshold {TH_GREEDY_MASK}): worst deviation seen x1e4 = {worst} (Greedy shuffles with rand::rng(): varies from run to run)"));
    ctx.out.finish(
        "masks",
        "a case is one operation (aggregate, setter, reconfigure, datagram send, scripted pack, column map) under one enable mask of one geometry; non-trivial = at least one device disabled (setters, scripted packs and column maps always); distinct by (operation kind, generator, device count, mask[, filter]). Oracle-only dimensions (no model line): float:* classes incl. Group{holo::GS/GSPAT/LM} (partial filter under the mask, n <= 3), `parallel-pack-runs of a FAILING pack` (sends refused by pack and broken scripted sets with parallel = true), `greedy:pressure masked-vs-restricted` (>= 100 selected transducers)",
    );
}
