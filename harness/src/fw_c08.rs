//! `fw_c08` (C08: strict silencer mode cannot be circumvented) and `fw_c19` (C19: the firmware model
//! never aborts on anything the SDK can send).  Both explore operation sequences over small alphabets,
//! bounded-exhaustively and at random, with aborted (cut) sends; every answer goes to the Lean model.
use crate::common::*;
use crate::fw_c01::T0;
use crate::fwc::*;
use autd3::prelude::Segment;

/// One letter of a history.  In every spec a **SysTime transition value is a delta**: `apply` adds the session
/// clock at send time, so that the same letter is "20 ms ahead" (accepted) or "1 us ahead" (missed) wherever it
/// stands in a history; `desc()` (case identity, violation keys) shows the delta, the op line the absolute value.
#[derive(Clone)]
pub enum Step {
    Send(Spec),
    Abort(usize, Spec),
    /// two datagrams in one frame (`send pair a | b`)
    Pair(Spec, Spec),
    Clk(u64),
    Read,
    Thermo(bool),
}

impl Step {
    fn desc(&self) -> String {
        match self {
            Step::Send(s) => s.text(),
            Step::Abort(k, s) => format!("abort{k}:{}", s.text()),
            Step::Pair(a, b) => format!("pair:{}|{}", a.text(), b.text()),
            Step::Clk(d) => format!("clk+{d}"),
            Step::Read => "read".into(),
            Step::Thermo(b) => format!("thermo{}", *b as u8),
        }
    }
    fn specs(&self) -> Vec<&Spec> {
        match self {
            Step::Send(s) | Step::Abort(_, s) => vec![s],
            Step::Pair(a, b) => vec![a, b],
            _ => vec![],
        }
    }
}

fn at(t: (u8, u64), now: u64) -> (u8, u64) {
    if t.0 == 0x01 { (t.0, now + t.1) } else { t }
}
/// the spec that is really sent: SysTime deltas resolved against the session clock
fn resolve(spec: &Spec, now: u64) -> Spec {
    let mut s = spec.clone();
    match &mut s {
        Spec::Gain { tr, .. } | Spec::Mod { tr, .. } | Spec::ModRaw { tr, .. } | Spec::Foci { tr, .. } | Spec::GainStm { tr, .. } => *tr = tr.map(|t| at(t, now)),
        Spec::SwapGain(_, t) | Spec::SwapMod(_, t) | Spec::SwapFoci(_, t) | Spec::SwapGainStm(_, t) => *t = at(*t, now),
        _ => {}
    }
    s
}

fn spec_tr(s: &Spec) -> Option<Tr> {
    match s {
        Spec::Gain { tr, .. } | Spec::Mod { tr, .. } | Spec::ModRaw { tr, .. } | Spec::Foci { tr, .. } | Spec::GainStm { tr, .. } => Some(*tr),
        Spec::SwapGain(_, t) | Spec::SwapMod(_, t) | Spec::SwapFoci(_, t) | Spec::SwapGainStm(_, t) => Some(Some(*t)),
        _ => None,
    }
}
fn spec_rep(s: &Spec) -> Option<u16> {
    match s {
        Spec::Mod { rep, .. } | Spec::ModRaw { rep, .. } | Spec::Foci { rep, .. } | Spec::GainStm { rep, .. } => Some(*rep),
        _ => None,
    }
}
/// evidence counters of the input dimensions of one letter (transition mode, loop behaviour, tuple, clock)
fn count_dims(out: &mut Out, st: &Step) {
    match st {
        Step::Pair(..) => out.count("dim:pair"),
        Step::Abort(..) => out.count("dim:cut-send"),
        Step::Clk(_) => out.count("dim:clk"),
        _ => {}
    }
    for s in st.specs() {
        if let Some(tr) = spec_tr(s) {
            out.count(match tr {
                None => "dim:tr=none",
                Some((0xFF, _)) => "dim:tr=immediate",
                Some((0xF0, _)) => "dim:tr=ext",
                Some((0x00, _)) => "dim:tr=syncidx",
                Some((0x02, _)) => "dim:tr=gpio",
                Some((0x01, d)) if d < 10_000_000 => "dim:tr=systime-missed",
                Some((0x01, _)) => "dim:tr=systime",
                Some(_) => "dim:tr=other",
            });
        }
        if let Some(rep) = spec_rep(s) {
            out.count(if rep == 0xFFFF { "dim:loop=infinite" } else { "dim:loop=finite" });
        }
    }
}

fn apply(s: &mut Session, st: &Step) -> String {
    let now = s.w.t;
    match st {
        Step::Send(x) => s.send(&resolve(x, now)),
        Step::Abort(k, x) => s.abort(*k, &resolve(x, now)),
        Step::Pair(a, b) => s.pair(&resolve(a, now), &resolve(b, now)),
        Step::Clk(d) => {
            let t = s.w.t + d;
            s.clk(t)
        }
        Step::Read => s.read(),
        Step::Thermo(b) => {
            s.thermo(0, *b);
            "ok".into()
        }
    }
}

/// C08 invariant on the implementation; `None` = holds
fn silencer_guard(w: &World) -> Option<String> {
    for (d, cpu) in w.cpus.iter().enumerate() {
        let f = cpu.fpga();
        let r = guarded(|| {
            if cpu.silencer_strict_mode() && f.silencer_fixed_completion_steps_mode() {
                let st = f.silencer_completion_steps();
                let need_stm = st.intensity.get().max(st.phase.get());
                let sd = f.stm_freq_division(f.req_stm_segment());
                let md = f.modulation_freq_division(f.req_modulation_segment());
                if sd < need_stm {
                    return Some(format!(
                        "dev {d}: strict fixed-steps silencer ({}/{}) but the requested STM segment {:?} samples with division {sd}",
                        st.intensity.get(), st.phase.get(), f.req_stm_segment()
                    ));
                }
                if md < st.intensity.get() {
                    return Some(format!(
                        "dev {d}: strict fixed-steps silencer (intensity steps {}) but the requested modulation segment {:?} samples with division {md}",
                        st.intensity.get(), f.req_modulation_segment()
                    ));
                }
            }
            None
        });
        match r {
            Ok(Some(m)) => return Some(m),
            Ok(None) => {}
            Err(p) => return Some(format!("dev {d}: read-back panicked: {p}")),
        }
    }
    None
}

/// device 0, one entry per resource of `ALL_RES`
fn res_vec(w: &World) -> Vec<String> {
    ALL_RES.iter().map(|r| format!("{}|{}", res_obs(&w.cpus[0], *r), res_dyn(&w.cpus[0], *r))).collect()
}

/// what the guard compares, taken from the implementation's public read-back (device 0) before a step
struct Limits {
    strict: bool,
    i: u16,
    p: u16,
    stm_div: [u16; 2],
    mod_div: [u16; 2],
    stm_req: usize,
    mod_req: usize,
}
fn limits(w: &World) -> Option<Limits> {
    let cpu = &w.cpus[0];
    let f = cpu.fpga();
    guarded(|| {
        let st = f.silencer_completion_steps();
        Limits {
            strict: cpu.silencer_strict_mode(),
            i: st.intensity.get(),
            p: st.phase.get(),
            stm_div: [f.stm_freq_division(Segment::S0), f.stm_freq_division(Segment::S1)],
            mod_div: [f.modulation_freq_division(Segment::S0), f.modulation_freq_division(Segment::S1)],
            stm_req: f.req_stm_segment() as usize,
            mod_req: f.req_modulation_segment() as usize,
        }
    })
    .ok()
}
/// is there, by the read-back `l` taken before the step, a reason for answering InvalidSilencerSettings to `spec`?
/// (the exact converse of the guard: the configuration that would be in force after accepting `spec` violates the
/// strict limits).  Also counts the boundary cases `division = steps` and `division = steps - 1`.
fn refusal_reason(out: &mut Out, l: &Limits, spec: &Spec) -> bool {
    let cur_stm = l.stm_div[l.stm_req];
    let cur_mod = l.mod_div[l.mod_req];
    // (new STM division, new modulation division, intensity steps, phase steps) after the step
    let (sd, md, i, p, strict) = match spec {
        Spec::SilSteps(i, p, st) => (cur_stm, cur_mod, *i, *p, *st),
        Spec::Foci { div, .. } | Spec::GainStm { div, .. } => (*div, cur_mod, l.i, l.p, l.strict),
        Spec::Mod { div, .. } | Spec::ModRaw { div, .. } => (cur_stm, *div, l.i, l.p, l.strict),
        Spec::SwapFoci(s, _) | Spec::SwapGainStm(s, _) | Spec::SwapGain(s, _) => (l.stm_div[*s as usize & 1], cur_mod, l.i, l.p, l.strict),
        Spec::SwapMod(s, _) => (cur_stm, l.mod_div[*s as usize & 1], l.i, l.p, l.strict),
        _ => return false,
    };
    if !strict {
        return false;
    }
    let need = i.max(p);
    if sd == need || md == i {
        out.count("boundary:division=steps");
    }
    if sd as u32 + 1 == need as u32 || md as u32 + 1 == i as u32 {
        out.count("boundary:division=steps-1");
    }
    if i > p && sd >= p && sd < i {
        out.count("boundary:stm-division-between-phase-and-intensity-steps");
    }
    sd < need || md < i
}

/// an accepted Silencer configuration must be the one in force (device 0); `None` = holds
fn silencer_in_force(w: &World, spec: &Spec) -> Option<String> {
    let cpu = &w.cpus[0];
    let f = cpu.fpga();
    let r = guarded(|| match spec {
        Spec::SilSteps(i, p, strict) => {
            let st = f.silencer_completion_steps();
            let got = (st.intensity.get(), st.phase.get(), cpu.silencer_strict_mode(), f.silencer_fixed_completion_steps_mode());
            if got != (*i, *p, *strict, true) {
                return Some(format!("accepted, but the device reports steps {}/{} strict={} fixed-completion-steps-mode={}", got.0, got.1, got.2 as u8, got.3 as u8));
            }
            None
        }
        Spec::SilRate(i, p) => {
            let ur = f.silencer_update_rate();
            let got = (ur.intensity.get(), ur.phase.get(), f.silencer_fixed_update_rate_mode());
            if got != (*i, *p, true) {
                return Some(format!("accepted, but the device reports update rate {}/{} fixed-update-rate-mode={}", got.0, got.1, got.2 as u8));
            }
            None
        }
        _ => None,
    });
    match r {
        Ok(x) => x,
        Err(p) => Some(format!("read-back panicked: {p}")),
    }
}

const IMM: (u8, u64) = (0xFF, 0);
const SYNC: (u8, u64) = (0x00, 0);
const GPIO0: (u8, u64) = (0x02, 0);
const EXT: (u8, u64) = (0xF0, 0);
/// SysTime 20 ms after the send (beyond the 10 ms margin: accepted) / 1 us after the send (missed)
const SYS_OK: (u8, u64) = (0x01, 20_000_000);
const SYS_MISS: (u8, u64) = (0x01, 1_000);

struct Letter {
    st: Step,
    /// letter of the alphabet as it was before the coverage review (its depth-3 sample is kept as it was)
    old: bool,
}

/// can this letter put a strict (or a non-trivial non-strict) configuration in force?  A history without such a
/// letter starts lax (1/1, not strict) and stays lax: guard and refusal oracle are vacuous on it.
fn relevant(st: &Step) -> bool {
    st.specs().iter().any(|s| match s {
        Spec::Clear => true,
        Spec::SilSteps(i, p, strict) => *strict || *i > 1 || *p > 1,
        _ => false,
    })
}

fn c08_alphabet(thorough: bool) -> Vec<Letter> {
    let mut v = vec![];
    // divisions on both sides of the silencer steps used below (5/20 and 10/40)
    for &(seg, div, tr) in &[(0u8, 8u16, None), (1, 8, None), (0, 30, Some(IMM)), (1, 30, Some(IMM)), (1, 50, None), (0, 50, Some(IMM))] {
        v.push(Step::Send(Spec::Foci { n: 1, seg, tr, rep: 0xFFFF, div, ss: 21760, size: 2, seed: 1 }));
    }
    for &(seg, div, tr) in &[(0u8, 15u16, Some(IMM)), (1, 15, None), (1, 45, Some(IMM))] {
        v.push(Step::Send(Spec::GainStm { mode: 0, seg, tr, rep: 0xFFFF, div, size: 2, seed: 2 }));
    }
    for &(seg, tr) in &[(0u8, Some(IMM)), (1, None), (1, Some(IMM))] {
        v.push(Step::Send(Spec::Gain { seg, tr, seed: 3 }));
    }
    for &(seg, div, tr) in &[(0u8, 4u16, None), (1, 4, Some(IMM)), (0, 7, Some(IMM)), (1, 12, None), (1, 12, Some(IMM))] {
        v.push(Step::Send(Spec::Mod { seg, tr, rep: 0xFFFF, div, n: 2, seed: 4 }));
    }
    v.extend([
        Step::Send(Spec::SilSteps(5, 20, true)),
        Step::Send(Spec::SilSteps(10, 40, true)),
        Step::Send(Spec::SilSteps(1, 1, false)),
        Step::Send(Spec::SilRate(256, 256)),
        Step::Send(Spec::SwapFoci(0, IMM)),
        Step::Send(Spec::SwapFoci(1, IMM)),
        Step::Send(Spec::SwapGainStm(1, IMM)),
        Step::Send(Spec::SwapGain(1, IMM)),
        Step::Send(Spec::SwapMod(1, IMM)),
        Step::Send(Spec::SwapMod(0, IMM)),
        Step::Send(Spec::Clear),
    ]);
    if thorough {
        v.extend([
            // multi-frame sends cut after the first frame (BEGIN delivered, END never)
            Step::Abort(1, Spec::Foci { n: 1, seg: 1, tr: Some(IMM), rep: 0xFFFF, div: 8, ss: 21760, size: 200, seed: 5 }),
            Step::Abort(1, Spec::Mod { seg: 1, tr: Some(IMM), rep: 0xFFFF, div: 4, n: 1000, seed: 6 }),
            Step::Abort(1, Spec::GainStm { mode: 0, seg: 1, tr: Some(IMM), rep: 0xFFFF, div: 8, size: 5, seed: 7 }),
            Step::Abort(1, Spec::Foci { n: 1, seg: 1, tr: None, rep: 0xFFFF, div: 8, ss: 21760, size: 200, seed: 8 }),
            Step::Send(Spec::SilSteps(20, 5, true)),
            Step::Send(Spec::SwapGain(0, IMM)),
        ]);
    }
    let mut v: Vec<Letter> = v.into_iter().map(|st| Letter { st, old: true }).collect();

    // ---- letters added by the coverage review (same grammar; the model needs no change)
    let foci = |seg: u8, tr: Tr, rep: u16, div: u16| Step::Send(Spec::Foci { n: 1, seg, tr, rep, div, ss: 21760, size: 2, seed: 1 });
    let gstm = |seg: u8, tr: Tr, rep: u16, div: u16| Step::Send(Spec::GainStm { mode: 0, seg, tr, rep, div, size: 2, seed: 2 });
    let md = |seg: u8, tr: Tr, rep: u16, div: u16| Step::Send(Spec::Mod { seg, tr, rep, div, n: 2, seed: 4 });
    let new = vec![
        // gap 1: strict steps equal to / one above divisions of the data letters (mod 4, 7; STM 8, 15, 30)
        Step::Send(Spec::SilSteps(7, 30, true)),
        Step::Send(Spec::SilSteps(8, 31, true)),
        Step::Send(Spec::SilSteps(4, 15, true)),
        // gap 4: intensity steps above phase steps (STM divisions 8 and 15 lie in [phase, intensity): only the clause
        // `stm division < intensity steps` refuses them; 15 = 16 - 1), a small modulation division on the idle segment
        Step::Send(Spec::SilSteps(16, 5, true)),
        md(1, None, 0xFFFF, 4),
        // gap 5: a non-strict configuration with non-trivial steps
        Step::Send(Spec::SilSteps(10, 40, false)),
        // gap 2: finite loops with SyncIdx / GPIO / SysTime (ahead and missed), Ext, swaps with those modes, a clock step
        foci(1, Some(SYNC), 0, 8),
        foci(1, Some(GPIO0), 0, 50),
        foci(0, Some(SYS_OK), 0, 30),
        foci(1, Some(SYS_MISS), 0, 8),
        gstm(1, Some(SYNC), 0, 15),
        gstm(1, Some(SYS_MISS), 0, 45),
        md(1, Some(SYNC), 0, 4),
        md(1, Some(SYS_MISS), 0, 7),
        md(0, Some(GPIO0), 0, 12),
        foci(1, Some(EXT), 0xFFFF, 30),
        foci(1, None, 0, 8),
        md(1, None, 0, 4),
        Step::Send(Spec::SwapFoci(1, SYNC)),
        Step::Send(Spec::SwapFoci(1, SYS_MISS)),
        Step::Send(Spec::SwapMod(1, SYNC)),
        Step::Send(Spec::SwapGainStm(1, SYNC)),
        Step::Send(Spec::SwapGainStm(1, SYS_MISS)),
        Step::Send(Spec::SwapMod(1, SYS_MISS)),
        Step::Clk(100_000_000),
        // gap 6: two datagrams in one frame, the way users change silencer and data together
        Step::Pair(Spec::SilSteps(10, 40, true), Spec::Foci { n: 1, seg: 0, tr: Some(IMM), rep: 0xFFFF, div: 50, ss: 21760, size: 2, seed: 1 }),
        Step::Pair(Spec::Foci { n: 1, seg: 0, tr: Some(IMM), rep: 0xFFFF, div: 50, ss: 21760, size: 2, seed: 1 }, Spec::SilSteps(10, 40, true)),
        Step::Pair(Spec::SilSteps(10, 40, true), Spec::Foci { n: 1, seg: 1, tr: Some(IMM), rep: 0xFFFF, div: 8, ss: 21760, size: 2, seed: 1 }),
        Step::Pair(Spec::Mod { seg: 0, tr: Some(IMM), rep: 0xFFFF, div: 4, n: 2, seed: 4 }, Spec::SilSteps(5, 20, true)),
        Step::Pair(Spec::SilSteps(1, 1, false), Spec::Mod { seg: 1, tr: Some(IMM), rep: 0xFFFF, div: 4, n: 2, seed: 4 }),
        Step::Pair(Spec::SilSteps(5, 20, true), Spec::SwapFoci(1, IMM)),
    ];
    v.extend(new.into_iter().map(|st| Letter { st, old: false }));
    v
}

fn run_seq_c08(out: &mut Out, seq: &[Step], tag: &str) {
    let mut s = Session::new(out, 1, T0);
    s.send(&Spec::Clear);
    // start from the laxest configuration so that small divisions can be installed first
    let mut verdict: Option<String> = None;
    let mut cut_seen = false;
    for (k, st) in seq.iter().enumerate() {
        let before = res_vec(&s.w);
        let lim = limits(&s.w);
        let ans = apply(&mut s, st);
        if s.dead {
            break; // aborts are C19's subject
        }
        count_dims(s.out, st);
        if let Some(m) = silencer_guard(&s.w) {
            verdict = Some(format!("after step {} (`{}`): {m}", k + 1, st.desc()));
            break;
        }
        let refused = ans.contains("err:fw:142");
        if refused {
            // a refused datagram changes nothing; in a tuple the first member may have been accepted before the
            // second was refused, so only what the first member does not address must be unchanged
            let may_change = if let Step::Pair(a, _) = st { touches(a) } else { vec![] };
            let after = res_vec(&s.w);
            if let Some(r) = (0..ALL_RES.len()).find(|&r| before[r] != after[r] && !may_change.contains(&ALL_RES[r])) {
                verdict = Some(format!("step {} (`{}`) was refused with InvalidSilencerSettings but changed the observable state ({:?})", k + 1, st.desc(), ALL_RES[r]));
                break;
            }
        }
        // the refusal is exact: by the read-back before the step there is a reason for it (not after a cut send: the
        // recorded finding F8b leaves the CPU's belief ahead of the read-back; not for tuples: the second member is
        // judged in the state the first one left)
        if let (Some(l), false, Step::Send(x) | Step::Abort(_, x)) = (&lim, cut_seen, st) {
            let reason = refusal_reason(s.out, l, x);
            if refused && !reason {
                verdict = Some(format!(
                    "step {} (`{}`) was refused with InvalidSilencerSettings although the configuration read back before it (strict={} steps {}/{}, STM divisions {:?} requested S{}, modulation divisions {:?} requested S{}) allows it",
                    k + 1, st.desc(), l.strict as u8, l.i, l.p, l.stm_div, l.stm_req, l.mod_div, l.mod_req
                ));
                break;
            }
        }
        if ans.starts_with("R=ok") {
            // the last Silencer datagram of an accepted send is the configuration in force
            if let Some(x) = st.specs().iter().rev().find(|x| matches!(x, Spec::SilSteps(..) | Spec::SilRate(..))) {
                if let Some(m) = silencer_in_force(&s.w, x) {
                    verdict = Some(format!("step {} (`{}`): {m}", k + 1, st.desc()));
                    break;
                }
            }
        }
        if matches!(st, Step::Abort(..)) {
            cut_seen = true;
        }
        s.out.count(if ans.starts_with("R=ok") || ans.starts_with("S ") {
            "accepted"
        } else if refused {
            "refused:silencer"
        } else if ans.contains("err:fw:139") {
            "refused:miss-transition-time"
        } else if ans.contains("err:fw:143") {
            "refused:transition-mode"
        } else {
            "refused:other"
        });
    }
    let log = s.log.clone();
    let desc: Vec<String> = seq.iter().map(|x| x.desc()).collect();
    out.case(Some(fnv64(desc.join("/").as_bytes())));
    if let Some(what) = verdict {
        // a send cut after its first frame leaves the CPU's segment belief ahead of the FPGA's request
        // (DESIGN F8b): one root cause, one key
        let cut = seq.iter().any(|s| matches!(s, Step::Abort(..)));
        // a cut send followed by SwapSegment::Gain to the half-written segment is a different root cause
        // (change_gain_segment trusts the CPU's stale mode/cycle copies and does not run the guard)
        let via_gain_swap = what.contains("`swapgain");
        // a tuple whose first member is a transition-carrying multi-frame STM: the second member is packed into the
        // BEGIN frame and runs while the belief is ahead of the request (same window as F8b, but no send is cut: F8d)
        let tuple_window = !cut && seq.iter().any(|s| matches!(s, Step::Pair(..)));
        let key = if tuple_window {
            "C08:tuple-member-runs-between-begin-and-end".to_string()
        } else if cut && via_gain_swap {
            "C08:cut-send-then-gain-swap-skips-guard".to_string()
        } else if cut {
            "C08:cut-send-leaves-belief-ahead-of-request".to_string()
        } else {
            format!("C08:{}:{tag}", desc.join("/"))
        };
        out.violation(key, what, log);
    }
}

pub fn run_c08(args: &Args) {
    let mut out = Out::new(&args.out);
    let thorough = args.tier == "thorough";
    let mut rng = Rng::new(args.seed ^ 0xC08);
    let alpha = c08_alphabet(thorough);
    let lax = Step::Send(Spec::SilSteps(1, 1, false));
    let foci = |seg: u8, tr: Tr, rep: u16, div: u16| Step::Send(Spec::Foci { n: 1, seg, tr, rep, div, ss: 21760, size: 2, seed: 1 });
    let md = |seg: u8, tr: Tr, rep: u16, div: u16| Step::Send(Spec::Mod { seg, tr, rep, div, n: 2, seed: 4 });
    let sil = |i: u16, p: u16, strict: bool| Step::Send(Spec::SilSteps(i, p, strict));

    // corpus: F8 (Gain to the idle segment without transition, then a strict silencer) and F8b (aborted send)
    run_seq_c08(
        &mut out,
        &[lax.clone(), Step::Send(Spec::Foci { n: 1, seg: 0, tr: Some(IMM), rep: 0xFFFF, div: 40, ss: 21760, size: 2, seed: 1 }), Step::Send(Spec::Gain { seg: 1, tr: None, seed: 3 }), Step::Send(Spec::SilSteps(10, 80, true))],
        "F8",
    );
    run_seq_c08(
        &mut out,
        &[
            lax.clone(),
            Step::Send(Spec::Foci { n: 1, seg: 0, tr: Some(IMM), rep: 0xFFFF, div: 8, ss: 21760, size: 2, seed: 1 }),
            Step::Abort(1, Spec::Foci { n: 1, seg: 1, tr: Some(IMM), rep: 0xFFFF, div: 50, ss: 21760, size: 200, seed: 5 }),
            Step::Send(Spec::SilSteps(10, 40, true)),
        ],
        "F8b",
    );
    // F8c: a FociSTM without transition cut after BEGIN, strict silencer accepted against the playing gain,
    // then SwapSegment::Gain to the half-written segment
    run_seq_c08(
        &mut out,
        &[
            lax.clone(),
            Step::Abort(1, Spec::Foci { n: 1, seg: 1, tr: None, rep: 0xFFFF, div: 40, ss: 21760, size: 200, seed: 5 }),
            Step::Send(Spec::SilSteps(10, 80, true)),
            Step::Send(Spec::SwapGain(1, IMM)),
        ],
        "F8c",
    );
    // coverage review, gap 3: a refused strict configuration must restore the CPU's private guard copies (phase and
    // intensity limits); seen only through a later probe write that lies between the old and the refused limits
    run_seq_c08(&mut out, &[lax.clone(), sil(5, 20, true), foci(0, Some(IMM), 0xFFFF, 30), sil(10, 40, true), foci(1, Some(IMM), 0xFFFF, 30)], "rollback-phase");
    run_seq_c08(&mut out, &[lax.clone(), sil(5, 20, true), md(0, Some(IMM), 0xFFFF, 7), sil(10, 40, true), md(1, Some(IMM), 0xFFFF, 7)], "rollback-intensity");
    run_seq_c08(&mut out, &[lax.clone(), sil(5, 20, true), foci(0, Some(IMM), 0xFFFF, 30), sil(10, 40, false), sil(10, 40, true), sil(5, 20, false), foci(1, Some(IMM), 0xFFFF, 8)], "rollback-strict-flag");
    // gap 2: the CPU's segment belief follows every transition-carrying write (finite loop + SyncIdx: request and
    // belief move to S1 although S0 keeps playing), also when the transition time is missed (written to the idle
    // segment first, then swapped in with a SysTime that is already past: request and belief move, then the error)
    run_seq_c08(&mut out, &[lax.clone(), foci(1, Some(SYNC), 0, 8), sil(10, 40, true)], "belief-syncidx");
    run_seq_c08(&mut out, &[lax.clone(), md(1, Some(GPIO0), 0, 4), sil(10, 40, true)], "belief-gpio-mod");
    run_seq_c08(&mut out, &[lax.clone(), foci(1, None, 0, 8), Step::Send(Spec::SwapFoci(1, SYS_MISS)), sil(10, 40, true)], "belief-missed-systime-swap");
    run_seq_c08(&mut out, &[lax.clone(), md(1, None, 0, 4), Step::Send(Spec::SwapMod(1, SYS_MISS)), sil(10, 40, true)], "belief-missed-systime-swapmod");
    run_seq_c08(&mut out, &[lax.clone(), foci(1, Some(SYS_MISS), 0, 8), sil(10, 40, true), Step::Clk(100_000_000), sil(5, 20, true)], "belief-missed-systime-write");
    // the same for the two remaining swap kinds (every swap handler moves request and belief before the time check)
    run_seq_c08(
        &mut out,
        &[lax.clone(), Step::Send(Spec::GainStm { mode: 0, seg: 1, tr: None, rep: 0, div: 8, size: 2, seed: 2 }), Step::Send(Spec::SwapGainStm(1, SYS_MISS)), sil(10, 40, true)],
        "belief-missed-systime-swapgainstm",
    );
    run_seq_c08(
        &mut out,
        &[lax.clone(), Step::Send(Spec::GainStm { mode: 1, seg: 1, tr: None, rep: 1, div: 50, size: 3, seed: 3 }), sil(10, 40, true), Step::Send(Spec::SwapGainStm(1, SYS_MISS)), sil(60, 60, true)],
        "belief-missed-systime-swapgainstm-then-stricter",
    );
    // gap 4: the swap guards judge the *target* segment (idle data written without transition, strict steps above
    // its division, then the swap), for every swap kind
    run_seq_c08(&mut out, &[lax.clone(), md(1, None, 0xFFFF, 4), sil(5, 20, true), Step::Send(Spec::SwapMod(1, IMM))], "swap-guard-mod");
    run_seq_c08(&mut out, &[lax.clone(), foci(1, None, 0xFFFF, 8), sil(10, 40, true), Step::Send(Spec::SwapFoci(1, IMM))], "swap-guard-foci");
    run_seq_c08(&mut out, &[lax.clone(), Step::Send(Spec::GainStm { mode: 0, seg: 1, tr: None, rep: 0xFFFF, div: 15, size: 2, seed: 2 }), sil(16, 5, true), Step::Send(Spec::SwapGainStm(1, IMM))], "swap-guard-gainstm");
    run_seq_c08(&mut out, &[lax.clone(), md(1, None, 0, 4), sil(5, 20, true), Step::Send(Spec::SwapMod(1, SYNC))], "swap-guard-mod-syncidx");
    // F8d (found by the send-level proof, Props/C08 `f8d_*`): no send is cut. A 2-frame GainSTM -> S1 carrying a
    // transition leaves ~100 free bytes in its BEGIN frame, so the second member of a tuple is executed between BEGIN
    // (belief := S1) and END (request := S1).
    // (a) the second member is refused: `Sender::send` stops, the belief stays on S1 while S0 is requested
    run_seq_c08(
        &mut out,
        &[
            Step::Send(Spec::Foci { n: 1, seg: 0, tr: Some((0xFF, 0)), rep: 0xFFFF, div: 40, ss: 21760, size: 2, seed: 1 }),
            Step::Pair(Spec::GainStm { mode: 0, seg: 1, tr: Some((0xFF, 0)), rep: 0xFFFF, div: 100, size: 2, seed: 2 }, Spec::SilSteps(10, 200, true)),
            Step::Send(Spec::SilSteps(10, 80, true)),
        ],
        "F8d-refused",
    );
    // (b) every send accepted: the second member moves belief and request back to S0, END then requests S1
    run_seq_c08(
        &mut out,
        &[
            Step::Pair(Spec::GainStm { mode: 0, seg: 1, tr: Some((0xFF, 0)), rep: 0xFFFF, div: 100, size: 2, seed: 2 }, Spec::SwapGain(0, (0xFF, 0))),
            Step::Send(Spec::SilSteps(10, 200, true)),
        ],
        "F8d-accepted",
    );
    out.count_n("corpus", 19);

    // bounded-exhaustive: lax start, then every sequence of two letters (both tiers) ...
    let n = alpha.len();
    for i in 0..n {
        for j in 0..n {
            run_seq_c08(&mut out, &[lax.clone(), alpha[i].st.clone(), alpha[j].st.clone()], "d2");
            out.count("seq:depth2");
        }
    }
    // ... and of three letters of which at least one can put a non-lax configuration in force (the others are
    // vacuous for guard and refusal oracle).  Sequences over the pre-review letters: every third in quick (as before,
    // offset by the seed), all in thorough; sequences with a new letter: every 16th in quick, every 4th in thorough.
    let (stride_old, stride_new) = if thorough { (1u64, 4u64) } else { (3, 16) };
    let (mut c_old, mut c_new) = (0u64, 0u64);
    for i in 0..n {
        for j in 0..n {
            for k in 0..n {
                let ls = [&alpha[i], &alpha[j], &alpha[k]];
                let old = ls.iter().all(|l| l.old);
                let rel = ls.iter().any(|l| relevant(&l.st));
                let take = if old {
                    c_old += 1;
                    (c_old - 1) % stride_old == args.seed % stride_old
                } else if rel {
                    c_new += 1;
                    (c_new - 1) % stride_new == args.seed % stride_new
                } else {
                    false
                };
                if take && rel {
                    run_seq_c08(&mut out, &[lax.clone(), ls[0].st.clone(), ls[1].st.clone(), ls[2].st.clone()], "exh");
                    out.count(if old { "seq:depth3-pre-review-letters" } else { "seq:depth3-with-new-letter" });
                }
            }
        }
    }
    // random deeper sequences
    let steps: Vec<Step> = alpha.iter().map(|l| l.st.clone()).collect();
    for _ in 0..(if thorough { 3000 } else { 300 }) {
        let n = rng.range(4, 12) as usize;
        let mut seq = vec![if rng.chance(1, 2) { lax.clone() } else { rng.pick(&steps).clone() }];
        for _ in 0..n {
            seq.push(rng.pick(&steps).clone());
        }
        run_seq_c08(&mut out, &seq, "rand");
        out.count("seq:random");
    }
    out.sample("reset 1 … / send clear / send silsteps 1 1 0 / send foci 1 0 255:0 65535 40 21760 2 1 / send gain 1 - 3 / send silsteps 10 80 1".into());
    out.finish(
        "fw_c08",
        "a case = one operation sequence (Clear, lax silencer, then letters of the C08 alphabet: writes/swaps with every transition mode (None, Immediate, Ext, SyncIdx, GPIO, SysTime ahead and missed), infinite and finite loops, strict and non-strict silencer steps equal to / one above the data divisions, tuples (Silencer, data) in one frame, clock steps, cut sends); all depth-2 sequences, the depth-3 sequences that contain a non-lax silencer letter or Clear (strided in quick), random deeper ones. Oracles on the implementation's read-back after every step: the strict-silencer guard; a send refused with InvalidSilencerSettings leaves every observable unchanged (tuple: everything its first member does not address) and has a reason by the read-back taken before it; an accepted Silencer is the configuration in force. All new letters use the existing op-line grammar (model unchanged); dim:* / boundary:* / seq:* counters show the new dimensions; sequences are distinct (a corpus case may recur in the enumeration)",
    );
}

// ------------------------------------------------------------------------------------------------ C19

/// number of alphabet variants: the same letter position carries, from variant to variant, another GPIO pin,
/// another SysTime delta on the same side of the margin, the other segment, another finite repeat count / N / mode
const VARIANTS: usize = 4;

/// The light letters.  Transition mode, loop behaviour, datagram kind and segment are independent dimensions:
/// every (kind, transition class, infinite/finite) triple is a letter, `v` rotates the rest.
fn c19_alphabet(v: usize) -> Vec<Step> {
    let mut out = vec![];
    let pin = |k: usize| ((k + v) % 4) as u64;
    // SysTime deltas relative to the clock at send time (margin 10 ms): two that are missed, three that are accepted
    let sys_miss = (0x01u8, [1_000u64, 9_999_999][v % 2]);
    let sys_ok = (0x01u8, [10_000_000u64, 20_000_000, 2_000_000_000, 20_000_000][v % 4]);
    let fin = [0u16, 1, 0, 3][v % 4];
    let trs = |k: usize| -> Vec<Tr> { vec![None, Some(IMM), Some(EXT), Some(SYNC), Some((0x02, pin(k))), Some(sys_ok), Some(sys_miss)] };
    for t in 0..7 {
        for r in 0..2 {
            let k = 2 * t + r;
            let tr = trs(k)[t];
            let rep = if r == 0 { 0xFFFF } else { fin };
            let seg = ((t + r + v) % 2) as u8;
            out.push(Step::Send(Spec::Foci {
                n: 1 + (k + 3 * v) % 8,
                seg,
                tr,
                rep,
                div: [0xFFFF, 0xFF, 512, 40][(k + v) % 4],
                ss: 21760,
                size: 2 + (k + v) % 7,
                seed: k as u64,
            }));
            out.push(Step::Send(Spec::GainStm { mode: ((k + v) % 3) as u8, seg: 1 - seg, tr, rep, div: 300, size: 2 + (k + v) % 5, seed: 20 + k as u64 }));
            out.push(Step::Send(Spec::Mod { seg: ((t + v) % 2) as u8, tr, rep, div: 10 + 100 * ((k + v) as u16 % 2), n: 2 + 3 * k, seed: 30 + k as u64 }));
        }
        // Gain with every transition mode (the driver accepts Immediate only; the others are answered at pack time)
        out.push(Step::Send(Spec::Gain { seg: ((t + v) % 2) as u8, tr: trs(t)[t], seed: 9 }));
        if let Some(x) = trs(t + 1)[t] {
            let seg = ((t + v) % 2) as u8;
            out.push(Step::Send(Spec::SwapMod(seg, x)));
            out.push(Step::Send(Spec::SwapFoci(1 - seg, x)));
            out.push(Step::Send(Spec::SwapGainStm(seg, x)));
            out.push(Step::Send(Spec::SwapGain(1 - seg, x)));
        }
    }
    // every GPIO input pin, alone and together
    out.extend([Step::Send(Spec::GpioIn(0b0010)), Step::Send(Spec::GpioIn(1 << (v % 4))), Step::Send(Spec::GpioIn(0xF)), Step::Send(Spec::GpioIn(0))]);
    // configuration datagrams: every kind the SDK has
    out.extend([
        Step::Send(Spec::SilSteps(1, 1, false)),
        Step::Send(Spec::SilRate(1, 1)),
        Step::Send(Spec::SilSteps(10, 40, true)),
        Step::Send(Spec::Clear),
        Step::Send(Spec::Reads(true)),
        Step::Send(Spec::Reads(false)),
        Step::Send(Spec::Debug([0x21u64 << 56 | [0u64, 3, 65535, 9][v % 4], 0x51u64 << 56 | [65535u64, 0, 7, 1][v % 4], 0x10u64 << 56, 0xF0u64 << 56 | 1])),
        Step::Send(Spec::Debug([0xF0u64 << 56, 0x20u64 << 56, 0x50u64 << 56, 0x52u64 << 56])),
        Step::Send(Spec::Pwe(100 + v as u64)),
        Step::Send(Spec::PweDefault),
        Step::Send(Spec::PhaseCorr(200 + v as u64)),
        Step::Send(Spec::CpuGpio([0xA0u8, 0x20, 0x80, 0][v % 4])),
        Step::Send(Spec::Fan(v % 2 == 0)),
        Step::Send(Spec::Sync),
        Step::Send(Spec::FirmInfo(1 + (v as u8 % 5))),
        Step::Send(Spec::FirmInfo(6)),
        Step::Thermo(true),
        Step::Thermo(false),
    ]);
    // cut sends: every multi-frame kind, GainSTM in every mode, both segments, with and without transition, cut after
    // the first frame, in the middle and before the last frame, and right after a GainSTM write-page change (64 gains)
    out.extend([
        Step::Abort(1, Spec::Foci { n: 2, seg: 1, tr: Some(SYNC), rep: 0, div: 600, ss: 21760, size: 300, seed: 77 }),
        Step::Abort(2, Spec::Mod { seg: 1, tr: Some(IMM), rep: 0xFFFF, div: 10, n: 3000, seed: 78 }),
        Step::Abort(1, Spec::Foci { n: 1, seg: 1, tr: Some(IMM), rep: 0xFFFF, div: 512, ss: 21760, size: 200, seed: 5 }),
        Step::Abort(1, Spec::Mod { seg: 1, tr: Some(IMM), rep: 0xFFFF, div: 10, n: 1000, seed: 6 }),
        Step::Abort(1, Spec::GainStm { mode: 0, seg: 1, tr: Some(IMM), rep: 0xFFFF, div: 300, size: 5, seed: 7 }),
        Step::Abort(1, Spec::Foci { n: 1, seg: 1, tr: None, rep: 0xFFFF, div: 512, ss: 21760, size: 200, seed: 8 }),
        Step::Abort(1 + v % 2, Spec::GainStm { mode: 1, seg: 0, tr: None, rep: 0xFFFF, div: 300, size: 9, seed: 79 }),
        Step::Abort(2 + v % 3, Spec::GainStm { mode: 2, seg: 0, tr: Some(IMM), rep: 0xFFFF, div: 300, size: 21, seed: 80 }),
        Step::Abort(2, Spec::Foci { n: 1 + v % 2, seg: 0, tr: Some(IMM), rep: 0xFFFF, div: 512, ss: 21760, size: 200, seed: 81 }),
        Step::Abort(4, Spec::Mod { seg: 0, tr: None, rep: fin, div: 10, n: 3000, seed: 82 }),
        Step::Abort(64 + v % 3, Spec::GainStm { mode: 0, seg: (v % 2) as u8, tr: Some(IMM), rep: 0xFFFF, div: 300, size: 100, seed: 83 }),
    ]);
    // two datagrams in one frame: both swap chains set in one frame, two STM writes sharing the write registers,
    // multi-frame members whose later frames carry both, Clear next to anything
    out.extend([
        Step::Pair(Spec::Mod { seg: 1, tr: Some(IMM), rep: 0xFFFF, div: 10, n: 5, seed: 90 }, Spec::Foci { n: 3, seg: 1, tr: Some(IMM), rep: 0xFFFF, div: 512, ss: 21760, size: 4, seed: 91 }),
        Step::Pair(Spec::Mod { seg: 1, tr: Some(SYNC), rep: fin, div: 10, n: 7, seed: 92 }, Spec::GainStm { mode: (v % 3) as u8, seg: 1, tr: Some((0x02, pin(0))), rep: fin, div: 300, size: 3, seed: 93 }),
        Step::Pair(Spec::Foci { n: 2, seg: 0, tr: None, rep: 0xFFFF, div: 512, ss: 21760, size: 100, seed: 94 }, Spec::Foci { n: 5, seg: 1, tr: Some(IMM), rep: 0xFFFF, div: 512, ss: 21760, size: 40, seed: 95 }),
        Step::Pair(Spec::Foci { n: 1, seg: 1, tr: Some(sys_ok), rep: fin, div: 512, ss: 21760, size: 200, seed: 96 }, Spec::Mod { seg: 1, tr: Some(sys_ok), rep: fin, div: 10, n: 1000, seed: 97 }),
        Step::Pair(Spec::SwapMod(1, IMM), Spec::SwapFoci(1, IMM)),
        Step::Pair(Spec::SwapMod((v % 2) as u8, SYNC), Spec::SwapGainStm(1, sys_ok)),
        Step::Pair(Spec::Clear, Spec::Foci { n: 8, seg: 1, tr: Some(IMM), rep: 0xFFFF, div: 512, ss: 21760, size: 3, seed: 98 }),
        Step::Pair(Spec::Mod { seg: 1, tr: Some(IMM), rep: 0xFFFF, div: 10, n: 9, seed: 99 }, Spec::Clear),
        // a large first member: the second slot starts far into the frame
        Step::Pair(Spec::Gain { seg: 1, tr: Some(IMM), seed: 10 }, Spec::SwapMod(1, IMM)),
        Step::Pair(Spec::PhaseCorr(201), Spec::Mod { seg: (v % 2) as u8, tr: Some(IMM), rep: 0xFFFF, div: 10, n: 40, seed: 89 }),
    ]);
    out
}

/// Letters that are expensive for the model (maximal sizes: every write page of both memories is used up to its last
/// entry, the shared write-page registers are left at their highest values; cuts right after a FociSTM / modulation
/// write-page change).  They meet a sample of the light letters instead of all of them.
fn c19_heavy() -> Vec<Step> {
    vec![
        Step::Send(Spec::GainStm { mode: 0, seg: 1, tr: None, rep: 0xFFFF, div: 300, size: 1024, seed: 63 }),
        Step::Send(Spec::GainStm { mode: 2, seg: 0, tr: Some(IMM), rep: 0xFFFF, div: 300, size: 1024, seed: 64 }),
        Step::Send(Spec::Foci { n: 1, seg: 0, tr: None, rep: 0xFFFF, div: 512, ss: 21760, size: 65536, seed: 65 }),
        Step::Send(Spec::Foci { n: 8, seg: 1, tr: Some(IMM), rep: 0xFFFF, div: 512, ss: 21760, size: 8192, seed: 66 }),
        Step::Send(Spec::Mod { seg: 1, tr: None, rep: 0xFFFF, div: 10, n: 65536, seed: 67 }),
        Step::Abort(56, Spec::Foci { n: 1, seg: 0, tr: Some(IMM), rep: 0xFFFF, div: 512, ss: 21760, size: 5000, seed: 68 }),
        Step::Abort(55, Spec::Mod { seg: 0, tr: Some(IMM), rep: 0xFFFF, div: 10, n: 40000, seed: 69 }),
    ]
}

const ADVANCES: [u64; 6] = [0, 1_000, 25_000 * 512, 1_000_000, 100_000_000, 3_000_000_000];

fn run_seq_c19(out: &mut Out, seq: &[Step], advs: &[u64], tag: &str) {
    let read_early = tag != "d2" && tag != "rand" && tag != "heavy" || READ_EARLY.load(std::sync::atomic::Ordering::Relaxed);
    let mut s = Session::new(out, 1, T0);
    s.send(&Spec::Clear);
    s.send(&Spec::SilSteps(1, 1, false));
    let mut verdict = None;
    let mut at_line = 0u64;
    for (k, st) in seq.iter().enumerate() {
        let ans = apply(&mut s, st);
        count_dims(s.out, st);
        for x in st.specs() {
            s.out.count(&format!("kind:{}", x.kind()));
        }
        if ans.starts_with("R=err:fw:") {
            s.out.count(&format!("ack:{}", ans[9..].split(' ').next().unwrap_or("")));
        }
        // the current output is also read straight after a send, before the clock moves on
        // (thorough and corpus cases: always; quick: every other step)
        let mut r = String::new();
        if !s.dead && matches!(st, Step::Send(_) | Step::Abort(..) | Step::Pair(..)) && (read_early || k % 2 == 1) {
            r = s.read();
        }
        if !s.dead && !r.contains('P') {
            let t = s.w.t + advs[k % advs.len()];
            s.clk(t);
            if !s.dead {
                r = s.read();
            }
        }
        at_line = s.out.lines;
        if !s.dead {
            if r.contains('P') {
                // a read-back accessor aborted (caught per accessor): find out which and where
                let cpu = &s.w.cpus[0];
                let m = guarded(|| cpu.fpga().drives()).err().or_else(|| guarded(|| cpu.fpga().modulation()).err()).unwrap_or_default();
                verdict = Some((panic_key(&m), format!("reading the current output aborted after step {} (`{}`): {m}", k + 1, st.desc())));
                break;
            }
        }
        if s.dead {
            let m = s.panic_msg.clone().unwrap_or_default();
            verdict = Some((panic_key(&m), format!("the firmware model aborted at step {} (`{}`): {m}", k + 1, st.desc())));
            break;
        }
    }
    let log = s.log.clone();
    let desc: Vec<String> = seq.iter().map(|x| x.desc()).collect();
    out.case(Some(fnv64((desc.join("/") + tag).as_bytes())));
    out.count(&format!("len:{}", seq.len()));
    if let Some((site, what)) = verdict {
        // keyed by the call site of the abort, so that one root cause is one finding
        out.count(&format!("panic:{site}"));
        out.violation_at(format!("C19:panic:{site}"), what, log, at_line);
    }
}

static READ_EARLY: std::sync::atomic::AtomicBool = std::sync::atomic::AtomicBool::new(false);

pub fn run_c19(args: &Args) {
    let mut out = Out::new(&args.out);
    let thorough = args.tier == "thorough";
    READ_EARLY.store(thorough, std::sync::atomic::Ordering::Relaxed);
    let mut rng = Rng::new(args.seed ^ 0xC19);
    let alphas: Vec<Vec<Step>> = (0..VARIANTS).map(c19_alphabet).collect();
    let heavy = c19_heavy();
    let n = alphas[0].len();
    debug_assert!(alphas.iter().all(|a| a.len() == n));
    let seed = args.seed as usize;

    // corpus: F15 (pending SyncIdx then Immediate), F16 (far focus), F17 (stale cycle with more foci per pattern)
    run_seq_c19(
        &mut out,
        &[
            Step::Send(Spec::Foci { n: 1, seg: 1, tr: Some((0x00, 0)), rep: 0, div: 0xFFFF, ss: 21760, size: 2, seed: 1 }),
            Step::Send(Spec::Foci { n: 1, seg: 1, tr: Some((0xFF, 0)), rep: 0, div: 0xFFFF, ss: 21760, size: 2, seed: 1 }),
        ],
        &[0],
        "F15",
    );
    run_seq_c19(
        &mut out,
        &[Step::Send(Spec::Foci { n: 1, seg: 0, tr: Some((0xFF, 0)), rep: 0xFFFF, div: 40, ss: 21760, size: 65536, seed: 2 }), Step::Send(Spec::Foci { n: 8, seg: 0, tr: None, rep: 0xFFFF, div: 40, ss: 21760, size: 2, seed: 3 })],
        &[0, 1_500_000_000],
        "F17",
    );
    // F18 (found by the swap-chain invariant proof): stale start offset of a re-written pending segment + Ext
    run_seq_c19(
        &mut out,
        &[
            // finite-loop 1000-pattern FociSTM to S1, GPIO pin 0 transition (pending)
            Step::Send(Spec::Foci { n: 1, seg: 1, tr: Some((0x02, 0)), rep: 5, div: 10, ss: 21760, size: 1000, seed: 1 }),
            // GPIO-in 0 raised; the clock advance below makes the transition fire at pattern index 500
            Step::Send(Spec::GpioIn(1)),
            // back to S0 (infinite loop, Immediate)
            Step::Send(Spec::SwapGain(0, (0xFF, 0))),
            // finite-loop 10-pattern FociSTM to S1, SyncIdx: pending; S1's start offset 500 is now stale
            Step::Send(Spec::Foci { n: 1, seg: 1, tr: Some((0x00, 0)), rep: 5, div: 10, ss: 21760, size: 10, seed: 2 }),
            // infinite-loop FociSTM to the *current* segment S0 with Ext (accepted: the CPU believes S1 is current)
            Step::Send(Spec::Foci { n: 1, seg: 0, tr: Some((0xF0, 0)), rep: 0xFFFF, div: 10, ss: 21760, size: 2, seed: 3 }),
        ],
        &[0, 125_000_000, 0, 0, 2_500_000],
        "F18",
    );
    // found by the trace-level proof (Props/C19 `stale_index_drives_out_of_range`): `Swapchain::set` moves to the new
    // segment and cycle but leaves `cur_idx` as it was until the next clock update; the output is read in between
    run_seq_c19(
        &mut out,
        &[
            Step::Send(Spec::Foci { n: 1, seg: 0, tr: Some((0xFF, 0)), rep: 0xFFFF, div: 40, ss: 21760, size: 65536, seed: 2 }),
            Step::Send(Spec::Foci { n: 8, seg: 1, tr: Some((0xFF, 0)), rep: 0xFFFF, div: 40, ss: 21760, size: 2, seed: 3 }),
        ],
        &[30_000_000_000, 0],
        "stale-index",
    );
    // a write refused by the strict-silencer guard must leave no trace in what the CPU believes is current: afterwards a
    // finite-loop write to that segment with Immediate / Ext is still refused (InvalidTransitionMode), and the clock runs
    for (k, first) in [
        Spec::Foci { n: 1, seg: 1, tr: Some((0xFF, 0)), rep: 0xFFFF, div: 10, ss: 21760, size: 2, seed: 31 },
        Spec::GainStm { mode: 0, seg: 1, tr: Some((0xFF, 0)), rep: 0xFFFF, div: 10, size: 2, seed: 32 },
        Spec::Mod { seg: 1, tr: Some((0xFF, 0)), rep: 0xFFFF, div: 2, n: 4, seed: 33 },
        Spec::Foci { n: 2, seg: 1, tr: Some((0x00, 0)), rep: 1, div: 10, ss: 21760, size: 3, seed: 34 },
    ]
    .into_iter()
    .enumerate()
    {
        for tr2 in [(0xFFu8, 0u64), (0xF0, 0)] {
            let second = match k {
                2 => Spec::Mod { seg: 1, tr: Some(tr2), rep: 1, div: 100, n: 6, seed: 35 },
                1 => Spec::GainStm { mode: 1, seg: 1, tr: Some(tr2), rep: 2, div: 300, size: 3, seed: 36 },
                _ => Spec::Foci { n: 3, seg: 1, tr: Some(tr2), rep: 0, div: 512, ss: 21760, size: 4, seed: 37 },
            };
            run_seq_c19(&mut out, &[Step::Send(Spec::SilSteps(10, 40, true)), Step::Send(first.clone()), Step::Send(second)], &[0, 1_000_000, 100_000_000], "refused-by-silencer-then-finite");
        }
    }
    // `zero_sound_speed_reachable`: a device sound speed below 7.8 mm/s is packed as 0; the firmware divides by it
    run_seq_c19(&mut out, &[Step::Send(Spec::Foci { n: 1, seg: 0, tr: Some((0xFF, 0)), rep: 0xFFFF, div: 40, ss: 0, size: 2, seed: 4 })], &[1_000_000], "zero-ss");
    // coverage review, gap 2: SysTime transitions that are accepted deep in a history (relative to the clock at send
    // time) and fire in a swap chain that carries the start offset / start lap of an earlier GPIO transition:
    // S1 entered by GPIO at pattern 500 of 1000, back to S0, a shorter finite loop to S1 at SysTime now+20 ms
    // (fires at another index), back to S0 and once more with SysTime at the margin, each followed over its end
    for (tag, kind) in [("systime-after-gpio-stm", 0), ("systime-after-gpio-mod", 1)] {
        let w = |tr: (u8, u64), size: usize, seed: u64| -> Step {
            if kind == 0 {
                Step::Send(Spec::Foci { n: 1, seg: 1, tr: Some(tr), rep: 2, div: 10, ss: 21760, size, seed })
            } else {
                Step::Send(Spec::Mod { seg: 1, tr: Some(tr), rep: 2, div: 10, n: size, seed })
            }
        };
        let back = if kind == 0 { Step::Send(Spec::SwapGain(0, IMM)) } else { Step::Send(Spec::SwapMod(0, IMM)) };
        run_seq_c19(
            &mut out,
            &[w((0x02, 3), 1000, 1), Step::Send(Spec::GpioIn(0b1000)), back.clone(), w((0x01, 20_000_000), 10, 2), back.clone(), w((0x01, 10_000_000), 7, 3), back.clone(), w((0x01, 9_999_999), 7, 3)],
            &[0, 125_000_000, 1_000, 30_000_000, 0, 12_800_000, 3_000_000_000, 0],
            tag,
        );
    }
    // gap 6: mode / cycle mismatch left by a cut send (F17 family): a GainSTM cut after its BEGIN frame has switched
    // the playing segment to gain mode while the cycle register still holds the 65536 patterns of the FociSTM before;
    // the same with a cut FociSTM of 8 foci per pattern over a long GainSTM
    run_seq_c19(
        &mut out,
        &[Step::Send(Spec::Foci { n: 1, seg: 0, tr: Some(IMM), rep: 0xFFFF, div: 40, ss: 21760, size: 65536, seed: 2 }), Step::Abort(1, Spec::GainStm { mode: 0, seg: 0, tr: None, rep: 0xFFFF, div: 300, size: 5, seed: 7 })],
        &[0, 1_500_000_000],
        "cut-gainstm-over-long-foci",
    );
    run_seq_c19(
        &mut out,
        &[Step::Send(Spec::GainStm { mode: 2, seg: 0, tr: Some(IMM), rep: 0xFFFF, div: 300, size: 1024, seed: 64 }), Step::Abort(1, Spec::Foci { n: 8, seg: 0, tr: None, rep: 0xFFFF, div: 512, ss: 21760, size: 200, seed: 8 })],
        &[0, 1_500_000_000],
        "cut-foci-over-long-gainstm",
    );
    out.count_n("corpus", 9);

    // bounded-exhaustive depth 2 over the light letters (quick: every 4th pair, offset by the seed; thorough: all);
    // the variant of each letter rotates with its position so that all variants meet
    let d2_stride = if thorough { 1 } else { 4 };
    for i in 0..n {
        for j in 0..n {
            if (i * n + j + seed) % d2_stride != 0 {
                continue;
            }
            let advs = [ADVANCES[(i + j) % 6], ADVANCES[(i + 2 * j + 1) % 6]];
            let (a, b) = (&alphas[(i + j + seed) % VARIANTS][i], &alphas[(i + 2 * j + 1 + seed) % VARIANTS][j]);
            run_seq_c19(&mut out, &[a.clone(), b.clone()], &advs, "d2");
        }
    }
    // every heavy letter before and after a sample of the light letters
    let per_heavy = if thorough { 60 } else { 8 };
    for (h, hl) in heavy.iter().enumerate() {
        for q in 0..per_heavy {
            let j = (h * 17 + q * (n / per_heavy).max(1) + seed) % n;
            let l = &alphas[(h + q + seed) % VARIANTS][j];
            let advs = [ADVANCES[(h + q) % 6], ADVANCES[(h + 2 * q + 1) % 6]];
            run_seq_c19(&mut out, &[hl.clone(), l.clone()], &advs, "heavy");
            run_seq_c19(&mut out, &[l.clone(), hl.clone()], &advs, "heavy");
        }
    }
    if thorough {
        // depth 3, strided
        let mut c = 0usize;
        for i in 0..n {
            for j in 0..n {
                for k in 0..n {
                    c += 1;
                    if (c + seed) % 151 != 0 {
                        continue;
                    }
                    let advs = [ADVANCES[(i + k) % 6], ADVANCES[(j + 1) % 6], ADVANCES[(i + j + k) % 6]];
                    let v = (i + j + k + seed) % VARIANTS;
                    run_seq_c19(&mut out, &[alphas[v][i].clone(), alphas[(v + 1) % VARIANTS][j].clone(), alphas[(v + 2) % VARIANTS][k].clone()], &advs, "d3");
                }
            }
        }
    }
    for _ in 0..(if thorough { 3000 } else { 300 }) {
        let len = rng.range(3, 30) as usize;
        let mut seq: Vec<Step> = (0..len)
            .map(|_| {
                let v = rng.below(VARIANTS as u64) as usize;
                rng.pick(&alphas[v]).clone()
            })
            .collect();
        // one sequence in five carries a heavy letter
        if rng.chance(1, 5) {
            let at = rng.below(len as u64) as usize;
            seq[at] = rng.pick(&heavy).clone();
        }
        let advs: Vec<u64> = (0..len).map(|_| *rng.pick(&ADVANCES)).collect();
        run_seq_c19(&mut out, &seq, &advs, "rand");
    }
    out.sample("reset 1 … / send clear / send silsteps 1 1 0 / send foci 1 1 0:0 0 65535 21760 2 1 / clk / read / send foci 1 1 255:0 0 65535 21760 2 1 / clk / read".into());
    out.finish(
        "fw_c19",
        "a case = one sequence over the extended alphabet, each step followed by a clock advance from {0,1us,one sample,1ms,100ms,3s} and a read of drives()/modulation(). Letters: FociSTM/GainSTM/Modulation x every transition class (None, Immediate, Ext, SyncIdx, GPIO pin 0-3, SysTime 10 ms/20 ms/2 s ahead of the clock at send time, SysTime 1 us / 10 ms - 1 ns ahead = missed) x infinite/finite loop, Gain and the four SwapSegment kinds with every transition, GPIO inputs per pin, every configuration datagram (Debug, PWE, PhaseCorrection, CpuGPIO, ForceFan, Synchronize, FirmwareInfo, ReadsFPGAState on/off, strict/lax silencer), cut sends (every kind, GainSTM modes 0-2, both segments, first/middle/last-but-one frame, after a write-page change), tuples (two datagrams in one frame), thermal sensor; four variants of every letter rotate segment, pin, delta, repeat count, N and mode. Maximal-size letters meet a sample of the others. All letters use the existing op-line grammar (model unchanged); dim:* / kind:* / ack:* counters show the dimensions; cases are counted distinct by sequence",
    );
}
