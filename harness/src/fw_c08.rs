//! `fw_c08` (C08: strict silencer mode cannot be circumvented) and `fw_c19` (C19: the firmware model
//! never aborts on anything the SDK can send).  Both explore operation sequences over small alphabets,
//! bounded-exhaustively and at random, with aborted (cut) sends; every answer goes to the Lean model.
use crate::common::*;
use crate::fw_c01::T0;
use crate::fwc::*;

#[derive(Clone)]
pub enum Step {
    Send(Spec),
    Abort(usize, Spec),
    Clk(u64),
    Read,
    Thermo(bool),
}

impl Step {
    fn desc(&self) -> String {
        match self {
            Step::Send(s) => s.text(),
            Step::Abort(k, s) => format!("abort{k}:{}", s.text()),
            Step::Clk(d) => format!("clk+{d}"),
            Step::Read => "read".into(),
            Step::Thermo(b) => format!("thermo{}", *b as u8),
        }
    }
}

fn apply(s: &mut Session, st: &Step) -> String {
    match st {
        Step::Send(x) => s.send(x),
        Step::Abort(k, x) => s.abort(*k, x),
        Step::Clk(d) => {
            let t = s.w.t + d;
            s.clk(t)
        }
        Step::Read => s.read(),
        Step::Thermo(b) => {
            s.thermo(0, *b);
            "ok".into()
        }
    }
}

/// C08 invariant on the implementation; `None` = holds
fn silencer_guard(w: &World) -> Option<String> {
    for (d, cpu) in w.cpus.iter().enumerate() {
        let f = cpu.fpga();
        let r = guarded(|| {
            if cpu.silencer_strict_mode() && f.silencer_fixed_completion_steps_mode() {
                let st = f.silencer_completion_steps();
                let need_stm = st.intensity.get().max(st.phase.get());
                let sd = f.stm_freq_division(f.req_stm_segment());
                let md = f.modulation_freq_division(f.req_modulation_segment());
                if sd < need_stm {
                    return Some(format!(
                        "dev {d}: strict fixed-steps silencer ({}/{}) but the requested STM segment {:?} samples with division {sd}",
                        st.intensity.get(), st.phase.get(), f.req_stm_segment()
                    ));
                }
                if md < st.intensity.get() {
                    return Some(format!(
                        "dev {d}: strict fixed-steps silencer (intensity steps {}) but the requested modulation segment {:?} samples with division {md}",
                        st.intensity.get(), f.req_modulation_segment()
                    ));
                }
            }
            None
        });
        match r {
            Ok(Some(m)) => return Some(m),
            Ok(None) => {}
            Err(p) => return Some(format!("dev {d}: read-back panicked: {p}")),
        }
    }
    None
}

fn all_obs(w: &World) -> Vec<String> {
    w.cpus.iter().map(|c| ALL_RES.iter().map(|r| format!("{}|{}", res_obs(c, *r), res_dyn(c, *r))).collect::<Vec<_>>().join(";")).collect()
}

fn c08_alphabet(thorough: bool) -> Vec<Step> {
    let mut v = vec![];
    // divisions on both sides of the silencer steps used below (5/20 and 10/40)
    for &(seg, div, tr) in &[(0u8, 8u16, None), (1, 8, None), (0, 30, Some((0xFFu8, 0u64))), (1, 30, Some((0xFF, 0))), (1, 50, None), (0, 50, Some((0xFF, 0)))] {
        v.push(Step::Send(Spec::Foci { n: 1, seg, tr, rep: 0xFFFF, div, ss: 21760, size: 2, seed: 1 }));
    }
    for &(seg, div, tr) in &[(0u8, 15u16, Some((0xFFu8, 0u64))), (1, 15, None), (1, 45, Some((0xFF, 0)))] {
        v.push(Step::Send(Spec::GainStm { mode: 0, seg, tr, rep: 0xFFFF, div, size: 2, seed: 2 }));
    }
    for &(seg, tr) in &[(0u8, Some((0xFFu8, 0u64))), (1, None), (1, Some((0xFF, 0)))] {
        v.push(Step::Send(Spec::Gain { seg, tr, seed: 3 }));
    }
    for &(seg, div, tr) in &[(0u8, 4u16, None), (1, 4, Some((0xFFu8, 0u64))), (0, 7, Some((0xFF, 0))), (1, 12, None), (1, 12, Some((0xFF, 0)))] {
        v.push(Step::Send(Spec::Mod { seg, tr, rep: 0xFFFF, div, n: 2, seed: 4 }));
    }
    v.extend([
        Step::Send(Spec::SilSteps(5, 20, true)),
        Step::Send(Spec::SilSteps(10, 40, true)),
        Step::Send(Spec::SilSteps(1, 1, false)),
        Step::Send(Spec::SilRate(256, 256)),
        Step::Send(Spec::SwapFoci(0, (0xFF, 0))),
        Step::Send(Spec::SwapFoci(1, (0xFF, 0))),
        Step::Send(Spec::SwapGainStm(1, (0xFF, 0))),
        Step::Send(Spec::SwapGain(1, (0xFF, 0))),
        Step::Send(Spec::SwapMod(1, (0xFF, 0))),
        Step::Send(Spec::SwapMod(0, (0xFF, 0))),
        Step::Send(Spec::Clear),
    ]);
    if thorough {
        v.extend([
            // multi-frame sends cut after the first frame (BEGIN delivered, END never)
            Step::Abort(1, Spec::Foci { n: 1, seg: 1, tr: Some((0xFF, 0)), rep: 0xFFFF, div: 8, ss: 21760, size: 200, seed: 5 }),
            Step::Abort(1, Spec::Mod { seg: 1, tr: Some((0xFF, 0)), rep: 0xFFFF, div: 4, n: 1000, seed: 6 }),
            Step::Abort(1, Spec::GainStm { mode: 0, seg: 1, tr: Some((0xFF, 0)), rep: 0xFFFF, div: 8, size: 5, seed: 7 }),
            Step::Abort(1, Spec::Foci { n: 1, seg: 1, tr: None, rep: 0xFFFF, div: 8, ss: 21760, size: 200, seed: 8 }),
            Step::Send(Spec::SilSteps(20, 5, true)),
            Step::Send(Spec::SwapGain(0, (0xFF, 0))),
        ]);
    }
    v
}

fn run_seq_c08(out: &mut Out, seq: &[Step], tag: &str) {
    let mut s = Session::new(out, 1, T0);
    s.send(&Spec::Clear);
    // start from the laxest configuration so that small divisions can be installed first
    let mut verdict: Option<String> = None;
    for (k, st) in seq.iter().enumerate() {
        let before = all_obs(&s.w);
        let ans = apply(&mut s, st);
        if s.dead {
            break; // aborts are C19's subject
        }
        if let Some(m) = silencer_guard(&s.w) {
            verdict = Some(format!("after step {} (`{}`): {m}", k + 1, st.desc()));
            break;
        }
        if ans.contains("err:fw:142") && all_obs(&s.w) != before {
            verdict = Some(format!("step {} (`{}`) was refused with InvalidSilencerSettings but changed the observable state", k + 1, st.desc()));
            break;
        }
        s.out.count(if ans.starts_with("R=ok") { "accepted" } else if ans.contains("err:fw:142") { "refused:silencer" } else { "refused:other" });
    }
    let log = s.log.clone();
    let desc: Vec<String> = seq.iter().map(|x| x.desc()).collect();
    out.case(Some(fnv64(desc.join("/").as_bytes())));
    if let Some(what) = verdict {
        // a send cut after its first frame leaves the CPU's segment belief ahead of the FPGA's request
        // (DESIGN F8b): one root cause, one key
        let cut = seq.iter().any(|s| matches!(s, Step::Abort(..)));
        // a cut send followed by SwapSegment::Gain to the half-written segment is a different root cause
        // (change_gain_segment trusts the CPU's stale mode/cycle copies and does not run the guard)
        let via_gain_swap = what.contains("`swapgain");
        let key = if cut && via_gain_swap {
            "C08:cut-send-then-gain-swap-skips-guard".to_string()
        } else if cut {
            "C08:cut-send-leaves-belief-ahead-of-request".to_string()
        } else {
            format!("C08:{}:{tag}", desc.join("/"))
        };
        out.violation(key, what, log);
    }
}

pub fn run_c08(args: &Args) {
    let mut out = Out::new(&args.out);
    let thorough = args.tier == "thorough";
    let mut rng = Rng::new(args.seed ^ 0xC08);
    let alpha = c08_alphabet(thorough);
    let lax = Step::Send(Spec::SilSteps(1, 1, false));

    // corpus: F8 (Gain to the idle segment without transition, then a strict silencer) and F8b (aborted send)
    run_seq_c08(
        &mut out,
        &[lax.clone(), Step::Send(Spec::Foci { n: 1, seg: 0, tr: Some((0xFF, 0)), rep: 0xFFFF, div: 40, ss: 21760, size: 2, seed: 1 }), Step::Send(Spec::Gain { seg: 1, tr: None, seed: 3 }), Step::Send(Spec::SilSteps(10, 80, true))],
        "F8",
    );
    run_seq_c08(
        &mut out,
        &[
            lax.clone(),
            Step::Send(Spec::Foci { n: 1, seg: 0, tr: Some((0xFF, 0)), rep: 0xFFFF, div: 8, ss: 21760, size: 2, seed: 1 }),
            Step::Abort(1, Spec::Foci { n: 1, seg: 1, tr: Some((0xFF, 0)), rep: 0xFFFF, div: 50, ss: 21760, size: 200, seed: 5 }),
            Step::Send(Spec::SilSteps(10, 40, true)),
        ],
        "F8b",
    );
    // F8c: a FociSTM without transition cut after BEGIN, strict silencer accepted against the playing gain,
    // then SwapSegment::Gain to the half-written segment
    run_seq_c08(
        &mut out,
        &[
            lax.clone(),
            Step::Abort(1, Spec::Foci { n: 1, seg: 1, tr: None, rep: 0xFFFF, div: 40, ss: 21760, size: 200, seed: 5 }),
            Step::Send(Spec::SilSteps(10, 80, true)),
            Step::Send(Spec::SwapGain(1, (0xFF, 0))),
        ],
        "F8c",
    );
    out.count_n("corpus", 3);

    // bounded-exhaustive: lax start, then every sequence of `depth` letters
    let depth = 3;
    let letters: Vec<&Step> = if thorough { alpha.iter().collect() } else { alpha.iter().step_by(1).collect() };
    let mut idx = vec![0usize; depth];
    let quick_stride = if thorough { 1 } else { 3 }; // quick: every third sequence (offset by seed), all in thorough
    let mut counter = 0u64;
    loop {
        if counter % quick_stride == (args.seed % quick_stride) {
            let mut seq = vec![lax.clone()];
            seq.extend(idx.iter().map(|&i| letters[i].clone()));
            run_seq_c08(&mut out, &seq, "exh");
        }
        counter += 1;
        let mut p = depth;
        loop {
            if p == 0 {
                break;
            }
            p -= 1;
            idx[p] += 1;
            if idx[p] < letters.len() {
                break;
            }
            idx[p] = 0;
            if p == 0 {
                p = usize::MAX;
                break;
            }
        }
        if p == usize::MAX {
            break;
        }
    }
    // random deeper sequences
    for _ in 0..(if thorough { 3000 } else { 300 }) {
        let n = rng.range(4, 12) as usize;
        let mut seq = vec![if rng.chance(1, 2) { lax.clone() } else { rng.pick(&alpha).clone() }];
        for _ in 0..n {
            seq.push(rng.pick(&alpha).clone());
        }
        run_seq_c08(&mut out, &seq, "rand");
    }
    out.sample("reset 1 … / send clear / send silsteps 1 1 0 / send foci 1 0 255:0 65535 40 21760 2 1 / send gain 1 - 3 / send silsteps 10 80 1".into());
    out.finish(
        "fw_c08",
        "a case = one operation sequence (Clear, lax silencer, then letters of the C08 alphabet incl. cut sends); after every step the strict-silencer guard is evaluated on the implementation, and a send refused with InvalidSilencerSettings must leave every observable unchanged; all sequences are distinct",
    );
}

// ------------------------------------------------------------------------------------------------ C19

fn c19_alphabet(t_now: u64) -> Vec<Step> {
    let mut v = vec![];
    let trs: Vec<Tr> = vec![None, Some((0xFF, 0)), Some((0xF0, 0)), Some((0x00, 0)), Some((0x02, 1)), Some((0x01, t_now + 20_000_000)), Some((0x01, t_now + 1_000))];
    for (k, tr) in trs.iter().enumerate() {
        let seg = (k % 2) as u8;
        let rep = if k % 3 == 0 { 0xFFFF } else { (k % 3 - 1) as u16 };
        v.push(Step::Send(Spec::Foci { n: 1 + k % 8, seg, tr: *tr, rep, div: 0xFFFF - (k as u16 % 2) * 0xFF00, ss: 21760, size: 2 + k, seed: k as u64 }));
        v.push(Step::Send(Spec::Foci { n: 8 - k % 8, seg: 1 - seg, tr: *tr, rep, div: 512, ss: 21760, size: 3, seed: 40 + k as u64 }));
        v.push(Step::Send(Spec::GainStm { mode: (k % 3) as u8, seg, tr: *tr, rep, div: 300, size: 2 + k % 5, seed: 20 + k as u64 }));
        v.push(Step::Send(Spec::Mod { seg: 1 - seg, tr: *tr, rep, div: 10 + 100 * (k as u16 % 2), n: 2 + 3 * k, seed: 30 + k as u64 }));
        if let Some(t) = tr {
            v.push(Step::Send(Spec::SwapMod(seg, *t)));
            v.push(Step::Send(Spec::SwapFoci(1 - seg, *t)));
            v.push(Step::Send(Spec::SwapGainStm(seg, *t)));
            v.push(Step::Send(Spec::SwapGain(1 - seg, *t)));
        }
    }
    // finite-loop data written to the idle segment without a transition (to be swapped in later)
    for seg in [0u8, 1] {
        v.push(Step::Send(Spec::Mod { seg, tr: None, rep: 0, div: 10, n: 6, seed: 60 }));
        v.push(Step::Send(Spec::Foci { n: 2, seg, tr: None, rep: 1, div: 512, ss: 21760, size: 3, seed: 61 }));
        v.push(Step::Send(Spec::GainStm { mode: 0, seg, tr: None, rep: 2, div: 300, size: 3, seed: 62 }));
    }
    // maximal sizes: every write page of both memories is used up to its last entry (the shared write-page registers
    // are left at their highest values)
    v.extend([
        Step::Send(Spec::GainStm { mode: 0, seg: 1, tr: None, rep: 0xFFFF, div: 300, size: 1024, seed: 63 }),
        Step::Send(Spec::GainStm { mode: 2, seg: 0, tr: Some((0xFF, 0)), rep: 0xFFFF, div: 300, size: 1024, seed: 64 }),
        Step::Send(Spec::Foci { n: 1, seg: 0, tr: None, rep: 0xFFFF, div: 512, ss: 21760, size: 65536, seed: 65 }),
        Step::Send(Spec::Foci { n: 8, seg: 1, tr: Some((0xFF, 0)), rep: 0xFFFF, div: 512, ss: 21760, size: 8192, seed: 66 }),
        Step::Send(Spec::Mod { seg: 1, tr: None, rep: 0xFFFF, div: 10, n: 65536, seed: 67 }),
    ]);
    v.extend([
        Step::Send(Spec::Gain { seg: 1, tr: Some((0xFF, 0)), seed: 9 }),
        Step::Send(Spec::Gain { seg: 0, tr: None, seed: 9 }),
        Step::Send(Spec::GpioIn(0b0010)),
        Step::Send(Spec::GpioIn(0)),
        Step::Send(Spec::SilSteps(1, 1, false)),
        Step::Send(Spec::SilRate(1, 1)),
        Step::Send(Spec::Clear),
        Step::Send(Spec::Reads(true)),
        Step::Abort(1, Spec::Foci { n: 2, seg: 1, tr: Some((0x00, 0)), rep: 0, div: 600, ss: 21760, size: 300, seed: 77 }),
        Step::Abort(2, Spec::Mod { seg: 1, tr: Some((0xFF, 0)), rep: 0xFFFF, div: 10, n: 3000, seed: 78 }),
        Step::Thermo(true),
        Step::Thermo(false),
    ]);
    v
}

const ADVANCES: [u64; 6] = [0, 1_000, 25_000 * 512, 1_000_000, 100_000_000, 3_000_000_000];

fn run_seq_c19(out: &mut Out, seq: &[Step], advs: &[u64], tag: &str) {
    let read_early = tag != "d2" && tag != "rand" || READ_EARLY.load(std::sync::atomic::Ordering::Relaxed);
    let mut s = Session::new(out, 1, T0);
    s.send(&Spec::Clear);
    s.send(&Spec::SilSteps(1, 1, false));
    let mut verdict = None;
    let mut at_line = 0u64;
    for (k, st) in seq.iter().enumerate() {
        apply(&mut s, st);
        // the current output is also read straight after a send, before the clock moves on
        // (thorough and corpus cases: always; quick: every other step)
        let mut r = String::new();
        if !s.dead && matches!(st, Step::Send(_) | Step::Abort(..)) && (read_early || k % 2 == 1) {
            r = s.read();
        }
        if !s.dead && !r.contains('P') {
            let t = s.w.t + advs[k % advs.len()];
            s.clk(t);
            if !s.dead {
                r = s.read();
            }
        }
        at_line = s.out.lines;
        if !s.dead {
            if r.contains('P') {
                // a read-back accessor aborted (caught per accessor): find out which and where
                let cpu = &s.w.cpus[0];
                let m = guarded(|| cpu.fpga().drives()).err().or_else(|| guarded(|| cpu.fpga().modulation()).err()).unwrap_or_default();
                verdict = Some((panic_key(&m), format!("reading the current output aborted after step {} (`{}`): {m}", k + 1, st.desc())));
                break;
            }
        }
        if s.dead {
            let m = s.panic_msg.clone().unwrap_or_default();
            verdict = Some((panic_key(&m), format!("the firmware model aborted at step {} (`{}`): {m}", k + 1, st.desc())));
            break;
        }
    }
    let log = s.log.clone();
    let desc: Vec<String> = seq.iter().map(|x| x.desc()).collect();
    out.case(Some(fnv64((desc.join("/") + tag).as_bytes())));
    out.count(&format!("len:{}", seq.len()));
    if let Some((site, what)) = verdict {
        // keyed by the call site of the abort, so that one root cause is one finding
        out.count(&format!("panic:{site}"));
        out.violation_at(format!("C19:panic:{site}"), what, log, at_line);
    }
}

static READ_EARLY: std::sync::atomic::AtomicBool = std::sync::atomic::AtomicBool::new(false);

pub fn run_c19(args: &Args) {
    let mut out = Out::new(&args.out);
    let thorough = args.tier == "thorough";
    READ_EARLY.store(thorough, std::sync::atomic::Ordering::Relaxed);
    let mut rng = Rng::new(args.seed ^ 0xC19);
    let alpha = c19_alphabet(T0);

    // corpus: F15 (pending SyncIdx then Immediate), F16 (far focus), F17 (stale cycle with more foci per pattern)
    run_seq_c19(
        &mut out,
        &[
            Step::Send(Spec::Foci { n: 1, seg: 1, tr: Some((0x00, 0)), rep: 0, div: 0xFFFF, ss: 21760, size: 2, seed: 1 }),
            Step::Send(Spec::Foci { n: 1, seg: 1, tr: Some((0xFF, 0)), rep: 0, div: 0xFFFF, ss: 21760, size: 2, seed: 1 }),
        ],
        &[0],
        "F15",
    );
    run_seq_c19(
        &mut out,
        &[Step::Send(Spec::Foci { n: 1, seg: 0, tr: Some((0xFF, 0)), rep: 0xFFFF, div: 40, ss: 21760, size: 65536, seed: 2 }), Step::Send(Spec::Foci { n: 8, seg: 0, tr: None, rep: 0xFFFF, div: 40, ss: 21760, size: 2, seed: 3 })],
        &[0, 1_500_000_000],
        "F17",
    );
    // F18 (found by the swap-chain invariant proof): stale start offset of a re-written pending segment + Ext
    run_seq_c19(
        &mut out,
        &[
            // finite-loop 1000-pattern FociSTM to S1, GPIO pin 0 transition (pending)
            Step::Send(Spec::Foci { n: 1, seg: 1, tr: Some((0x02, 0)), rep: 5, div: 10, ss: 21760, size: 1000, seed: 1 }),
            // GPIO-in 0 raised; the clock advance below makes the transition fire at pattern index 500
            Step::Send(Spec::GpioIn(1)),
            // back to S0 (infinite loop, Immediate)
            Step::Send(Spec::SwapGain(0, (0xFF, 0))),
            // finite-loop 10-pattern FociSTM to S1, SyncIdx: pending; S1's start offset 500 is now stale
            Step::Send(Spec::Foci { n: 1, seg: 1, tr: Some((0x00, 0)), rep: 5, div: 10, ss: 21760, size: 10, seed: 2 }),
            // infinite-loop FociSTM to the *current* segment S0 with Ext (accepted: the CPU believes S1 is current)
            Step::Send(Spec::Foci { n: 1, seg: 0, tr: Some((0xF0, 0)), rep: 0xFFFF, div: 10, ss: 21760, size: 2, seed: 3 }),
        ],
        &[0, 125_000_000, 0, 0, 2_500_000],
        "F18",
    );
    // found by the trace-level proof (Props/C19 `stale_index_drives_out_of_range`): `Swapchain::set` moves to the new
    // segment and cycle but leaves `cur_idx` as it was until the next clock update; the output is read in between
    run_seq_c19(
        &mut out,
        &[
            Step::Send(Spec::Foci { n: 1, seg: 0, tr: Some((0xFF, 0)), rep: 0xFFFF, div: 40, ss: 21760, size: 65536, seed: 2 }),
            Step::Send(Spec::Foci { n: 8, seg: 1, tr: Some((0xFF, 0)), rep: 0xFFFF, div: 40, ss: 21760, size: 2, seed: 3 }),
        ],
        &[30_000_000_000, 0],
        "stale-index",
    );
    // `zero_sound_speed_reachable`: a device sound speed below 7.8 mm/s is packed as 0; the firmware divides by it
    run_seq_c19(&mut out, &[Step::Send(Spec::Foci { n: 1, seg: 0, tr: Some((0xFF, 0)), rep: 0xFFFF, div: 40, ss: 0, size: 2, seed: 4 })], &[1_000_000], "zero-ss");
    out.count_n("corpus", 5);

    // bounded-exhaustive depth 2 (quick: strided) / depth 2 full + depth 3 strided (thorough)
    let n = alpha.len();
    for i in 0..n {
        for j in 0..n {
            if !thorough && (i * n + j) as u64 % 4 != args.seed % 4 {
                continue;
            }
            let advs = [ADVANCES[(i + j) % 6], ADVANCES[(i + 2 * j + 1) % 6]];
            run_seq_c19(&mut out, &[alpha[i].clone(), alpha[j].clone()], &advs, "d2");
        }
    }
    if thorough {
        for i in 0..n {
            for j in 0..n {
                for k in 0..n {
                    if ((i * n + j) * n + k) as u64 % 37 != args.seed % 37 {
                        continue;
                    }
                    let advs = [ADVANCES[(i + k) % 6], ADVANCES[(j + 1) % 6], ADVANCES[(i + j + k) % 6]];
                    run_seq_c19(&mut out, &[alpha[i].clone(), alpha[j].clone(), alpha[k].clone()], &advs, "d3");
                }
            }
        }
    }
    for _ in 0..(if thorough { 2000 } else { 200 }) {
        let len = rng.range(3, 30) as usize;
        let seq: Vec<Step> = (0..len).map(|_| rng.pick(&alpha).clone()).collect();
        let advs: Vec<u64> = (0..len).map(|_| *rng.pick(&ADVANCES)).collect();
        run_seq_c19(&mut out, &seq, &advs, "rand");
    }
    out.sample("reset 1 … / send clear / send silsteps 1 1 0 / send foci 1 1 0:0 0 65535 21760 2 1 / clk / read / send foci 1 1 255:0 0 65535 21760 2 1 / clk / read".into());
    out.finish(
        "fw_c19",
        "a case = one sequence over the extended alphabet (every transition mode incl. SysTime relative to the controlled clock, GPIO toggles, Ext, cut sends, thermal sensor), each step followed by a clock advance from {0,1us,one sample,1ms,100ms,3s} and a read of drives()/modulation(); distinct by sequence",
    );
}
